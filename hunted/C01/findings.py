"""C01 findings: reproductions. Run with
    cd /tmp/hunt/C01 && PYTHONPATH=/tmp/hunt/C01/src /venv/bin/python findings.py
"""
import logging
import os
import re
import sys
import tempfile
import warnings

import numpy as np

from dliswriter import DLISFile
from dliswriter.logical_record.misc import StorageUnitLabel

logging.disable(logging.CRITICAL)
_TMP = tempfile.mkdtemp(prefix="c01_")


def _write(df, name):
    """Minimal valid logical file (origin, one channel, one frame), written quietly; returns file bytes."""
    lf = df.add_logical_file()
    lf.add_origin("O", file_set_number=1)
    ch = lf.add_channel("D", data=np.zeros((4, 100)))
    lf.add_frame("F", channels=(ch,))
    path = os.path.join(_TMP, name)
    saved, null = os.dup(2), os.open(os.devnull, os.O_WRONLY)  # silence the progress bar (written to fd 2)
    os.dup2(null, 2)
    try:
        df.write(path, output_chunk_size=2 ** 16)
    finally:
        sys.stderr.flush()
        os.dup2(saved, 2)
        os.close(saved)
        os.close(null)
    with open(path, "rb") as f:
        return path, f.read()


def _seq_field_ok(b):
    """RP66 V1 2.3.2: storage unit sequence number = positive integer, 4 ASCII chars, right-justified."""
    s = b[:4].decode("ascii")
    return re.fullmatch(r" *[0-9]+", s) is not None and int(s) >= 1


def _dlisio_complains(path):
    import dlisio
    with warnings.catch_warnings(record=True) as w:
        warnings.simplefilter("always")
        with dlisio.dlis.load(path) as (f, *_):
            label = f.storage_label()
    return label["sequence"] == -1 and any("inconsistent with specification" in str(x.message) for x in w)


def finding_1():
    """Integer sequence numbers 0 and negative ones are accepted and written into the label."""
    seen = []
    for v in (0, -1, -999):
        path, b = _write(DLISFile(sul_sequence_number=v), f"f1_{v}.dlis")
        seen.append((not _seq_field_ok(b)) and _dlisio_complains(path))
    return all(seen)


def finding_2():
    """Non-integer sequence numbers are written as their Python str(): b'True', b'None', b' 1.5', b'  AB', b'    '."""
    expected = {True: b"True", None: b"None", 1.5: b" 1.5", "AB": b"  AB", "": b"    "}
    seen = []
    for v, field in expected.items():
        path, b = _write(DLISFile(sul_sequence_number=v), "f2.dlis")
        seen.append(b[:4] == field and not _seq_field_ok(b) and _dlisio_complains(path))
    return all(seen)


def finding_3():
    """Label settings given to DLISFile next to a storage_unit_label object are silently dropped (debatable)."""
    df = DLISFile(storage_unit_label=StorageUnitLabel("LBL"),
                  set_identifier="MINE", sul_sequence_number=7, max_record_length=100)
    path, b = _write(df, "f3.dlis")
    label = b[:80].decode("ascii")
    # walk the visible records
    pos, longest = 80, 0
    while pos < len(b):
        vl = int.from_bytes(b[pos:pos + 2], "big")
        longest = max(longest, vl)
        pos += vl
    return (label[:4] == "   1" and label[15:20] == " 8192" and label[20:].rstrip() == "LBL"  # not 7 / 100 / MINE
            and longest > 100)


FINDINGS = [
    (finding_1, "sul_sequence_number 0 / -1 / -999 is accepted and the label gets '   0' / '  -1' / '-999' "
                "(not a positive sequence number; dlisio: 'storage unit label inconsistent with specification')"),
    (finding_2, "sul_sequence_number True / None / 1.5 / 'AB' / '' is accepted and the label gets "
                "b'True' / b'None' / b' 1.5' / b'  AB' / four blanks instead of a number"),
    (finding_3, "DLISFile(storage_unit_label=..., max_record_length=100, set_identifier=..., sul_sequence_number=7) "
                "silently ignores the three settings: label says 8192 and visible records exceed 100 bytes"),
]

if __name__ == "__main__":
    for i, (func, text) in enumerate(FINDINGS, start=1):
        try:
            res = func()
        except Exception as exc:  # noqa
            res = False
            text += f" [raised {type(exc).__name__}: {exc}]"
        print(f"FINDING {i}: {text} -> {'VIOLATED' if res else 'not reproduced'}")
