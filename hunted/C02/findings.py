"""Reproductions of violations of property C02 (segmentation is lossless, ordered and correctly bracketed).

Run as:  cd /tmp/hunt/C02 && PYTHONPATH=/tmp/hunt/C02/src /venv/bin/python findings.py
"""

import logging
import os
import sys
import tempfile

import numpy as np

logging.disable(logging.CRITICAL)

from dliswriter import DLISFile  # noqa: E402
from dliswriter.logical_record.core.logical_record.logical_record_bytes import LogicalRecordBytes  # noqa: E402

TMP = tempfile.mkdtemp(prefix='c02_')


# ---------------------------------------------------------------------------------------------------------------------
# independent judge: a plain parser of the output bytes (SUL, visible records, logical record segments)
# ---------------------------------------------------------------------------------------------------------------------
def parse_file(path):
    """Return (records, problems); records = [(is_eflr, lr_type, body)], reassembled from the segments in the file."""

    b = open(path, 'rb').read()
    assert len(b) >= 80, "no storage unit label"
    max_len = int(b[15:20])
    pos, recs, cur, problems = 80, [], None, []
    while pos < len(b):
        vl = int.from_bytes(b[pos:pos + 2], 'big')
        if b[pos + 2:pos + 4] != b'\xff\x01' or vl > max_len or vl < 20 or vl % 2 or pos + vl > len(b):
            problems.append(('bad visible record', pos, vl))
            break
        end, p = pos + vl, pos + 4
        while p < end:
            sl, a, t = int.from_bytes(b[p:p + 2], 'big'), b[p + 2], b[p + 3]
            if sl < 16 or sl % 2 or p + sl > end:
                problems.append(('bad segment length', p, sl))
                return recs, problems
            payload = b[p + 4:p + sl]
            if a & 1:  # pad bytes present; the last one holds their count
                n = payload[-1]
                if not 1 <= n <= len(payload):
                    problems.append(('bad pad count', p, n))
                else:
                    payload = payload[:-n]
            is_eflr, pred, succ = bool(a & 0x80), bool(a & 0x40), bool(a & 0x20)
            if not pred:
                if cur is not None:
                    problems.append(('record started while another one is open', p))
                cur = [is_eflr, t, b'']
            elif cur is None:
                problems.append(('continuation segment without a first segment', p))
                cur = [is_eflr, t, b'']
            elif (cur[0], cur[1]) != (is_eflr, t):
                problems.append(('EFLR flag / type differs between segments', p))
            cur[2] += payload
            if not succ:
                recs.append(tuple(cur))
                cur = None
            p += sl
        pos = end
    if cur is not None:
        problems.append(('last record not terminated',))
    return recs, problems


def given_records(df):
    """The sequence of logical records DLISFile hands to its writer: (is_eflr, type, body) of each, in order."""

    out = []
    for lr in df.generate_logical_records(chunk_size=None):
        lrb = lr.represent_as_bytes()
        out.append((bool(lr.is_eflr), int(lr.logical_record_type), bytes(lrb.bts)))
    return out


def silent_write(df, fn, **kwargs):
    """df.write with the progress bar output (stderr) silenced. Returns the exception raised by write, or None."""

    sys.stderr.flush()
    saved_fd = os.dup(2)
    devnull = os.open(os.devnull, os.O_WRONLY)
    os.dup2(devnull, 2)
    try:
        df.write(fn, **kwargs)
    except Exception as exc:
        return exc
    finally:
        sys.stderr.flush()
        os.dup2(saved_fd, 2)
        os.close(saved_fd)
        os.close(devnull)
    return None


def make_file(rows_per_logical_file, **kwargs):
    """A DLISFile with len(rows_per_logical_file) minimal logical files: one origin, one channel, one frame each."""

    df = DLISFile(**kwargs)
    for i, n_rows in enumerate(rows_per_logical_file):
        lf = df.add_logical_file()
        lf.add_origin(f"ORIGIN-{i}", set_name=f"LF{i}")
        ch = lf.add_channel(f"CH-{i}", data=np.arange(float(n_rows)), set_name=f"LF{i}")
        lf.add_frame(f"FRAME-{i}", channels=(ch,), set_name=f"LF{i}")
    return df


# ---------------------------------------------------------------------------------------------------------------------
# findings
# ---------------------------------------------------------------------------------------------------------------------
def finding_1():
    """Perfectly valid multi-logical-file input: the write stops in the middle of the record sequence.

    DLISFile.generate_logical_records declares len() = (number of EFLR *items*) + (number of IFLRs), but it yields
    (number of logical files) + (number of EFLR *sets*) + (number of IFLRs) records. With k logical files holding one
    item per set, k more records are yielded than declared; progressbar (max_value=len(...)) raises ValueError when it
    is updated with a value above max_value, the loop in DLISWriter.write_logical_records is aborted, the output buffer
    is never flushed. The file left on disk holds the SUL only (default/large output chunk) or a well-formed *prefix*
    of the record sequence (small output chunk): records lost.
    """

    observed = False
    # three configurations; in each of them at least one of the values at which progressbar re-checks (1, 3, 7, 15,
    # 31, ... for a fast loop; every value for a slow loop) falls above the declared length
    for rows in ([4, 4], [1, 1, 3], [1] * 7):
        df = make_file(rows)
        given = given_records(df)
        assert len(given) == 4 * len(rows) + sum(rows)   # FH + origin set + channel set + frame set + rows, per file

        # (a) large output chunk
        fn = os.path.join(TMP, 'f1a.dlis')
        exc = silent_write(df, fn, output_chunk_size=2 ** 20)
        recs, problems = parse_file(fn)
        if exc is not None and recs != given:
            observed = True
            if '-v' in sys.argv:
                print(f"  rows={rows}: write raised {exc!r}; file size {os.path.getsize(fn)}; "
                      f"{len(recs)} records in file vs {len(given)} given")

        # (b) smallest output chunk: the file on disk is a well-formed DLIS with the tail of the records missing
        df = make_file(rows, max_record_length=256)
        given = given_records(df)
        fn = os.path.join(TMP, 'f1b.dlis')
        exc = silent_write(df, fn, output_chunk_size=256)
        recs, problems = parse_file(fn)
        if exc is not None and not problems and recs == given[:len(recs)] and len(recs) < len(given):
            observed = True
            if '-v' in sys.argv:
                print(f"  rows={rows}, chunk=256: write raised {exc!r}; well-formed file with "
                      f"{len(recs)} of {len(given)} records")
    return observed


def finding_2():
    """A logical record with an empty body is given to the writer and silently disappears (record count differs).

    LogicalRecordBytes.make_segments yields *no* segment at all for a body of length 0 (`while remaining_size > 0`),
    although bodies of 1..11 bytes are padded up to the minimum segment. Through the public API this happens after a
    rejected add_xxx call: the call leaves an empty EFLR set registered in the logical file, DLISFile.generator yields
    it as one of the logical records, EFLRSet._make_body_bytes returns b'' for it.
    """

    # (a) the segmentation function itself, all accepted capacities
    direct = all(list(LogicalRecordBytes(b'', b'\x05', is_eflr).make_segments(cap)) == []
                 for cap in range(12, 16384 - 8 + 1, 2) for is_eflr in (False, True))
    one_byte = list(LogicalRecordBytes(b'\x07', b'\x05', True).make_segments(12))
    assert len(one_byte) == 1 and one_byte[0][1] == 16     # a 1-byte body does get its (padded) segment

    # (b) through DLISFile: 10 records handed to the writer, 9 in the file
    df = make_file([5])
    lf = df.logical_files[0]
    try:
        lf.add_zone("ZONE-1", domain="NO-SUCH-DOMAIN")
    except ValueError:
        pass
    else:
        return False
    given = given_records(df)
    fn = os.path.join(TMP, 'f2.dlis')
    exc = silent_write(df, fn, output_chunk_size=2 ** 20)
    recs, problems = parse_file(fn)
    e2e = (exc is None and not problems and len(given) == 10 and len(recs) == 9
           and given[4] == (True, 5, b'') and recs == given[:4] + given[5:])
    if '-v' in sys.argv:
        print(f"  direct: no segments for empty body: {direct}; e2e: given {len(given)} records "
              f"(body lengths {[len(g[2]) for g in given]}), file holds {len(recs)}")
    return direct and e2e


def finding_3():
    """Single logical file, one rejected call, three rows of data: combination of 1 and 2 - the write is aborted.

    The empty set left by the rejected call is yielded (one more record than declared), the file header is one more:
    declared length 6, 8 records yielded, progressbar raises at value 7; the file holds the SUL only.
    """

    df = make_file([3])
    try:
        df.logical_files[0].add_zone("ZONE-1", domain="NO-SUCH-DOMAIN")
    except ValueError:
        pass
    given = given_records(df)
    fn = os.path.join(TMP, 'f3.dlis')
    exc = silent_write(df, fn, output_chunk_size=2 ** 20)
    recs, problems = parse_file(fn)
    if '-v' in sys.argv:
        print(f"  write raised {exc!r}; {len(recs)} records in file vs {len(given)} given")
    return isinstance(exc, ValueError) and len(recs) < len([g for g in given if g[2]])


FINDINGS = [
    (finding_1, "write of 2+ minimal logical files (e.g. 2 files x 4 rows) is aborted by progressbar's ValueError "
                "(declared record count < yielded count); file keeps only the SUL or a prefix of the records"),
    (finding_2, "a logical record with an empty body (empty EFLR set left by a rejected add_zone call) is handed to "
                "the writer but make_segments emits no segment: 10 records given, 9 in the file"),
    (finding_3, "single logical file + one rejected add_zone + 3 data rows: write aborted (ValueError), "
                "all records missing from the file"),
]


if __name__ == '__main__':
    for i, (func, description) in enumerate(FINDINGS, start=1):
        try:
            result = func()
        except Exception as e:  # noqa
            result = False
            description += f" [reproduction raised {e!r}]"
        print(f"FINDING {i}: {description} -> {'VIOLATED' if result else 'not reproduced'}")
