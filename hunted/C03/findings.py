"""C03 findings: reproductions. Run as
    cd /tmp/hunt/C03 && PYTHONPATH=/tmp/hunt/C03/src /venv/bin/python findings.py
Judged with an own minimal RP66 parser (visible records -> segments -> logical records) and with dlisio.

(The write-up which was meant for FINDINGS.md is kept here, because the harness refused creating a .md file.)

Findings 1-3 share one root cause: copy numbers are unique only inside one EFLRSet object and are computed once
(EFLRItem._compute_copy_number, src/dliswriter/logical_record/core/eflr/eflr_item.py l.118-123, called in __init__
l.69), while an RP66 reference is (origin, copy number, identifier) per object type and logical file - the set
name is not part of it.

1. Same-named frames in two sets of one logical file.
     lf.add_frame('FR', channels=[ca], set_name='S1'); lf.add_frame('FR', channels=[cb], set_name='S2')
   a = f8 [1,2,3], b = i2 [10,11,12,13]. Accepted, written without error. Both Frame objects are (0,0,'FR'); the
   file holds 7 FDATA records which all reference (0,0,'FR'):
       (0,0,'FR') 1 3ff0000000000000 | 2 4000000000000000 | 3 4008000000000000 | 1 000a | 2 000b | 3 000c | 4 000d
   i.e. numbered 1,2,3,1,2,3,4, two different row layouts under one reference. dlisio: both frames have fingerprint
   T.FRAME-I.FR-O.0-C.0; curves() of the first fails ("corrupted record: fmtstr would read past end"), curves() of
   the second returns 13 garbage rows (the f8 rows decoded as i2).
   Code: add_frame (file.py l.1114-1117) makes one FrameSet per set_name; FrameData._make_body_bytes
   (iflr_types/frame_data.py l.46) writes frame.obname.

2. Same-named channels in two sets of one logical file.
     ca = lf.add_channel('A', data=a, set_name='S1'); cb = lf.add_channel('A', data=b, set_name='S2')
     lf.add_frame('F1', channels=[ca]); lf.add_frame('F2', channels=[cb])
   Both Channel objects are (0,0,'A'), one FDOUBL (7), one SNORM (13); the CHANNELS attribute of F1 and of F2 is
   the same OBNAME, so the slot layout of either frame is undetermined. dlisio: frame.channels -> [None],
   frame.curves() -> "Channel obname(id='A', origin=0, copynum=0) not found" for both frames.
   Code: add_channel (file.py l.743-747); _get_unique_dataset_name notices the clash (data set 'A__1') but the
   object name is not made unique.

3. Renaming after creation: f2.name = 'F1' (public attribute). EFLRItem.__setattr__ (eflr_item.py l.151-166) drops
   the cached obname but the copy number stays 0 -> same file as in 1 (7 records under (0,0,'F1'), 1,2,3,1,2,3,4).
   With channels (cb.name = 'A') the file is undecodable as in 2.

4. (loud failure, not a silently wrong file) Two logical files with one origin / channel / frame each and rows
   which are slow to produce: write() raises "ValueError: Value 18 is too large. Should be between 0 and 17" from
   progressbar, the file ends inside a logical record, the last FDATA records are missing.
   Cause: DLISFile.generate_logical_records (file.py l.168-177) announces #EFLR items + rows, but
   DLISFile.generator yields one record per EFLR *set* + one file header per logical file (4N + rows against
   3N + rows). progressbar (writer.py l.241) raises once it looks at a value > max_value; its update gate only
   looks when iterations are slow, which is why small / fast files pass.
"""
import logging
import os
import struct
import tempfile
import warnings

import numpy as np

logging.disable(logging.CRITICAL)
warnings.simplefilter('ignore')

from dliswriter import DLISFile  # noqa: E402

TMP = tempfile.mkdtemp(prefix='c03_findings_', dir=os.path.dirname(os.path.abspath(__file__)))


def _tmp(name):
    return os.path.join(TMP, name)


# ---------------------------------------------------------------- independent parsing of the written bytes
def _uvari(b, p):
    x = b[p]
    if x < 0x80:
        return x, p + 1
    if x < 0xC0:
        return struct.unpack('>H', b[p:p + 2])[0] & 0x3FFF, p + 2
    return struct.unpack('>I', b[p:p + 4])[0] & 0x3FFFFFFF, p + 4


def _obname(b, p):
    o, p = _uvari(b, p)
    c = b[p]
    n = b[p + 1]
    return (o, c, b[p + 2:p + 2 + n].decode('ascii')), p + 2 + n


def _logical_records(path):
    """[(is_eflr, type, body)] ; raises AssertionError if the framing is broken / a record is incomplete."""
    b = open(path, 'rb').read()
    p, cur, out = 80, None, []
    while p < len(b):
        vlen, ff, ver = struct.unpack('>HBB', b[p:p + 4])
        assert ff == 0xFF and ver == 1 and p + vlen <= len(b), 'broken visible record'
        q, vend = p + 4, p + vlen
        while q < vend:
            slen, attr, typ = struct.unpack('>HBB', b[q:q + 4])
            body = b[q + 4:q + slen]
            if attr & 0x01:
                body = body[:-body[-1]]
            if not attr & 0x40:
                assert cur is None
                cur = [bool(attr & 0x80), typ, b'']
            cur[2] += body
            if not attr & 0x20:
                out.append(tuple(cur))
                cur = None
            q += slen
        p = vend
    assert cur is None, 'file ends inside a logical record'
    return out


def _frame_data_records(path):
    """[(frame obname, frame number, slot bytes)] in file order"""
    res = []
    for eflr, typ, body in _logical_records(path):
        if not eflr and typ == 0:
            ob, p = _obname(body, 0)
            n, p = _uvari(body, p)
            res.append((ob, n, body[p:]))
    return res


# ---------------------------------------------------------------- findings
def finding_1():
    """Two frames of one logical file, same name, different `set_name`: same OBNAME, their FDATA are mixed up."""

    a = np.array([1., 2., 3.], dtype='f8')
    b = np.array([10, 11, 12, 13], dtype='i2')
    df = DLISFile()
    lf = df.add_logical_file()
    lf.add_origin('O')
    ca = lf.add_channel('A', data=a)
    cb = lf.add_channel('B', data=b)
    lf.add_frame('FR', channels=[ca], set_name='S1')
    lf.add_frame('FR', channels=[cb], set_name='S2')
    p = _tmp('f1.dlis')
    df.write(p, output_chunk_size=2**20)

    recs = _frame_data_records(p)
    refs = {r[0] for r in recs}
    numbers = [r[1] for r in recs]
    # 7 records, all referencing the one and the same object name; numbered 1,2,3,1,2,3,4
    same_ref = len(recs) == 7 and len(refs) == 1 and numbers == [1, 2, 3, 1, 2, 3, 4]

    import dlisio
    with dlisio.dlis.load(p) as (f,):
        n_frames_seen = len({fr.fingerprint for fr in f.frames})
    return same_ref and n_frames_seen == 1


def finding_2():
    """Two channels of one logical file, same name, different `set_name`: same OBNAME; the frames' slots
    cannot be decoded (the frame's CHANNELS reference matches an f8 and an i2 channel)."""

    a = np.array([1., 2., 3.], dtype='f8')
    b = np.array([10, 11, 12, 13], dtype='i2')
    df = DLISFile()
    lf = df.add_logical_file()
    lf.add_origin('O')
    ca = lf.add_channel('A', data=a, set_name='S1')
    cb = lf.add_channel('A', data=b, set_name='S2')
    lf.add_frame('F1', channels=[ca])
    lf.add_frame('F2', channels=[cb])
    p = _tmp('f2.dlis')
    df.write(p, output_chunk_size=2**20)

    import dlisio
    with dlisio.dlis.load(p) as (f,):
        chans = [(c.origin, c.copynumber, c.name, c.reprc) for c in f.channels]
        ambiguous = (len(chans) == 2 and chans[0][:3] == chans[1][:3] and chans[0][3] != chans[1][3])
        undecodable = 0
        for fr in f.frames:
            try:
                fr.curves()
            except Exception:
                undecodable += 1
    return ambiguous and undecodable == 2


def finding_3():
    """Renaming a frame (public attribute `name`) to the name of another frame keeps both copy numbers 0."""

    a = np.array([1., 2., 3.], dtype='f8')
    b = np.array([10, 11, 12, 13], dtype='i2')
    df = DLISFile()
    lf = df.add_logical_file()
    lf.add_origin('O')
    ca = lf.add_channel('A', data=a)
    cb = lf.add_channel('B', data=b)
    lf.add_frame('F1', channels=[ca])
    f2 = lf.add_frame('F2', channels=[cb])
    f2.name = 'F1'
    p = _tmp('f3.dlis')
    df.write(p, output_chunk_size=2**20)

    recs = _frame_data_records(p)
    return len(recs) == 7 and len({r[0] for r in recs}) == 1 and [r[1] for r in recs] == [1, 2, 3, 1, 2, 3, 4]


def finding_4():
    """Two logical files with one origin/channel/frame each: write() dies with ValueError from the progress bar
    (the announced number of records is too small) once the records are slow enough to produce; the file is
    left truncated in the middle of a frame-data record."""

    df = DLISFile(max_record_length=20)  # (many small segments per row = slow rows, without needing much memory)
    for i, rows in enumerate((1, 10)):
        lf = df.add_logical_file(fh_id=f'LF{i}', fh_sequence_number=i + 1)
        lf.add_origin(f'O{i}', set_name=f'O{i}')
        ch = lf.add_channel('A', data=np.zeros((rows, 30000), dtype='f8'), set_name=f'S{i}')
        lf.add_frame('F', channels=[ch], set_name=f'S{i}')
    p = _tmp('f4.dlis')
    try:
        df.write(p, output_chunk_size=2**20)
    except ValueError as exc:
        if 'too large' not in str(exc):
            raise
        try:
            n = len(_frame_data_records(p))
        except AssertionError:
            return True     # file ends inside a logical record
        return n != 11
    return False


FINDINGS = [
    (finding_1, "same-named frames in two sets of one logical file share one OBNAME; their frame-data records "
                "are indistinguishable (7 records for 'FR' numbered 1,2,3,1,2,3,4)"),
    (finding_2, "same-named channels in two sets of one logical file share one OBNAME; frame slots cannot be "
                "decoded (reference matches an FDOUBL and an SNORM channel)"),
    (finding_3, "renaming a frame to an existing frame name keeps copy number 0 for both; frame-data of two "
                "frames carries one and the same reference"),
    (finding_4, "valid 2-logical-file input: write() raises ValueError (progress bar count too small) on slow "
                "rows and leaves a truncated file without the last frame-data records"),
]

if __name__ == '__main__':
    for i, (fn, descr) in enumerate(FINDINGS, 1):
        try:
            ok = fn()
        except Exception as e:  # noqa
            ok = False
            descr += f' [repro raised {type(e).__name__}: {e}]'
        print(f"FINDING {i}: {descr} -> {'VIOLATED' if ok else 'not reproduced'}")
