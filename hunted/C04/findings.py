"""C04 hunt: reproductions.  Run as:

    cd /tmp/hunt/C04 && PYTHONPATH=/tmp/hunt/C04/src /venv/bin/python findings.py

Each finding writes a small DLIS file through the public API and judges the bytes of the file with the independent,
strict RP66 v1 EFLR parser below (no dliswriter code is used for judging).
"""
import io
import logging
import os
import struct
import sys
import tempfile
import contextlib

import numpy as np

logging.disable(logging.CRITICAL)

from dliswriter import DLISFile, Attribute  # noqa: E402


# ------------------------------------------------------------------------------------------------------------------
# independent strict parser
# ------------------------------------------------------------------------------------------------------------------
FIXED = {1: 2, 2: 4, 3: 8, 4: 12, 5: 4, 6: 4, 7: 8, 8: 16, 9: 24, 10: 8, 11: 16, 12: 1, 13: 2, 14: 4, 15: 1, 16: 2,
         17: 4, 21: 8, 26: 1}


class Bad(Exception):
    """The bytes do not follow the RP66 v1 component grammar."""


def read_records(raw):
    """Undo visible-record framing and segmentation: list of (is_eflr, lr_type, body)."""
    pos, recs, cur = 80, [], None
    while pos < len(raw):
        vrl, ff, ver = struct.unpack('>HBB', raw[pos:pos + 4])
        if ff != 0xff or ver != 1 or vrl < 20 or pos + vrl > len(raw):
            raise Bad(f'bad visible record at {pos}')
        end, p = pos + vrl, pos + 4
        while p < end:
            sl, attrs, tp = struct.unpack('>HBB', raw[p:p + 4])
            if sl < 16 or sl % 2 or p + sl > end:
                raise Bad(f'bad segment length {sl} at {p}')
            body = raw[p + 4:p + sl]
            if attrs & 0x1e:
                raise Bad('unexpected encryption/checksum/trailing length')
            if attrs & 0x01:
                n = body[-1]
                if not 1 <= n <= len(body):
                    raise Bad('bad pad count')
                body = body[:-n]
            if attrs & 0x40:
                if cur is None or cur[0] != bool(attrs & 0x80) or cur[1] != tp:
                    raise Bad('segment chain broken')
                cur[2] += body
            else:
                if cur is not None:
                    raise Bad('record not terminated')
                cur = [bool(attrs & 0x80), tp, bytearray(body)]
            if not attrs & 0x20:
                recs.append((cur[0], cur[1], bytes(cur[2])))
                cur = None
            p += sl
        pos = end
    if cur is not None:
        raise Bad('record not terminated')
    return recs


class Reader:
    def __init__(self, b):
        self.b, self.p = b, 0

    def take(self, n):
        if self.p + n > len(self.b):
            raise Bad(f'ran out of bytes at offset {self.p}')
        v = self.b[self.p:self.p + n]
        self.p += n
        return v

    def ushort(self):
        return self.take(1)[0]

    def uvari(self):
        a = self.ushort()
        if a < 0x80:
            return a
        if a < 0xc0:
            return ((a & 0x3f) << 8) | self.ushort()
        x = self.take(3)
        return ((a & 0x3f) << 24) | (x[0] << 16) | (x[1] << 8) | x[2]

    def ident(self):
        return self.take(self.ushort()).decode('ascii')

    def obname(self):
        return self.uvari(), self.ushort(), self.ident()

    def value(self, rc):
        if rc in FIXED:
            return self.take(FIXED[rc])
        if rc in (18, 22):
            return self.uvari()
        if rc in (19, 27):
            return self.ident()
        if rc == 20:
            return self.take(self.uvari()).decode('ascii')
        if rc == 23:
            return self.obname()
        if rc == 24:
            return self.ident(), self.obname()
        if rc == 25:
            return self.ident(), self.obname(), self.ident()
        raise Bad(f'undefined representation code {rc}')


def parse_eflr(body):
    """Strictly decode one EFLR body: set, template, objects.  Raise Bad on any deviation from the grammar."""
    r = Reader(body)
    d = r.ushort()
    if d >> 5 not in (5, 6, 7) or not d & 0x10 or d & 0x07:
        raise Bad(f'first component is not a set component with a type: {d:08b}')
    stype = r.ident()
    sname = r.ident() if d & 0x08 else None
    template = []
    while r.p < len(body) and body[r.p] >> 5 != 3:
        d = r.ushort()
        if d >> 5 not in (1, 2):
            raise Bad(f'template: not an attribute component: {d:08b}')
        if not d & 0x10:
            raise Bad('template: attribute without a label')
        label = r.ident()
        count = r.uvari() if d & 0x08 else 1
        rc = r.ushort() if d & 0x04 else 19
        units = r.ident() if d & 0x02 else ''
        if not 1 <= rc <= 27:
            raise Bad(f'template: undefined representation code {rc}')
        vals = [r.value(rc) for _ in range(count)] if d & 0x01 else None
        if not label:
            raise Bad('template: empty label')
        if label in [t['label'] for t in template]:
            raise Bad(f'template: duplicate label {label}')
        template.append(dict(label=label, count=count, rc=rc, units=units, value=vals))
    if not template:
        raise Bad('empty template')
    objects = []
    while r.p < len(body):
        d = r.ushort()
        if d >> 5 != 3 or not d & 0x10 or d & 0x0f:
            raise Bad(f'expected an object component at offset {r.p - 1}, got {d:08b}')
        name = r.obname()
        attrs = []
        for t in template:
            if r.p >= len(body) or body[r.p] >> 5 == 3:
                break   # trailing attributes left out
            d = r.ushort()
            if d >> 5 == 0:
                if d & 0x1f:
                    raise Bad(f'object {name}: absent attribute carrying characteristics: {d:08b} '
                              f'(or stray value bytes read as a component) at offset {r.p - 1}')
                attrs.append(None)
                continue
            if d >> 5 != 1 or d & 0x10:
                raise Bad(f'object {name}: not an (unlabelled) attribute component: {d:08b} at offset {r.p - 1}')
            count = r.uvari() if d & 0x08 else t['count']
            rc = r.ushort() if d & 0x04 else t['rc']
            units = r.ident() if d & 0x02 else t['units']
            if not 1 <= rc <= 27:
                raise Bad(f'object {name}: undefined representation code {rc}')
            if d & 0x01:
                if count == 0:
                    raise Bad(f'object {name}: value announced with count 0')
                vals = [r.value(rc) for _ in range(count)]
            else:
                vals = None
            attrs.append(dict(label=t['label'], count=count, rc=rc, units=units, value=vals))
        else:
            if r.p < len(body) and body[r.p] >> 5 != 3:
                raise Bad(f'object {name}: more attribute components than template attributes '
                          f'({len(template)}); next descriptor {body[r.p]:08b}')
        objects.append((name, attrs))
    if r.p != len(body):
        raise Bad('bytes left over')
    return dict(type=stype, name=sname, template=template, objects=objects)


def eflrs_of(path):
    with open(path, 'rb') as f:
        raw = f.read()
    return [(tp, body) for is_eflr, tp, body in read_records(raw) if is_eflr]


# ------------------------------------------------------------------------------------------------------------------
# helpers
# ------------------------------------------------------------------------------------------------------------------
def new_file():
    """A minimal complete file: origin, one channel, one frame."""
    df = DLISFile()
    lf = df.add_logical_file()
    lf.add_origin('ORIGIN', file_set_number=1)
    ch = lf.add_channel('DEPTH', data=np.arange(5.0))
    lf.add_frame('MAIN', channels=(ch,))
    return df, lf


def write(df):
    d = tempfile.mkdtemp(prefix='c04_')
    fn = os.path.join(d, 'out.dlis')
    # the progress bar of the writer goes to the stderr captured at import time: silence file descriptor 2 for the call
    sys.stderr.flush()
    saved = os.dup(2)
    devnull = os.open(os.devnull, os.O_WRONLY)
    try:
        os.dup2(devnull, 2)
        df.write(fn, output_chunk_size=2 ** 20)
    finally:
        sys.stderr.flush()
        os.dup2(saved, 2)
        os.close(saved)
        os.close(devnull)
    return fn


def violation(fn, set_type):
    """Return the grammar error of the EFLR of the given set type in the file (None if it decodes cleanly)."""
    err = None
    for tp, body in eflrs_of(fn):
        try:
            e = parse_eflr(body)
        except Bad as exc:
            # which set?  the set type is right after the set descriptor
            n = body[1]
            if body[2:2 + n].decode('ascii') == set_type:
                err = str(exc)
            else:
                raise
    return err


# ------------------------------------------------------------------------------------------------------------------
# findings
# ------------------------------------------------------------------------------------------------------------------
def finding_1(verbose=False):
    """A converter (documented as settable) which returns a list for a single-valued attribute:
    the list check added to Attribute.convert_value looks at the converter's input only.
    The attribute is written with the default count 1 followed by 2 values."""

    df, lf = new_file()
    zone = lf.add_zone('Z1')
    zone.description.converter = lambda s: s.split()    # 'converter' is one of the three settable parts
    zone.description.value = 'UPPER PART'                # accepted; stored as ['UPPER', 'PART']
    fn = write(df)                                       # no error
    err = violation(fn, 'ZONE')
    if verbose:
        print('   ', err)
    return err is not None


def finding_2(verbose=False):
    """An Attribute instance assigned to one (not the first) object of a set becomes an attribute component
    of that object only: the object carries more attribute components than the template has attributes."""

    df, lf = new_file()
    lf.add_axis('AX1', spacing=1)
    ax2 = lf.add_axis('AX2', spacing=2)
    ax2.remark = Attribute('remark', value='CHECKED')    # accepted by EFLRItem.__setattr__
    fn = write(df)                                       # no error
    err = violation(fn, 'AXIS')
    if verbose:
        print('   ', err)
    return err is not None


def finding_3(verbose=False):
    """Same mechanism, other symptom: keeping a reference to one of the object's own Attribute instances
    under a second name on the first object of a set writes the label twice into the template."""

    df, lf = new_file()
    ax1 = lf.add_axis('AX1', spacing=1)
    ax1.step = ax1.spacing                               # 'shortcut' kept on the object; accepted
    fn = write(df)                                       # no error
    err = violation(fn, 'AXIS')
    if verbose:
        print('   ', err)
    return err is not None


FINDINGS = [
    (finding_1, "single-valued attribute whose (user-set) converter returns a list is written as count 1 + 2 values"),
    (finding_2, "Attribute instance assigned to a later object of a set -> object has more attribute components "
                "than the template"),
    (finding_3, "Attribute instance kept under a second name on the first object -> duplicate label in the template"),
]


if __name__ == '__main__':
    import dliswriter
    assert dliswriter.__file__.startswith('/tmp/hunt/C04/src'), dliswriter.__file__
    verbose = '-v' in sys.argv
    for i, (func, description) in enumerate(FINDINGS, 1):
        try:
            observed = func(verbose)
        except Exception as exc:  # the library refused the input (or something else went wrong): not reproduced
            if verbose:
                print('   ', type(exc).__name__, exc)
            observed = False
        print(f"FINDING {i}: {description} -> {'VIOLATED' if observed else 'not reproduced'}")
