"""C05 (metadata fidelity) - reproductions of violations found in dliswriter.

Run as:  cd /tmp/hunt/C05 && PYTHONPATH=/tmp/hunt/C05/src /venv/bin/python findings.py

Every finding builds a tiny file through the public API, writes it (output_chunk_size=2**20) and judges the result
with dlisio and/or the raw bytes. Each function returns True if the violation is observed.
"""

import contextlib
import io
import logging
import os
import sys
import tempfile
from datetime import datetime, timezone
from enum import Enum

import numpy as np

logging.disable(logging.CRITICAL)

from dliswriter import DLISFile, AttrSetup, enums  # noqa: E402
import dlisio  # noqa: E402

dlisio.common.set_encodings(['latin1'])
_TMP = tempfile.mkdtemp(prefix='c05_')
_N = [0]


@contextlib.contextmanager
def _quiet():
    """Silence the progress bar of DLISFile.write (it holds on to the original stderr): redirect fd 2."""

    sys.stderr.flush()
    saved = os.dup(2)
    devnull = os.open(os.devnull, os.O_WRONLY)
    try:
        os.dup2(devnull, 2)
        yield
    finally:
        sys.stderr.flush()
        os.dup2(saved, 2)
        os.close(saved)
        os.close(devnull)


def _base(index_type=None):
    """Smallest writable file: one logical file, origin, one channel, one frame."""

    df = DLISFile()
    lf = df.add_logical_file()
    origin = lf.add_origin('ORIGIN', file_set_number=1)
    ch = lf.add_channel('DEPTH', data=np.arange(5, dtype=np.float64), units='m')
    fr = lf.add_frame('MAIN', channels=(ch,), index_type=index_type)
    return df, lf, origin, ch, fr


def _write(df):
    _N[0] += 1
    fn = os.path.join(_TMP, f'f{_N[0]}.dlis')
    with _quiet():
        df.write(fn, output_chunk_size=2 ** 20)
    return fn


@contextlib.contextmanager
def _load(fn):
    with contextlib.redirect_stderr(io.StringIO()):
        files = dlisio.dlis.load(fn)
    try:
        yield files
    finally:
        files.close()


# ----------------------------------------------------------------------------------------------------------------------

def finding_1():
    """Two aware datetimes that differ only in `fold` (1 h apart in UTC) are written as the same DTIME (struct memo)."""

    from zoneinfo import ZoneInfo
    tz = ZoneInfo('Europe/Berlin')
    first = datetime(2021, 10, 31, 2, 30, tzinfo=tz, fold=0)    # 00:30 UTC (CEST)
    second = datetime(2021, 10, 31, 2, 30, tzinfo=tz, fold=1)   # 01:30 UTC (CET)
    assert first.astimezone(timezone.utc) != second.astimezone(timezone.utc)

    df, lf, *_ = _base()
    lf.add_zone('Z', domain='TIME', minimum=first, maximum=second)
    with _load(_write(df)) as (f,):
        z = f.object('ZONE', 'Z')
        got_min = z.minimum.replace(tzinfo=timezone.utc)
        got_max = z.maximum.replace(tzinfo=timezone.utc)
    return got_min != first or got_max != second


def finding_2():
    """Text values of Parameter.values / Axis.coordinates that look like numbers are turned into numbers."""

    df, lf, *_ = _base()
    lf.add_parameter('P', values=['007'])
    lf.add_axis('A', coordinates=['1_0', ' 12 '])
    with _load(_write(df)) as (f,):
        p = list(f.object('PARAMETER', 'P').values)
        a = list(f.object('AXIS', 'A').coordinates)
    return p != ['007'] or a != ['1_0', ' 12 ']


def finding_3():
    """A channel long name assigned as '' (text of length 0) is replaced by the channel name."""

    df, lf, origin, ch, fr = _base()
    ch.long_name.value = ''
    with _load(_write(df)) as (f,):
        got = f.object('CHANNEL', 'DEPTH').long_name
    return got != ''


def finding_4():
    """An integer above 2**53 assigned to a numeric attribute without integer code is silently rounded (FDOUBL)."""

    df, lf, *_ = _base()
    lf.add_equipment('EQ', height=2 ** 53 + 1)
    lf.add_path('PA', time=AttrSetup(-(2 ** 62 + 1), 's'))
    with _load(_write(df)) as (f,):
        h = f.object('EQUIPMENT', 'EQ').height
        t = f.object('PATH', 'PA').time
    return int(h) != 2 ** 53 + 1 or int(t) != -(2 ** 62 + 1)


def finding_5():
    """Units assigned to an attribute which has no value are not present in the file at all."""

    df, lf, *_ = _base()
    eq = lf.add_equipment('EQ', height=AttrSetup(units='m'), weight={'units': enums.Unit.KILOGRAM})
    eq.length.units = 'cm'
    fn = _write(df)
    with _load(fn) as (f,):
        present = list(f.object('EQUIPMENT', 'EQ').attic.keys())
    raw = open(fn, 'rb').read()
    i = raw.find(b'p\x00\x00\x02EQ')
    body = raw[i + 6: i + 6 + 17]   # 17 attributes of EQUIPMENT, each one a single ABSATR byte
    return present == [] and body == b'\x00' * 17


def finding_6():
    """Values/units assigned after a first write() to attributes which that write derived are discarded by the next."""

    df, lf, origin, ch, fr = _base(index_type='BOREHOLE-DEPTH')
    _write(df)                       # derives index_min/index_max/spacing(+units) and dimension/element_limit
    fr.index_min.value = -100        # the user now assigns own values...
    fr.index_max.value = 100
    fr.spacing.units = 'ft'
    ch.element_limit.value = [7]
    with _load(_write(df)) as (f,):  # ... and writes again
        r = f.object('FRAME', 'MAIN')
        got = (r.index_min, r.index_max, r.attic['SPACING'].units, list(f.object('CHANNEL', 'DEPTH').element_limit))
    return got != (-100.0, 100.0, 'ft', [7])


def finding_7():
    """Renaming an object to the name of a sibling gives both the same identity; references cannot be resolved."""

    df, lf, *_ = _base()
    lf.add_zone('ZA', domain='BOREHOLE-DEPTH', minimum=1., maximum=2.)
    zb = lf.add_zone('ZB', domain='BOREHOLE-DEPTH', minimum=3., maximum=4.)
    lf.add_parameter('P', zones=[zb], values=[5])
    zb.name = 'ZA'                   # copy number is not recomputed: two (origin 0, copy 0, 'ZA') zones
    with _load(_write(df)) as (f,):
        prints = [z.fingerprint for z in f.find('ZONE', '.*')]
        ref = f.object('PARAMETER', 'P').zones
    resolved_to_zb = len(ref) == 1 and ref[0] is not None and ref[0].minimum == 3.0 and len(set(prints)) == 2
    return not resolved_to_zb


def finding_8():
    """Equally named objects in two sets of one type get the same copy number; a reference to one is ambiguous."""

    df, lf, *_ = _base()
    lf.add_zone('Z', set_name='S1', domain='TIME', minimum=1., maximum=2.)
    zb = lf.add_zone('Z', set_name='S2', domain='TIME', minimum=3., maximum=4.)
    lf.add_parameter('P', zones=[zb], values=[1])
    with _load(_write(df)) as (f,):
        prints = [z.fingerprint for z in f.find('ZONE', '.*')]
        ref = f.object('PARAMETER', 'P').zones
    resolved_to_zb = len(ref) == 1 and ref[0] is not None and ref[0].minimum == 3.0 and len(set(prints)) == 2
    return not resolved_to_zb


def finding_9():
    """Computation.source is written as OBNAME (no object type) instead of OBJREF; the reference cannot be resolved."""

    df, lf, *_ = _base()
    eq = lf.add_equipment('EQ')
    lf.add_computation('C', source=eq, values=[1])
    with _load(_write(df)) as (f,):
        c = f.object('COMPUTATION', 'C')
        raw_ref = c.attic['SOURCE'].value[0]
        src = c.source
    return isinstance(raw_ref, dlisio.core.obname) and src is None


def finding_10():
    """A str-Enum member assigned as text is written as 'Class.MEMBER' instead of its text."""

    class Well(str, Enum):
        A = 'WELL-A'

    df, lf, origin, *_ = _base()
    origin.well_name.value = Well.A      # TextAttribute (ASCII)
    origin.file_type.value = Well.A      # IdentAttribute (IDENT)
    with _load(_write(df)) as (f,):
        o = f.origins[0]
        got = (o.well_name, o.file_type)
    return got != ('WELL-A', 'WELL-A')


def finding_11():
    """A reference to an object of another logical file / another DLISFile silently binds to a different object."""

    df = DLISFile()
    lf1 = df.add_logical_file(fh_id='LF1')
    lf2 = df.add_logical_file(fh_id='LF2', fh_sequence_number=2)
    for i, lf in enumerate((lf1, lf2)):
        lf.add_origin('O', file_set_number=1, set_name=f'O{i}')
        c = lf.add_channel('D', data=np.arange(3.), set_name=f'C{i}')
        lf.add_frame('F', channels=[c], set_name=f'F{i}')
    z1 = lf1.add_zone('Z', set_name='Z1', domain='TIME', minimum=1., maximum=2.)
    lf2.add_zone('Z', set_name='Z2', domain='TIME', minimum=3., maximum=4.)
    lf2.add_parameter('P', zones=[z1], values=[1], set_name='P2')     # accepted; z1 lives in the other logical file
    with _load(_write(df)) as (f1, f2):
        ref = f2.object('PARAMETER', 'P').zones
    return len(ref) == 1 and ref[0] is not None and ref[0].minimum != 1.0


def finding_12():
    """A nested (2 x 3) value decodes as a 3 x 2 array with other rows (elements written last-index-fastest)."""

    df, lf, *_ = _base()
    z = lf.add_zone('Z', domain='BOREHOLE-DEPTH', minimum=1., maximum=2.)
    value = [[1, 2, 3], [4, 5, 6]]
    lf.add_parameter('P', zones=[z], values=[value])
    with _load(_write(df)) as (f,):
        got = np.asarray(f.object('PARAMETER', 'P').values)[0]
    return got.shape != (2, 3) or got.tolist() != value


def finding_13():
    """origin_reference=0 passed explicitly is ignored (object filed under another origin)."""

    df = DLISFile()
    lf = df.add_logical_file()
    lf.add_origin('O1', file_set_number=1, origin_reference=5)
    lf.add_origin('O0', file_set_number=1, origin_reference=0)
    ch = lf.add_channel('D', data=np.arange(3.), origin_reference=0)
    lf.add_frame('F', channels=[ch])
    with _load(_write(df)) as (f,):
        o0 = [o for o in f.origins if o.name == 'O0'][0]
        c = f.object('CHANNEL', 'D')
        got = (o0.origin, c.origin)
    return got != (0, 0)


def finding_14():
    """A rejected assignment {'value': ok, 'units': bad} raises but has already replaced the value."""

    df, lf, *_ = _base()
    eq = lf.add_equipment('EQ', height=1)
    try:
        eq.set_attributes(height={'value': 2, 'units': 5})
    except TypeError:
        pass
    else:
        return False
    with _load(_write(df)) as (f,):
        got = f.object('EQUIPMENT', 'EQ').height
    return got != 1.0


FINDINGS = [
    (finding_1, "aware datetimes differing only in fold are written as one and the same DTIME (memoised struct)"),
    (finding_2, "numeric-looking text in Parameter.values / Axis.coordinates is converted to numbers"),
    (finding_3, "Channel long_name '' is replaced by the channel name"),
    (finding_4, "integers above 2**53 in NumericAttributes without int code are rounded to a double"),
    (finding_5, "units assigned to an attribute without a value are dropped (attribute absent)"),
    (finding_6, "values/units assigned after a first write to data-derived attributes are discarded by the next write"),
    (finding_7, "renaming an item to a sibling's name duplicates the identity; references to it do not resolve"),
    (finding_8, "same-named items in two sets of one type share origin+copy number; references are ambiguous"),
    (finding_9, "Computation.source is written as OBNAME instead of OBJREF; the referenced object is not identifiable"),
    (finding_10, "str-Enum members assigned as text are written as 'Class.MEMBER'"),
    (finding_11, "a reference to an item of another logical file is accepted and binds to a different object"),
    (finding_12, "nested 2x3 attribute values decode transposed/reshuffled (3x2) in an RP66 reader"),
    (finding_13, "an explicit origin_reference=0 is ignored"),
    (finding_14, "a rejected dict assignment has already replaced the attribute value"),
]


if __name__ == '__main__':
    for n, (func, description) in enumerate(FINDINGS, start=1):
        try:
            violated = bool(func())
        except Exception as exc:  # a reproduction must not stop the others
            violated = False
            description += f" [reproduction raised {type(exc).__name__}: {exc}]"
        print(f"FINDING {n}: {description} -> {'VIOLATED' if violated else 'not reproduced'}")
