"""Reproductions of violations of property C06 (primitive values are encoded exactly as their representation code
prescribes; values which a code cannot represent are rejected, never wrapped / truncated).

Run:  cd /tmp/hunt/C06 && PYTHONPATH=/tmp/hunt/C06/src /venv/bin/python findings.py
"""

import contextlib
import io
import logging
import os
import tempfile
from datetime import datetime, timedelta, timezone, tzinfo
from decimal import Decimal
from enum import Enum
from fractions import Fraction

import numpy as np
import dlisio

from dliswriter import DLISFile, enums

logging.disable(logging.CRITICAL)
dlisio.common.set_encodings([])

_TMP = tempfile.mkdtemp(prefix='c06_')


def _new_file():
    """A DLISFile with one logical file and its origin."""

    df = DLISFile()
    lf = df.add_logical_file()
    lf.add_origin('O')
    return df, lf


def _add_min_frame(lf):
    ix = lf.add_channel('IX', data=np.arange(3, dtype=np.float64))
    lf.add_frame('FR', channels=(ix,), index_type='BOREHOLE-DEPTH')


def _write(df, name):
    fn = os.path.join(_TMP, name)
    with contextlib.redirect_stderr(io.StringIO()), contextlib.redirect_stdout(io.StringIO()):
        df.write(fn, output_chunk_size=2 ** 20)
    return fn


# ----------------------------------------------------------------------------------------------------------------------
def finding_1():
    """Channel data which do not fit the channel's representation code (cast_dtype) are wrapped / truncated /
    turned into garbage in the FDATA records instead of being rejected."""

    cases = [
        # source data                                         cast_dtype   what the code can represent
        (np.array([40000, 70000, -1], dtype=np.int64),        np.int16),   # SNORM: -32768..32767
        (np.array([300, -1, 256], dtype=np.int32),            np.uint8),   # USHORT: 0..255
        (np.array([2 ** 32 + 5, 1, 2], dtype=np.int64),       np.uint32),  # ULONG: 0..2^32-1
        (np.array([1.7, 1e10, np.nan]),                       np.int32),   # SLONG: integers only, |v| < 2^31
        (np.array([1e300, 1.0, 2.0]),                         np.float32),  # FSINGL: |v| < 3.4e38
    ]

    violated = []
    for i, (data, cast) in enumerate(cases):
        df, lf = _new_file()
        ix = lf.add_channel('IX', data=np.arange(len(data), dtype=np.float64))
        ch = lf.add_channel('CH', data=data, cast_dtype=cast)
        lf.add_frame('FR', channels=(ix, ch), index_type='BOREHOLE-DEPTH')
        try:
            with np.errstate(all='ignore'):
                fn = _write(df, f'f1_{i}.dlis')
        except Exception:
            violated.append(False)  # rejected - this is what the statement asks for
            continue
        with dlisio.dlis.load(fn) as (f, *_):
            decoded = f.frames[0].curves()['CH']
        # the value which was asked to be written is not the value an independent decoder recovers
        same = all((a == b) or (a != a and b != b) for a, b in zip(data.tolist(), decoded.tolist()))
        violated.append(not same)

    return all(violated)


# ----------------------------------------------------------------------------------------------------------------------
class _FoldZone(tzinfo):
    """A zone with a repeated hour (used only if the system has no tz database): UTC+2, and UTC+1 when fold=1."""

    def utcoffset(self, dt):
        return timedelta(hours=1 if dt.fold else 2)

    def dst(self, dt):
        return timedelta(hours=0 if dt.fold else 1)

    def tzname(self, dt):
        return 'FOLD'


def _parse_dtime(b):
    y, tzm, d, h, mn, s, ms = b[0], b[1], b[2], b[3], b[4], b[5], int.from_bytes(b[6:8], 'big')
    return (1900 + y, tzm & 0xF, d, h, mn, s, ms), tzm >> 4


def finding_2():
    """Two datetimes which differ only in 'fold' (the two 02:30 of the night the clocks go back - two different
    instants, one hour apart) get the same DTIME bytes: the second one is served from the memo of the first one."""

    try:
        from zoneinfo import ZoneInfo
        zone = ZoneInfo('Europe/Oslo')
        zone.utcoffset(datetime(2021, 10, 31, 2, 30))
    except Exception:
        zone = _FoldZone()

    first = datetime(2021, 10, 31, 2, 30, tzinfo=zone, fold=0)   # 02:30 CEST = 00:30 UTC
    second = datetime(2021, 10, 31, 2, 30, tzinfo=zone, fold=1)  # 02:30 CET  = 01:30 UTC
    expected = [dt.astimezone(timezone.utc).replace(tzinfo=None) for dt in (first, second)]
    assert expected[0] != expected[1]

    df = DLISFile()
    lf = df.add_logical_file()
    lf.add_origin('O1', creation_time=first)
    lf.add_origin('O2', creation_time=second)
    _add_min_frame(lf)
    fn = _write(df, 'f2.dlis')

    with dlisio.dlis.load(fn) as (f, *_):
        decoded = [o.creation_time for o in f.origins]

    # primitive level, own decoding of the bytes
    from dliswriter.utils.internal.struct_writer import write_struct
    from dliswriter.utils.internal.internal_enums import RepresentationCode
    raw = [_parse_dtime(write_struct(RepresentationCode.DTIME, dt))[0] for dt in (first, second)]

    return decoded[0] == expected[0] and decoded[1] != expected[1] and raw[0] == raw[1]


# ----------------------------------------------------------------------------------------------------------------------
class Mnemonic(str, Enum):
    """The usual way of keeping channel mnemonics in user code: members ARE strings (Mnemonic.GR == 'GR')."""

    DEPTH = 'DEPTH'
    GR = 'GR'


def finding_3():
    """A string which is a member of a str-Enum (the library's own enums.* members included) is accepted as the str
    it is, but IDENT / ASCII bytes are made from str(value) = 'ClassName.MEMBER', not from its characters."""

    assert Mnemonic.GR == 'GR' and isinstance(Mnemonic.GR, str) and len(Mnemonic.GR) == 2
    assert enums.FrameIndexType.BOREHOLE_DEPTH == 'BOREHOLE-DEPTH'

    df = DLISFile()
    lf = df.add_logical_file()
    lf.add_origin('O', company=Mnemonic.GR)                                 # ASCII
    a = lf.add_channel(Mnemonic.DEPTH, data=np.arange(3.))                  # IDENT inside OBNAME
    b = lf.add_channel(Mnemonic.GR, data=np.arange(3.), units=enums.ZoneDomain.TIME)   # IDENT (soft enum)
    lf.add_frame('FR', channels=(a, b), index_type='BOREHOLE-DEPTH')
    # validated against ZoneDomain (accepted, because it equals 'BOREHOLE-DEPTH'), then written as something else
    lf.add_zone('Z', domain=enums.FrameIndexType.BOREHOLE_DEPTH)            # IDENT (strict enum)
    fn = _write(df, 'f3.dlis')

    with dlisio.dlis.load(fn) as (f, *_):
        names = [c.name for c in f.channels]
        company = f.origins[0].company
        domain = f.zones[0].domain
        units = f.channels[1].units

    # primitive level
    from dliswriter.utils.internal.struct_writer import write_struct_ident
    raw = write_struct_ident(Mnemonic.GR)

    return (names == ['Mnemonic.DEPTH', 'Mnemonic.GR'] and company == 'Mnemonic.GR'
            and domain == 'FrameIndexType.BOREHOLE_DEPTH' and units == 'ZoneDomain.TIME'
            and raw == b'\x0bMnemonic.GR' and raw != b'\x02GR')


# ----------------------------------------------------------------------------------------------------------------------
def finding_4():
    """STATUS: a fraction which is not a Python float (numpy.float32, Decimal, Fraction) is truncated to 0 / 1
    instead of being rejected (the float 0.5 is rejected)."""

    values = [np.float32(0.5), np.float32(1.9), Decimal('0.5'), Fraction(1, 2)]
    expected_truncations = [False, True, False, False]

    # control: the same fraction as a float is rejected
    _, lf = _new_file()
    try:
        lf.add_tool('T', status=0.5)
        return False
    except ValueError:
        pass

    df, lf = _new_file()
    _add_min_frame(lf)
    try:
        for i, v in enumerate(values):
            lf.add_tool(f'T{i}', status=v)
        fn = _write(df, 'f4.dlis')
    except Exception:
        return False

    with dlisio.dlis.load(fn) as (f, *_):
        decoded = [t.status for t in f.tools]

    return decoded == expected_truncations


# ----------------------------------------------------------------------------------------------------------------------
def finding_5():
    """An integer which FDOUBL cannot represent (|v| > 2^53, odd) is silently rounded to another integer;
    the same happens for an int in a list with a float (Parameter values) and for plain numeric attributes."""

    v = 2 ** 53 + 1  # 9007199254740993

    df, lf = _new_file()
    _add_min_frame(lf)
    z1, z2 = lf.add_zone('Z1', maximum=v), lf.add_zone('Z2')       # Zone.maximum: int given, FDOUBL written
    lf.add_parameter('P', values=[v, 0.5], zones=[z1, z2])         # ints and floats: common code FDOUBL
    lf.add_path('PA', borehole_depth=v)                            # NumericAttribute
    try:
        fn = _write(df, 'f5.dlis')
    except Exception:
        return False

    with dlisio.dlis.load(fn) as (f, *_):
        zmax = f.zones[0].maximum
        pv = f.parameters[0].values[0]
        bd = f.paths[0].borehole_depth

    return all(int(x) == 2 ** 53 != v for x in (zmax, pv, bd))


# ----------------------------------------------------------------------------------------------------------------------
FINDINGS = [
    (finding_1, "channel values outside the range of the channel's representation code (cast_dtype) are wrapped / "
                "truncated / turned into inf in the frame data instead of being rejected"),
    (finding_2, "datetimes differing only in 'fold' (repeated hour at the end of DST) share one memoised DTIME "
                "encoding, so the second one is written one hour off"),
    (finding_3, "str-Enum members (user mnemonics, dliswriter.enums members) are written as IDENT/ASCII "
                "'ClassName.MEMBER' instead of the characters of the string"),
    (finding_4, "STATUS given as numpy.float32 / Decimal / Fraction fraction is truncated to 0 or 1 instead of "
                "being rejected"),
    (finding_5, "integers not representable as FDOUBL (2**53+1) are silently rounded instead of being rejected"),
]


if __name__ == '__main__':
    for n, (func, description) in enumerate(FINDINGS, start=1):
        try:
            result = func()
        except Exception as exc:  # a reproduction which crashes is not a reproduction
            result = False
            description += f' [error: {type(exc).__name__}: {exc}]'
        print(f"FINDING {n}: {description} -> {'VIOLATED' if result else 'not reproduced'}")
