"""C07 findings: object identity / reference resolution violations in dliswriter.

Run:  cd /tmp/hunt/C07 && PYTHONPATH=/tmp/hunt/C07/src /venv/bin/python findings.py

The verdicts are made by an independent, minimal RP66 v1 reader contained in this file (parse_file / identities),
plus dlisio where it adds evidence.  The library is only used through its public API.
"""
import logging
import os
import struct
import sys

import numpy as np

logging.disable(logging.CRITICAL)

from dliswriter import DLISFile, eflr_types  # noqa: E402

OUT = os.path.join(os.path.dirname(os.path.abspath(__file__)), '_findings_out')
os.makedirs(OUT, exist_ok=True)


# ------------------------------------------------------------------------------------------------------------------
# independent minimal RP66 v1 reader
# ------------------------------------------------------------------------------------------------------------------
def _uvari(b, i):
    x = b[i]
    if x < 0x80:
        return x, i + 1
    if x < 0xC0:
        return struct.unpack('>H', b[i:i + 2])[0] & 0x3FFF, i + 2
    return struct.unpack('>I', b[i:i + 4])[0] & 0x3FFFFFFF, i + 4


def _ident(b, i):
    n = b[i]
    return b[i + 1:i + 1 + n].decode('latin1'), i + 1 + n


def _ascii(b, i):
    n, i = _uvari(b, i)
    return b[i:i + n].decode('latin1'), i + n


def _obname(b, i):
    o, i = _uvari(b, i)
    c = b[i]
    n, i = _ident(b, i + 1)
    return (o, c, n), i


def _objref(b, i):
    t, i = _ident(b, i)
    ob, i = _obname(b, i)
    return (t,) + ob, i


def _fixed(fmt):
    n = struct.calcsize(fmt)
    return lambda b, i: (struct.unpack(fmt, b[i:i + n]), i + n)


_DEC = {1: _fixed('>h'), 2: _fixed('>f'), 3: _fixed('>ff'), 4: _fixed('>fff'), 5: _fixed('>I'), 6: _fixed('>I'),
        7: _fixed('>d'), 8: _fixed('>dd'), 9: _fixed('>ddd'), 10: _fixed('>ff'), 11: _fixed('>dd'), 12: _fixed('>b'),
        13: _fixed('>h'), 14: _fixed('>i'), 15: _fixed('>B'), 16: _fixed('>H'), 17: _fixed('>I'), 18: _uvari,
        19: _ident, 20: _ascii, 21: _fixed('>8B'), 22: _uvari, 23: _obname, 24: _objref, 26: _fixed('>B'), 27: _ident}


def _logical_records(path):
    data = open(path, 'rb').read()
    i, cur, out = 80, None, []
    while i < len(data):
        vl = struct.unpack('>H', data[i:i + 2])[0]
        assert data[i + 2] == 0xFF and data[i + 3] == 1
        j, end = i + 4, i + vl
        while j < end:
            sl, at, ty = struct.unpack('>HBB', data[j:j + 4])
            body = data[j + 4:j + sl]
            if at & 0x01:
                body = body[:-body[-1]]
            if not (at & 0x40):
                cur = [bool(at & 0x80), ty, b'']
            cur[2] += body
            if not (at & 0x20):
                out.append(tuple(cur))
            j += sl
        i = end
    return out


def _parse_eflr(body):
    d = body[0]
    stype, i = _ident(body, 1)
    sname = None
    if d & 0x08:
        sname, i = _ident(body, i)
    template, objects, cur, k = [], [], None, 0
    while i < len(body):
        d = body[i]
        i += 1
        role = d >> 5
        if role == 3:
            ob, i = _obname(body, i)
            cur = {'obname': ob, 'attrs': {}}
            objects.append(cur)
            k = 0
            continue
        a = dict(template[k]) if cur is not None else {'label': None, 'count': 1, 'rc': 19, 'value': None}
        if role == 0:
            a['value'] = None
        else:
            if d & 0x10:
                a['label'], i = _ident(body, i)
            if d & 0x08:
                a['count'], i = _uvari(body, i)
            if d & 0x04:
                a['rc'] = body[i]
                i += 1
            if d & 0x02:
                _, i = _ident(body, i)
            if d & 0x01:
                vals = []
                for _ in range(a['count']):
                    v, i = _DEC[a['rc']](body, i)
                    vals.append(v)
                a['value'] = vals
        if cur is None:
            template.append(a)
        else:
            cur['attrs'][a['label']] = a
            k += 1
    return {'type': stype, 'name': sname, 'objects': objects}


def parse_file(path):
    """-> list of logical files: {'sets': [parsed EFLRs], 'iflrs': [(lr type, leading OBNAME)]}, in file order."""

    lfs = []
    for is_eflr, ty, body in _logical_records(path):
        if is_eflr:
            s = _parse_eflr(body)
            if s['type'] == 'FILE-HEADER':
                lfs.append({'sets': [], 'iflrs': []})
            lfs[-1]['sets'].append(s)
        else:
            lfs[-1]['iflrs'].append((ty, _obname(body, 0)[0]))
    return lfs


def identities(lf):
    """-> {(set type, origin, copy, name): number of objects written with that identity}, set of ORIGIN references."""

    ids, origins = {}, set()
    for s in lf['sets']:
        for o in s['objects']:
            key = (s['type'],) + o['obname']
            ids[key] = ids.get(key, 0) + 1
            if s['type'] == 'ORIGIN':
                origins.add(o['obname'][0])
    return ids, origins


def attr_value(lf, set_type, name, label):
    for s in lf['sets']:
        if s['type'] == set_type:
            for o in s['objects']:
                if o['obname'][2] == name:
                    return o['attrs'][label]
    raise KeyError((set_type, name, label))


# ------------------------------------------------------------------------------------------------------------------
def _new(n_lf=1):
    df = DLISFile()
    return df, [df.add_logical_file() for _ in range(n_lf)]


def _std(lf, set_name=None, n=3):
    c1 = lf.add_channel('DEPTH', data=np.arange(n, dtype=float), set_name=set_name)
    c2 = lf.add_channel('RPM', data=np.arange(n, dtype=float) * 2, set_name=set_name)
    fr = lf.add_frame('MAIN', channels=(c1, c2), set_name=set_name)
    return c1, c2, fr


def _write(df, name):
    path = os.path.join(OUT, name + '.dlis')
    if os.path.exists(path):
        os.remove(path)
    df.write(path, output_chunk_size=2 ** 20)
    return path


# ------------------------------------------------------------------------------------------------------------------
def finding_1():
    """Same-named objects of one type put in different sets (set_name) of ONE logical file all get copy number 0."""

    df, (lf,) = _new()
    lf.add_origin('O')
    i1 = lf.add_channel('IDX', data=np.arange(3.), set_name='S1')
    x1 = lf.add_channel('X', data=np.ones(3), set_name='S1')
    i2 = lf.add_channel('IDX', data=np.arange(4.), set_name='S2', dataset_name='i2')
    x2 = lf.add_channel('X', data=np.ones(4) * 2, set_name='S2', dataset_name='x2')
    lf.add_frame('F', channels=(i1, x1), set_name='S1')
    lf.add_frame('F', channels=(i2, x2), set_name='S2')
    path = _write(df, 'f1')

    (plf,) = parse_file(path)
    ids, _ = identities(plf)
    dup = {k: v for k, v in ids.items() if v > 1}
    # every FDATA record opens with FRAME (0, 0, 'F'), which is the identity of two different frames
    ambiguous_iflr = sum(1 for ty, ob in plf['iflrs'] if ty == 0 and ids.get(('FRAME',) + ob, 0) != 1)

    # extra evidence: dlisio glues the 3 rows of one frame and the 4 rows of the other one together
    import dlisio
    with dlisio.dlis.load(path) as (f,):
        rows = [len(fr.curves()) for fr in f.frames]

    return (dup == {('CHANNEL', 0, 0, 'IDX'): 2, ('CHANNEL', 0, 0, 'X'): 2, ('FRAME', 0, 0, 'F'): 2}
            and ambiguous_iflr == 7 and rows == [7, 7])


def finding_2():
    """origin_reference passed to add_* is not checked: the object's origin field is no ORIGIN of the logical file."""

    df, (lf,) = _new()
    lf.add_origin('O')                       # origin reference 0 - the only origin of the file
    _std(lf)
    lf.add_zone('Z', origin_reference=9)     # accepted
    path = _write(df, 'f2')                  # written without complaint

    (plf,) = parse_file(path)
    ids, origins = identities(plf)
    return origins == {0} and ('ZONE', 9, 0, 'Z') in ids


def finding_3():
    """Computation.source is written as OBNAME (no set type), so it cannot tell TOOL 'X' from PROCESS 'X'."""

    df, (lf,) = _new()
    lf.add_origin('O')
    _std(lf)
    lf.add_tool('X')
    process = lf.add_process('X')
    lf.add_computation('C', source=process, values=[1])
    path = _write(df, 'f3')

    (plf,) = parse_file(path)
    ids, _ = identities(plf)
    a = attr_value(plf, 'COMPUTATION', 'C', 'SOURCE')
    candidates = [k for k in ids if k[1:] == a['value'][0]]

    import dlisio
    with dlisio.dlis.load(path) as (f,):
        dlisio_source = f.object('COMPUTATION', 'C').source   # dlisio cannot resolve it at all -> None

    return (a['rc'] == 23 and a['value'] == [(0, 0, 'X')]
            and sorted(candidates) == [('PROCESS', 0, 0, 'X'), ('TOOL', 0, 0, 'X')] and dlisio_source is None)


def finding_4():
    """Renaming an object (item.name = ...) leaves stale copy numbers: two objects end up with one identity."""

    ok = True

    # (a) rename onto an existing name
    df, (lf,) = _new()
    lf.add_origin('O')
    _std(lf)
    z1 = lf.add_zone('Z')
    z2 = lf.add_zone('Y')
    z2.name = 'Z'
    lf.add_parameter('P', zones=[z1, z2], values=[1, 2])
    (plf,) = parse_file(_write(df, 'f4a'))
    ids, _ = identities(plf)
    ok &= ids.get(('ZONE', 0, 0, 'Z')) == 2
    ok &= attr_value(plf, 'PARAMETER', 'P', 'ZONES')['value'] == [(0, 0, 'Z'), (0, 0, 'Z')]  # which is which?

    # (b) rename AWAY from a name, then add a new object with the old name: the count-based copy number repeats
    df, (lf,) = _new()
    lf.add_origin('O')
    _std(lf)
    a1 = lf.add_zone('A')      # copy 0
    a2 = lf.add_zone('A')      # copy 1
    a1.name = 'B'
    a3 = lf.add_zone('A')      # one other 'A' in the set -> copy 1 again
    (plf,) = parse_file(_write(df, 'f4b'))
    ids, _ = identities(plf)
    ok &= (a2.copy_number, a3.copy_number) == (1, 1) and ids.get(('ZONE', 0, 1, 'A')) == 2

    return bool(ok)


def finding_5():
    """Origin references changed after creation are not checked / not propagated: objects point to no ORIGIN."""

    ok = True

    # (a) item.origin_reference = <anything>
    df, (lf,) = _new()
    lf.add_origin('O')
    _std(lf)
    z = lf.add_zone('Z')
    z.origin_reference = 7
    (plf,) = parse_file(_write(df, 'f5a'))
    ids, origins = identities(plf)
    ok &= origins == {0} and ('ZONE', 7, 0, 'Z') in ids

    # (b) the origin itself is given another reference: every object made so far (and the file header) is orphaned
    df, (lf,) = _new()
    o = lf.add_origin('O')
    _std(lf)
    o.origin_reference = 4
    (plf,) = parse_file(_write(df, 'f5b'))
    ids, origins = identities(plf)
    orphans = sorted(k for k in ids if k[1] not in origins)
    ok &= origins == {4} and orphans == [('CHANNEL', 0, 0, 'DEPTH'), ('CHANNEL', 0, 0, 'RPM'),
                                         ('FILE-HEADER', 0, 0, '0'), ('FRAME', 0, 0, 'MAIN')]
    return bool(ok)


def finding_6():
    """References (other than frame->channels) to objects of ANOTHER logical file are written: they do not resolve."""

    df, (lf1, lf2) = _new(2)
    lf1.add_origin('O1', set_name='A')
    lf2.add_origin('O2', set_name='B')
    c1, c2, fr = _std(lf1, set_name='A')
    _std(lf2, set_name='B')
    zone2 = lf2.add_zone('Z', set_name='B')
    axis2 = lf2.add_axis('AX', set_name='B')
    lf1.add_parameter('P', zones=[zone2], values=[1], set_name='A')     # zone of the other logical file
    c2.axis.value = [axis2]                                             # axis of the other logical file
    path = _write(df, 'f6')

    plf1, plf2 = parse_file(path)
    ids1, _ = identities(plf1)
    zones = attr_value(plf1, 'PARAMETER', 'P', 'ZONES')['value']
    axis = attr_value(plf1, 'CHANNEL', 'RPM', 'AXIS')['value']
    return (zones == [(0, 0, 'Z')] and ('ZONE', 0, 0, 'Z') not in ids1
            and axis == [(0, 0, 'AX')] and ('AXIS', 0, 0, 'AX') not in ids1)


def finding_7():
    """add_no_format_frame_data accepts a NO-FORMAT object of another logical file: the NOFORM record opens with
    a reference to an object that is not defined in its logical file."""

    df, (lf1, lf2) = _new(2)
    lf1.add_origin('O1', set_name='A')
    lf2.add_origin('O2', set_name='B')
    _std(lf1, set_name='A')
    _std(lf2, set_name='B')
    nf2 = lf2.add_no_format('NF', set_name='B')
    lf1.add_no_format_frame_data(nf2, 'some data')
    path = _write(df, 'f7')

    plf1, plf2 = parse_file(path)
    ids1, _ = identities(plf1)
    noform = [ob for ty, ob in plf1['iflrs'] if ty == 1]
    return noform == [(0, 0, 'NF')] and not any(k[0] == 'NO-FORMAT' for k in ids1)


def finding_8():
    """An explicit origin reference of 0 is taken for 'not given' (add_origin and add_*): the user's choice is
    replaced - the origin gets another reference and the object lands in the defining origin."""

    df, (lf,) = _new()
    lf.add_origin('A', origin_reference=5)            # defining origin
    b = lf.add_origin('B', origin_reference=0)        # the user asks for reference 0 (free) ...
    _std(lf)
    z = lf.add_zone('Z', origin_reference=0)          # ... and puts a zone in that origin
    path = _write(df, 'f8')

    (plf,) = parse_file(path)
    ids, origins = identities(plf)
    return b.origin_reference == 1 and origins == {5, 1} and ('ZONE', 5, 0, 'Z') in ids and ('ZONE', 0, 0, 'Z') not in ids


def finding_9():
    """One FileHeaderItem passed to two logical files: the header of the first file carries the origin of the second."""

    df = DLISFile()
    fh = eflr_types.FileHeaderItem('HDR', parent=eflr_types.FileHeaderSet())
    lf1 = df.add_logical_file(file_header=fh)
    lf2 = df.add_logical_file(file_header=fh)
    lf1.add_origin('O1', set_name='A')                          # reference 0
    lf2.add_origin('O2', set_name='B', origin_reference=3)
    _std(lf1, set_name='A')
    _std(lf2, set_name='B')
    path = _write(df, 'f9')

    plf1, plf2 = parse_file(path)
    ids1, origins1 = identities(plf1)
    return origins1 == {0} and ('FILE-HEADER', 3, 0, '0') in ids1


FINDINGS = [
    (finding_1, "same-named objects in different sets (set_name) of one logical file all get copy number 0: "
                "duplicate CHANNEL/FRAME identities, ambiguous frame->channel and FDATA references"),
    (finding_2, "add_*(origin_reference=9) with no such ORIGIN in the logical file is accepted and written"),
    (finding_3, "Computation.source is written as OBNAME (no type): TOOL 'X' / PROCESS 'X' are indistinguishable"),
    (finding_4, "renaming an item keeps stale copy numbers: two ZONE objects are written with one identity"),
    (finding_5, "item.origin_reference / origin.origin_reference set after creation: objects (and the file header) "
                "carry an origin that is no ORIGIN of the file"),
    (finding_6, "Parameter.zones / Channel.axis pointing to objects of another logical file are written and dangle"),
    (finding_7, "NOFORM record opened with a NO-FORMAT object of another logical file (not defined in its own file)"),
    (finding_8, "explicit origin_reference=0 is silently replaced (origin gets 1, object goes to the defining origin)"),
    (finding_9, "a FileHeaderItem shared by two logical files gets the origin of the second file in both"),
]

if __name__ == '__main__':
    for n, (fn, text) in enumerate(FINDINGS, start=1):
        sys.stdout.flush()
        saved = os.dup(2)
        devnull = os.open(os.devnull, os.O_WRONLY)
        os.dup2(devnull, 2)   # (progress bars of the writer)
        try:
            res = fn()
        except Exception as exc:   # noqa
            res = False
            text += f" [raised {type(exc).__name__}: {exc}]"
        finally:
            sys.stderr.flush()
            os.dup2(saved, 2)
            os.close(saved)
            os.close(devnull)
        print(f"FINDING {n}: {text} -> {'VIOLATED' if res else 'not reproduced'}")
