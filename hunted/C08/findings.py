"""C08 findings: a frame's channel descriptors must match the layout of its data records.

Run as:  cd /tmp/hunt/C08 && PYTHONPATH=/tmp/hunt/C08/src /venv/bin/python findings.py

The judge is chk.py (an independent, minimal RP66 v1 parser living next to this file; it does not import dliswriter):
it reads the bytes of the produced file, collects the CHANNEL and FRAME objects of each logical file by their OBNAME
(origin, copy number, identifier), and for every FDATA record compares the number of data bytes with
sum(size(REPRESENTATION-CODE) * prod(DIMENSION)) over the channels which the frame lists. An OBNAME which resolves to
several objects with different descriptors is reported as ambiguous. dlisio is used as a second opinion.
"""

import os
import sys
import logging
import tempfile

# keep the progress bar of dliswriter quiet (progressbar2 binds sys.stderr at import time)
_stderr = sys.stderr
sys.stderr = open(os.devnull, 'w')
try:
    import progressbar  # noqa: F401
    import numpy as np
    from dliswriter import DLISFile
finally:
    sys.stderr = _stderr

sys.path.insert(0, os.path.dirname(os.path.abspath(__file__)))
from chk import check_file  # noqa: E402

logging.disable(logging.CRITICAL)

TMP = tempfile.mkdtemp(prefix='c08_')
N = 4


def _new():
    df = DLISFile()
    lf = df.add_logical_file()
    lf.add_origin('ORIGIN')
    return df, lf


def _write(df, name, **kwargs):
    path = os.path.join(TMP, name)
    df.write(path, output_chunk_size=2 ** 20, **kwargs)
    return path


def _dlisio_cannot_read(path):
    """True if dlisio cannot produce the curves of at least one frame of the (first logical file of the) file."""

    from dlisio import dlis
    failed = False
    with dlis.load(path) as (f, *_):
        for fr in f.frames:
            try:
                fr.curves()
            except Exception:
                failed = True
    return failed


def finding_1():
    """Two frames with the same name in two FRAME sets (set_name) of one logical file get the same OBNAME.

    Required: every FDATA record can be sliced with the descriptors of the frame it refers to.
    Observed (decoded from the bytes):
        FRAME set 'S1': (0, 0, 'MAIN') channels=[(0, 0, 'A')]     A: SSHORT [1] -> 1 byte / row
        FRAME set 'S2': (0, 0, 'MAIN') channels=[(0, 0, 'B')]     B: FDOUBL [1] -> 8 bytes / row
        FDATA body 0000044d41494e 01 00                  <- (0,0,'MAIN') #1, 1 data byte
        FDATA body 0000044d41494e 01 0000000000000000    <- (0,0,'MAIN') #1, 8 data bytes
    8 FDATA records with one frame reference (numbers 1..4 twice), 4 of 1 byte and 4 of 8 bytes: whichever FRAME object
    a reader picks, half of the rows do not have the length the descriptors give. dlisio: both frames have fingerprint
    T.FRAME-I.MAIN-O.0-C.0; curves() -> 'corrupted record: fmtstr would read past end' for both.
    Cause: EFLRItem._compute_copy_number (logical_record/core/eflr/eflr_item.py:118-123) counts same-named items only
    in self.parent (one EFLRSet); object names must be unique per type in the logical file. Neither
    LogicalFile.add_frame (file/file.py:1114-1131) nor LogicalFile.check_objects (file.py:2113) looks at other sets.
    """

    df, lf = _new()
    a = lf.add_channel('A', data=np.arange(N, dtype=np.int8))
    b = lf.add_channel('B', data=np.arange(N, dtype=np.float64))
    f1 = lf.add_frame('MAIN', channels=(a,), set_name='S1')
    f2 = lf.add_frame('MAIN', channels=(b,), set_name='S2')
    assert f1.obname == f2.obname  # (origin 0, copy 0, 'MAIN') twice
    path = _write(df, 'f1.dlis')

    problems = check_file(path)
    ambiguous = any('FDATA reference is ambiguous' in p for p in problems)
    wrong_length = any('data bytes, descriptors say' in p for p in problems)
    return ambiguous and wrong_length and _dlisio_cannot_read(path)


def finding_2():
    """Two channels with the same name in two CHANNEL sets (set_name) of one logical file get the same OBNAME.

    Observed:
        CHANNEL set 'X': (0, 0, 'AMP') reprc=12 (SSHORT) dim=[1] el=[1]
        CHANNEL set 'Y': (0, 0, 'AMP') reprc=7  (FDOUBL) dim=[2] el=[2]
        FRAME (0, 0, 'F1') channels=[(0, 0, 'AMP')]    rows: 1 data byte
        FRAME (0, 0, 'F2') channels=[(0, 0, 'AMP')]    rows: 16 data bytes
    Both frames list the very same reference, which resolves to two CHANNEL objects with different representation
    code and dimension. dlisio: frame.channels holds None, curves() raises.
    Cause: as finding 1 (copy number per set, eflr_item.py:118-123), via LogicalFile.add_channel (file.py:743-764).
    (Same-named channels in ONE set are fine: copy numbers 0, 1, ...)
    """

    df, lf = _new()
    a = lf.add_channel('AMP', data=np.arange(N, dtype=np.int8), set_name='X')
    b = lf.add_channel('AMP', data=np.arange(N * 2, dtype=np.float64).reshape(N, 2), set_name='Y')
    assert a.obname == b.obname
    lf.add_frame('F1', channels=(a,))
    lf.add_frame('F2', channels=(b,))
    path = _write(df, 'f2.dlis')

    problems = check_file(path)
    ambiguous = any('defined several times with different descriptors' in p for p in problems)
    return ambiguous and _dlisio_cannot_read(path)


def finding_3():
    """The copy number of an item is not updated when the item is renamed: OBNAMEs of frames/channels clash.

    Renaming is supported (EFLRItem.__setattr__ drops the cached obname when 'name' changes; write_struct does not cache
    OBNAMEs 'because an item can be renamed'), but _copy_number is computed once in EFLRItem.__init__
    (eflr_item.py:69, 118-123) from the name at that moment, and nothing checks OBNAME uniqueness at write time.
    (a) -> FRAME (0,0,'F') channels=[A] and FRAME (0,0,'F') channels=[B]; FDATA bodies 000001460100 (1 data byte) and
           00000146010000000000000000 (8 data bytes) refer to the same (0,0,'F').
    (b) -> CHANNEL (0,1,'A') FDOUBL [1] and CHANNEL (0,1,'A') UNORM [3]; F2 (8-byte rows) and F3 (6-byte rows) both
           list (0,1,'A'). Here the clash is produced by the add_channel AFTER the rename.
    """

    # (a) a frame renamed to the name of another frame
    df, lf = _new()
    a = lf.add_channel('A', data=np.arange(N, dtype=np.int8))
    b = lf.add_channel('B', data=np.arange(N, dtype=np.float64))
    lf.add_frame('F', channels=(a,))
    g = lf.add_frame('G', channels=(b,))
    g.name = 'F'
    path_a = _write(df, 'f3a.dlis')
    problems_a = check_file(path_a)
    ok_a = (any('FDATA reference is ambiguous' in p for p in problems_a)
            and any('data bytes, descriptors say' in p for p in problems_a))

    # (b) a channel renamed away, and its old name + copy number given to a new channel
    df, lf = _new()
    a0 = lf.add_channel('A', data=np.zeros(N, np.int8))                 # A, copy 0
    a1 = lf.add_channel('A', data=np.zeros(N, np.float64))              # A, copy 1
    a0.name = 'B'                                                       # B, copy 0
    a2 = lf.add_channel('A', data=np.zeros((N, 3), np.uint16))          # A, copy 1 again
    lf.add_frame('F1', channels=[a0])
    lf.add_frame('F2', channels=[a1])
    lf.add_frame('F3', channels=[a2])
    path_b = _write(df, 'f3b.dlis')
    problems_b = check_file(path_b)
    ok_b = a1.obname == a2.obname and any('defined several times with different descriptors' in p for p in problems_b)

    return ok_a and ok_b and _dlisio_cannot_read(path_a) and _dlisio_cannot_read(path_b)


def finding_4():
    """(contrived) cast_dtype given as a class is judged by its __name__: the repr code and the data dtype differ.

    ReprCodeConverter.validate_numpy_dtype (utils/internal/converters.py:85-86) takes number_type.__name__ for a scalar
    class, the chunk dtype is made with np.dtype(number_type) (utils/source_data_wrappers.py:118) = float64 here.
    -> CHANNEL A REPRESENTATION-CODE 2 (FSINGL), FDATA body 00000146 01 0000000000000000 (8 data bytes).
    No numpy-provided class triggers this, only a user-made subclass named like another supported dtype.
    """

    class float32(np.float64):  # a numpy scalar subclass whose name is that of another supported dtype
        pass

    df, lf = _new()
    a = lf.add_channel('A', data=np.arange(N, dtype=np.float64), cast_dtype=float32)
    lf.add_frame('F', channels=(a,))
    path = _write(df, 'f4.dlis')
    problems = check_file(path)
    # REPRESENTATION-CODE says FSINGL (4 bytes), each row holds 8 bytes
    return any('8 data bytes, descriptors say 4' in p for p in problems)


FINDINGS = [
    (finding_1, "frames of the same name in two FRAME sets of one logical file share one OBNAME, so the FDATA records "
                "(1-byte rows and 8-byte rows) refer to two frames with different layouts"),
    (finding_2, "channels of the same name in two CHANNEL sets of one logical file share one OBNAME, so a frame's "
                "CHANNELS reference resolves to two channels with different representation code and dimension"),
    (finding_3, "renaming a frame/channel (item.name = ...) keeps the old copy number, so two frames/channels end up "
                "with one OBNAME and different layouts"),
    (finding_4, "(contrived) a numpy scalar subclass named like another dtype as cast_dtype: channel says FSINGL, "
                "rows hold 8-byte doubles"),
]


if __name__ == '__main__':
    for i, (func, description) in enumerate(FINDINGS, start=1):
        try:
            violated = bool(func())
        except Exception as exc:  # a refusal by the library means the violation is not there (any more)
            violated = False
            description += f" [raised {type(exc).__name__}: {exc}]"
        print(f"FINDING {i}: {description} -> {'VIOLATED' if violated else 'not reproduced'}")
