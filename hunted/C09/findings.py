"""C09 findings: reproductions. Run:  cd /tmp/hunt/C09 && PYTHONPATH=/tmp/hunt/C09/src /venv/bin/python findings.py

The outcome is judged with a small RP66 v1 reader written here (no dliswriter code involved in the judgement).
"""
import logging
import os
import shutil
import struct
import tempfile

import numpy as np

logging.disable(logging.CRITICAL)

from dliswriter import DLISFile  # noqa: E402
from dliswriter.logical_record import eflr_types  # noqa: E402



# ----------------------------------------------------------------------------------------------------------------------
# independent minimal RP66 v1 reader
# ----------------------------------------------------------------------------------------------------------------------
FIXED = {1: 2, 2: 4, 3: 8, 4: 12, 5: 4, 6: 4, 7: 8, 8: 16, 9: 24, 10: 8, 11: 16, 12: 1, 13: 2, 14: 4, 15: 1, 16: 2,
         17: 4, 21: 8, 26: 1}


def _logical_records(path):
    b = open(path, 'rb').read()
    pos, recs, cur = 80, [], None
    while pos < len(b):
        vrl = struct.unpack('>H', b[pos:pos + 2])[0]
        assert b[pos + 2] == 0xff and b[pos + 3] == 1
        end, p = pos + vrl, pos + 4
        while p < end:
            sl, attr, typ = struct.unpack('>HBB', b[p:p + 4])
            body = b[p + 4:p + sl]
            if attr & 0x01:
                body = body[:len(body) - body[-1]]
            if not (attr & 0x40):
                cur = dict(type=typ, eflr=bool(attr & 0x80), body=bytearray())
                recs.append(cur)
            cur['body'] += body
            p += sl
        pos = end
    return recs


def _ident(b, p):
    n = b[p]
    return b[p + 1:p + 1 + n].decode('latin1'), p + 1 + n


def _uvari(b, p):
    x = b[p]
    if x < 0x80:
        return x, p + 1
    if x < 0xC0:
        return struct.unpack('>H', b[p:p + 2])[0] & 0x3fff, p + 2
    return struct.unpack('>I', b[p:p + 4])[0] & 0x3fffffff, p + 4


def _obname(b, p):
    o, p = _uvari(b, p)
    c = b[p]
    n, p = _ident(b, p + 1)
    return (o, c, n), p


def _value(b, p, rc):
    if rc in FIXED:
        return bytes(b[p:p + FIXED[rc]]), p + FIXED[rc]
    if rc in (18, 22):
        return _uvari(b, p)
    if rc in (19, 27):
        return _ident(b, p)
    if rc == 20:
        n, p = _uvari(b, p)
        return b[p:p + n].decode('latin1'), p + n
    if rc == 23:
        return _obname(b, p)
    if rc == 24:
        t, p = _ident(b, p)
        o, p = _obname(b, p)
        return (t, o), p
    raise ValueError(rc)


def _attr(b, p, d, default):
    a = dict(default)
    if d & 0x10:
        a['label'], p = _ident(b, p)
    if d & 0x08:
        a['count'], p = _uvari(b, p)
    if d & 0x04:
        a['rc'] = b[p]
        p += 1
    if d & 0x02:
        a['units'], p = _ident(b, p)
    if d & 0x01:
        vals = []
        for _ in range(a['count']):
            v, p = _value(b, p, a['rc'])
            vals.append(v)
        a['value'] = vals
    return a, p


def _parse_eflr(body):
    b, p = bytes(body), 0
    d = b[p]
    assert d >> 5 == 7
    stype, p = _ident(b, p + 1)
    sname = None
    if d & 0x08:
        sname, p = _ident(b, p)
    template = []
    while p < len(b) and (b[p] >> 5) in (1, 2):
        a, p = _attr(b, p + 1, b[p], dict(label='', count=1, rc=19, units='', value=None))
        template.append(a)
    objects = []
    while p < len(b):
        assert b[p] >> 5 == 3
        name, p = _obname(b, p + 1)
        attrs, i = {}, 0
        while p < len(b) and (b[p] >> 5) != 3:
            d = b[p]
            p += 1
            if d >> 5 == 0:
                attrs[template[i]['label']] = None
            else:
                attrs[template[i]['label']], p = _attr(b, p, d, template[i])
            i += 1
        objects.append((name, attrs))
    return dict(type=stype, name=sname or None, objects=objects)


def logical_files(path):
    """-> list of logical files, each a list of ('E', set-dict) or ('I', lr-type, obname-of-the-referenced-object)"""
    lfs = []
    for r in _logical_records(path):
        if r['eflr']:
            s = _parse_eflr(r['body'])
            if s['type'] == 'FILE-HEADER' or not lfs:
                lfs.append([])
            lfs[-1].append(('E', s))
        else:
            lfs[-1].append(('I', r['type'], _obname(bytes(r['body']), 0)[0]))
    return lfs


# ----------------------------------------------------------------------------------------------------------------------
# helpers
# ----------------------------------------------------------------------------------------------------------------------
_TMP_DIRS = []
HERE = os.path.dirname(os.path.abspath(__file__))


def _fill(lf, set_name=None):
    """the minimum a logical file needs: an origin, two channels in a frame"""
    lf.add_origin("ORIGIN", set_name=set_name)
    c1 = lf.add_channel("DEPTH", data=np.arange(3.0), set_name=set_name)
    c2 = lf.add_channel("RPM", data=np.arange(3.0) * 2, set_name=set_name)
    lf.add_frame("MAIN", channels=[c1, c2], set_name=set_name)


def _write(df):
    """write the file (into a temporary directory next to this script), return its path"""
    path = os.path.join(tempfile.mkdtemp(prefix='tmp_c09_', dir=HERE), 'out.dlis')
    _TMP_DIRS.append(os.path.dirname(path))
    saved, devnull = os.dup(2), os.open(os.devnull, os.O_WRONLY)     # (hide the progress bar)
    try:
        os.dup2(devnull, 2)
        df.write(path, output_chunk_size=2 ** 20)
    finally:
        os.dup2(saved, 2)
        os.close(saved)
        os.close(devnull)
    return path


def _set_keys(lf):
    return [(x[1]['type'], x[1]['name']) for x in lf if x[0] == 'E']


# ----------------------------------------------------------------------------------------------------------------------
# findings
# ----------------------------------------------------------------------------------------------------------------------
def finding_1():
    """fh_sequence_number=True (a bool is an int, passes the check 0 < n <= 9999999999) is written as '      True'.

    Required: SEQUENCE-NUMBER = the user's number (True == 1) right-justified in 10 characters: '         1'.
    Observed: record body ...p\x00\x00\x010!\n'      True'!A'FILE-HEADER   ...'; dlisio: fileheader.sequencenr == 'True'.
    Cause: logical_record/eflr_types/file_header.py line 46 (isinstance(sequence_number, int) lets a bool through) and
    line 88 (get_ascii_bytes(str(self.sequence_number), 10, ...)).
    """

    df = DLISFile()
    lf = df.add_logical_file(fh_sequence_number=True)
    _fill(lf)
    lf0 = logical_files(_write(df))[0]
    seq = lf0[0][1]['objects'][0][1]['SEQUENCE-NUMBER']['value'][0]
    # the user's number is 1 (True == 1): expected '         1'
    return seq != '1'.rjust(10) and not seq.strip().isdigit()


def finding_2():
    """Two FileHeaderItems made with the same FileHeaderSet: every logical file starts with a FILE-HEADER record
    holding two objects (and the first logical file's header is also the first object of the second file's header).

    Required: each logical file starts with a FILE-HEADER record holding exactly one object; FILE-ID of the defining
    origin equals the header ID.
    Observed: both files start with the same record: p(0,0,'0') seq 1 ID FIRST-FILE + p(0,1,'0') seq 2 ID SECOND-FILE;
    dlisio: f.find('FILE-HEADER') == [File-header(0), File-header(0)] in both logical files. Nothing raised or logged.
    Cause: file/file.py lines 276-277 (LogicalFile.__init__ takes file_header as is), line 117 (generator yields
    file_header_item.parent, the whole set); EFLRSet.register_item puts no limit on a FileHeaderSet.
    """

    fh_set = eflr_types.FileHeaderSet()
    h1 = eflr_types.FileHeaderItem("FIRST-FILE", parent=fh_set, sequence_number=1)
    h2 = eflr_types.FileHeaderItem("SECOND-FILE", parent=fh_set, sequence_number=2)
    df = DLISFile()
    lf1 = df.add_logical_file(file_header=h1)
    lf2 = df.add_logical_file(file_header=h2)
    _fill(lf1, set_name="LF1")
    _fill(lf2, set_name="LF2")
    lfs = logical_files(_write(df))
    n_objects = [len(lf[0][1]['objects']) for lf in lfs]
    # defining origin of the 2nd logical file says SECOND-FILE, the first object of its header says FIRST-FILE
    first_id_lf2 = lfs[1][0][1]['objects'][0][1]['ID']['value'][0].strip()
    origin_file_id_lf2 = lfs[1][1][1]['objects'][0][1]['FILE-ID']['value'][0].strip()
    return n_objects == [2, 2] and first_id_lf2 == 'FIRST-FILE' and origin_file_id_lf2 == 'SECOND-FILE'


def finding_3():
    """add_no_format_frame_data accepts a NO-FORMAT object of another logical file: the NOFORM IFLR is written in a
    logical file which does not contain the object; here the object only appears later in the file, in the next
    logical file.

    Required: every no-format object precedes the first IFLR that refers to it (logical files are independent).
    Observed: LF ONE: FILE-HEADER, ORIGIN, CHANNEL, FRAME, NOFORM->(0,0,'IMAGE'), FDATA x3;
              LF TWO: FILE-HEADER, ORIGIN, CHANNEL, FRAME, NO-FORMAT{IMAGE}, FDATA x3.
    (Roles swapped: the later file holds a NOFORM record whose object is not in that file; dlisio noformats == [].)
    Cause: file/file.py lines 1381-1400 (add_no_format_frame_data does not look at where no_format_object lives),
    line 2113 ff. (check_objects: no check of _no_format_frame_data, unlike channels of frames), line 125 (generator).
    """

    df = DLISFile()
    lf1 = df.add_logical_file(fh_id="ONE", fh_sequence_number=1)
    lf2 = df.add_logical_file(fh_id="TWO", fh_sequence_number=2)
    _fill(lf1, set_name="LF1")
    _fill(lf2, set_name="LF2")
    nf = lf2.add_no_format("IMAGE", set_name="LF2")
    lf1.add_no_format_frame_data(nf, "some binary blob")      # wrong logical file; accepted without complaint
    lfs = logical_files(_write(df))

    flat = [x for lf in lfs for x in lf]
    i_iflr = next(i for i, x in enumerate(flat) if x[0] == 'I' and x[1] == 1)
    i_set = next(i for i, x in enumerate(flat) if x[0] == 'E' and x[1]['type'] == 'NO-FORMAT')
    in_lf1 = any(x[0] == 'I' and x[1] == 1 for x in lfs[0])
    lf1_has_no_format_set = any(x[0] == 'E' and x[1]['type'] == 'NO-FORMAT' for x in lfs[0])
    return in_lf1 and not lf1_has_no_format_set and i_iflr < i_set


def finding_4():
    """add_no_format_frame_data also accepts a NoFormatItem which is in no set of the file at all: the NOFORM IFLR
    refers to an object which is never written.

    Same hole as finding 3 (file/file.py lines 1381-1400), other form.
    """

    df = DLISFile()
    lf = df.add_logical_file()
    _fill(lf)
    nf = eflr_types.NoFormatItem("IMAGE", parent=eflr_types.NoFormatSet(), origin_reference=0)
    lf.add_no_format_frame_data(nf, "some binary blob")
    lf0 = logical_files(_write(df))[0]
    refs = [x[2] for x in lf0 if x[0] == 'I' and x[1] == 1]
    defined = [name for x in lf0 if x[0] == 'E' and x[1]['type'] == 'NO-FORMAT' for name, _ in x[1]['objects']]
    return refs == [(0, 0, 'IMAGE')] and not defined


def finding_5():
    """Renaming a set after its creation (EFLRSet.set_name is a plain public attribute) gives two sets of the same
    type and name in one logical file (here: two unnamed AXIS sets; same with any other name).

    Required: each (type, name) at most once in a logical file.
    Observed: ... AXIS (unnamed) {AXIS-1}, AXIS (unnamed) {AXIS-2} ...; no error at write time.
    Cause: logical_record/core/eflr/eflr_set.py line 31 (set_name is a plain unvalidated attribute, read again at line
    43 when the set component is written), while file/eflr_sets_dict.py keys the sets by the name they had when
    registered; nothing re-checks uniqueness at write time.
    """

    df = DLISFile()
    lf = df.add_logical_file()
    _fill(lf)
    lf.add_axis("AXIS-1")
    ax2 = lf.add_axis("AXIS-2", set_name="SPARE")
    ax2.parent.set_name = None        # or "" or the name of any other AXIS set
    keys = _set_keys(logical_files(_write(df))[0])
    return keys.count(('AXIS', None)) == 2


def finding_6():
    """set_name is never validated: 0 / False make a second *unnamed* set, and 1 and '1' make two sets named '1'
    (outside the type hints, but silently accepted).

    Cause: get_or_make_set only maps '' to None (file/eflr_sets_dict.py line 68); _make_set_component_bytes tests
    `if self.set_name:` (eflr_set.py line 43) and write_struct_ident does str(value) (struct_writer.py line 88).
    """

    df = DLISFile()
    lf = df.add_logical_file()
    _fill(lf)
    lf.add_axis("AXIS-1")
    lf.add_axis("AXIS-2", set_name=0)
    lf.add_zone("ZONE-1", set_name=1)
    lf.add_zone("ZONE-2", set_name="1")
    keys = _set_keys(logical_files(_write(df))[0])
    return keys.count(('AXIS', None)) == 2 and keys.count(('ZONE', '1')) == 2


FINDINGS = [
    (finding_1, "fh_sequence_number=True is written as SEQUENCE-NUMBER '      True' instead of '         1'"),
    (finding_2, "FileHeaderItems sharing a FileHeaderSet: each logical file's FILE-HEADER record holds two objects"),
    (finding_3, "NOFORM IFLR of a NO-FORMAT object of another logical file precedes the object (absent from its own file)"),
    (finding_4, "NOFORM IFLR may refer to a NoFormatItem that is in no set of the file: object never written"),
    (finding_5, "a set renamed after creation yields two sets with the same (type, name) in one logical file"),
    (finding_6, "unvalidated set_name (0, False, 1 vs '1') yields two sets with the same (type, name)"),
]

if __name__ == '__main__':
    for n, (func, description) in enumerate(FINDINGS, start=1):
        try:
            violated = func()
        except Exception as exc:
            violated = False
            description += f" [raised {exc!r}]"
        print(f"FINDING {n}: {description} -> {'VIOLATED' if violated else 'not reproduced'}")
    for d in _TMP_DIRS:
        shutil.rmtree(d, ignore_errors=True)
