"""C10 findings: chunk sizes are invisible; the file on disk only ever grows by whole records.

Run:  cd /tmp/hunt/C10 && PYTHONPATH=/tmp/hunt/C10/src /venv/bin/python findings.py
"""
import logging
import os
import sys
import tempfile
import warnings

import numpy as np

if __name__ == '__main__':   # silence the writer's progress bar (stderr) before it gets hold of the stream
    os.dup2(os.open(os.devnull, os.O_WRONLY), 2)

from dliswriter import DLISFile  # noqa: E402

logging.disable(logging.CRITICAL)
warnings.simplefilter('ignore')

TMP = tempfile.mkdtemp(prefix='c10_')


def _curve(path, frame='F', channel='x'):
    """Decode one channel with dlisio (independent reader)."""
    import dlisio
    with dlisio.dlis.load(path) as files:
        for f in files:
            for fr in f.frames:
                if fr.name == frame:
                    return fr.curves()[channel].tolist()


def finding_1():
    """NaN (or out-of-range) float samples cast to uint32: the written bytes depend on input_chunk_size."""

    x = np.array([1.0, 2.0, np.nan, 4.0, 5.0, 6.0, 7.0, 8.0])   # NaN = usual 'absent value' of a float log

    def make():
        df = DLISFile()
        lf = df.add_logical_file()
        lf.add_origin('O', file_set_number=1, creation_time='2020/01/01 00:00:00')
        ch = lf.add_channel('x', data=x, cast_dtype=np.uint32)
        lf.add_frame('F', channels=[ch])
        return df

    outs, decoded = {}, {}
    for ics in (None, 1, 3, 4, 8, 100):
        p = os.path.join(TMP, f'f1_{ics}.dlis')
        make().write(p, input_chunk_size=ics, output_chunk_size=2 ** 20)
        outs[ics] = open(p, 'rb').read()
        decoded[ics] = _curve(p)
    finding_1.evidence = {k: v[2] for k, v in decoded.items()}
    return len(set(outs.values())) > 1 and len(set(len(o) for o in outs.values())) == 1


def finding_2():
    """(borderline - rejected value) an output_chunk_size that is refused is refused only AFTER the target was
    truncated and the SUL written: the pre-existing file is replaced by an 80-byte stump, not by a DLIS file."""

    def make():
        df = DLISFile()
        lf = df.add_logical_file()
        lf.add_origin('O', file_set_number=1, creation_time='2020/01/01 00:00:00')
        ch = lf.add_channel('x', data=np.arange(5.))
        lf.add_frame('F', channels=[ch])
        return df

    p = os.path.join(TMP, 'f2.dlis')
    make().write(p, output_chunk_size=2 ** 20)
    good = open(p, 'rb').read()

    results = []
    for bad in (np.int64(2 ** 20), 8191, 8192.5, '8192'):
        with open(p, 'wb') as f:
            f.write(good)            # a valid pre-existing file at the target path
        try:
            make().write(p, output_chunk_size=bad)
            results.append(False)
            continue
        except (TypeError, ValueError):
            pass
        after = open(p, 'rb').read()
        results.append(after != good and len(after) == 80)
    # for comparison: a refused input_chunk_size leaves the pre-existing file alone
    with open(p, 'wb') as f:
        f.write(good)
    try:
        make().write(p, input_chunk_size=0, output_chunk_size=2 ** 20)
    except ValueError:
        pass
    untouched = open(p, 'rb').read() == good
    return all(results) and untouched


def finding_3():
    """(borderline - failing write) a legal two-logical-file specification makes write() die in the progress bar
    ('Value 15 is too large') before the last flush; what it leaves at the target path depends on output_chunk_size."""

    def make():
        df = DLISFile(max_record_length=200)
        for i in range(2):
            lf = df.add_logical_file(fh_id=f'FH{i}', fh_sequence_number=i + 1)
            lf.add_origin(f'O{i}', file_set_number=7, creation_time='2020/01/01 00:00:00', set_name=f's{i}')
            ch = lf.add_channel(f'a{i}', data=np.arange(4.), set_name=f's{i}')
            lf.add_frame(f'F{i}', channels=[ch], set_name=f's{i}')
        return df

    left = {}
    for ocs in (2 ** 20, 1000, 200):
        p = os.path.join(TMP, f'f3_{ocs}.dlis')
        with open(p, 'wb') as f:
            f.write(b'previous content' * 1000)
        try:
            make().write(p, output_chunk_size=ocs)
            return False          # write went through: not reproduced
        except ValueError as exc:
            if 'too large' not in str(exc):
                return False
        left[ocs] = open(p, 'rb').read()
    finding_3.evidence = {k: len(v) for k, v in left.items()}
    # the 16 records the generator really yields, vs the 14 announced
    lrs = make().generate_logical_records(chunk_size=None)
    announced, actual = len(lrs), len(list(lrs))
    finding_3.evidence['announced/actual records'] = (announced, actual)
    return len(set(left.values())) > 1 and actual > announced + 1


FINDINGS = [
    (finding_1, "float data holding NaN / values outside 0..2**32-1, cast_dtype=uint32: sample bytes differ between "
                "input_chunk_size 1..3 and >=4/None"),
    (finding_2, "[borderline] refused output_chunk_size (np.int64, too small, fractional, str) is refused after the "
                "target was truncated: pre-existing file replaced by an 80-byte SUL-only stump"),
    (finding_3, "[borderline] legal 2-logical-file spec: write() dies in progressbar (record count announced too "
                "small); leftover at target differs with output_chunk_size"),
]

if __name__ == '__main__':
    for n, (func, desc) in enumerate(FINDINGS, 1):
        try:
            ok = func()
        except Exception as exc:  # noqa
            ok = False
            desc += f' [raised {exc!r}]'
        ev = getattr(func, 'evidence', None)
        print(f"FINDING {n}: {desc} -> {'VIOLATED' if ok else 'not reproduced'}" + (f"   evidence: {ev}" if ev else ''))
