"""Reproductions of violations of property C11 (all data sources are equivalent / row window).

Run as:  cd /tmp/hunt/C11 && PYTHONPATH=/tmp/hunt/C11/src /venv/bin/python findings.py
"""

import contextlib
import io
import logging
import os
import sys
import tempfile

import numpy as np

logging.disable(logging.CRITICAL)

TMP = tempfile.mkdtemp(prefix='c11_findings_')


@contextlib.contextmanager
def _quiet():
    """Silence the progress bar, which writes to the stderr stream it got hold of at import time."""

    sys.stderr.flush()
    saved = os.dup(2)
    devnull = os.open(os.devnull, os.O_WRONLY)
    try:
        os.dup2(devnull, 2)
        with contextlib.redirect_stderr(io.StringIO()):
            yield
    finally:
        os.dup2(saved, 2)
        os.close(saved)
        os.close(devnull)


def _new_file(channel_specs, inline=None):
    """One logical file, one frame 'F' holding the channels of channel_specs (list of (name, kwargs)), in that order."""

    from dliswriter import DLISFile

    df = DLISFile()
    lf = df.add_logical_file()
    lf.add_origin('O', file_set_number=1, creation_time="2020/01/01 00:00:00")  # fixed time: reproducible bytes
    channels = []
    for name, kwargs in channel_specs:
        kwargs = dict(kwargs)
        if inline is not None:
            kwargs['data'] = inline[name]
        channels.append(lf.add_channel(name, **kwargs))
    lf.add_frame('F', channels=channels)
    return df


def _write(df, name, **kwargs):
    path = os.path.join(TMP, name)
    with _quiet():  # (progress bar)
        df.write(path, output_chunk_size=2 ** 20, **kwargs)
    with open(path, 'rb') as f:
        return path, f.read()


def _curves(path):
    """Decode the curves of frame 'F' with dlisio (independent reader)."""

    import dlisio
    dlisio.common.set_encodings(['latin1'])
    with dlisio.dlis.load(path) as (lf, *_):
        frame = [fr for fr in lf.frames if fr.name == 'F'][0]
        return frame.curves()


def finding_1():
    """Structured array + non-identity dataset_name mapping whose target dtype equals the source dtype.

    Channels 'A' and 'B' (in this order in the frame) are mapped on the data sets 'B' and 'A' respectively.
    Source fields 'A' and 'B' have the same dtype.
    """

    n = 5
    a = np.arange(n, dtype=np.float64)          # data set 'A'
    b = np.arange(n, dtype=np.float64) * 100    # data set 'B'
    specs = [('A', {'dataset_name': 'B'}), ('B', {'dataset_name': 'A'})]

    # inline: channel A holds the data of data set 'B', channel B - of data set 'A'
    _, ref = _write(_new_file(specs, inline={'A': b, 'B': a}), 'f1_inline.dlis')

    _, as_dict = _write(_new_file(specs), 'f1_dict.dlis', data={'A': a, 'B': b})

    import h5py
    h5_path = os.path.join(TMP, 'f1.h5')
    with h5py.File(h5_path, 'w') as h5f:
        h5f['A'] = a
        h5f['B'] = b
    _, as_h5 = _write(_new_file(specs), 'f1_h5.dlis', data=h5_path)

    struct = np.zeros(n, dtype=[('A', np.float64), ('B', np.float64)])
    struct['A'] = a
    struct['B'] = b
    struct_path, as_struct = _write(_new_file(specs), 'f1_struct.dlis', data=struct)

    others_agree = ref == as_dict == as_h5
    curves = _curves(struct_path)
    # channel A should hold data set 'B' (0, 100, 200, ...); with the structured source it holds data set 'A'
    slots_swapped = np.array_equal(curves['A'], a) and np.array_equal(curves['B'], b)

    return others_agree and as_struct != ref and slots_swapped


def finding_2():
    """Structured *masked* array (numpy.ma) taken through the direct-slice path: a masked element is written as the
    8 bytes of numpy.ma.masked (float64 0.0), whatever the representation code of the channel (here SNORM, 2 bytes).
    The same masked data given inline / in a dict / in a structured masked array with one extra field are written
    (identically) with the underlying values."""

    n = 6
    a = np.arange(n, dtype=np.float64)
    c = (np.arange(n) * 7).astype(np.int16)
    mask_c = [False, False, True, False, False, False]
    specs = [('A', {}), ('C', {})]

    ma_a = np.ma.masked_array(a)
    ma_c = np.ma.masked_array(c, mask=mask_c)

    _, ref = _write(_new_file(specs, inline={'A': ma_a, 'C': ma_c}), 'f2_inline.dlis')
    _, as_dict = _write(_new_file(specs), 'f2_dict.dlis', data={'A': ma_a, 'C': ma_c})

    struct = np.zeros(n, dtype=[('A', np.float64), ('C', np.int16)])
    struct['A'] = a
    struct['C'] = c
    ma_struct = np.ma.masked_array(struct)
    ma_struct.mask['C'] = mask_c
    struct_path, as_struct = _write(_new_file(specs), 'f2_struct.dlis', data=ma_struct)

    # same thing with an extra, unused field: goes through the copying path
    struct_x = np.zeros(n, dtype=[('A', np.float64), ('C', np.int16), ('EXTRA', np.float32)])
    struct_x['A'] = a
    struct_x['C'] = c
    ma_struct_x = np.ma.masked_array(struct_x)
    ma_struct_x.mask['C'] = mask_c
    _, as_struct_x = _write(_new_file(specs), 'f2_struct_x.dlis', data=ma_struct_x)

    others_agree = ref == as_dict == as_struct_x

    # the third FDATA record is 6 bytes longer (8-byte slot instead of a 2-byte one)
    longer = len(as_struct) == len(ref) + 6

    try:
        _curves(struct_path)
        undecodable = False
    except Exception:
        undecodable = True

    return others_agree and as_struct != ref and longer and undecodable


FINDINGS = [
    (finding_1, "structured-array source ignores a permuting dataset_name mapping when the mapped dtype equals the "
                "source dtype (slots hold the wrong data sets; dict/HDF5/inline agree with each other)"),
    (finding_2, "structured masked array with a masked element writes an 8-byte float64 slot for an int16 channel "
                "(undecodable file), while inline/dict/copy-path sources write the underlying value"),
]


if __name__ == '__main__':
    import dliswriter
    assert dliswriter.__file__.startswith('/tmp/hunt/C11/src'), dliswriter.__file__

    for i, (func, description) in enumerate(FINDINGS, start=1):
        try:
            violated = bool(func())
        except Exception as exc:  # a reproduction must not crash the whole run
            violated = False
            description += f" [reproduction raised {type(exc).__name__}: {exc}]"
        print(f"FINDING {i}: {description} -> {'VIOLATED' if violated else 'not reproduced'}")
