"""Reproductions of violations of property C12 (fail-closed writes) in dliswriter.

Run as:  cd /tmp/hunt/C12 && PYTHONPATH=/tmp/hunt/C12/src /venv/bin/python findings.py

Every function builds its input through the public API, lets `DLISFile.write` return normally and then judges
the produced file with something independent of the library (dlisio and/or own parsing of the bytes).
A function returns True if the violation is observed.
"""

import os
import sys
import time
import logging
import tempfile
import warnings
from datetime import datetime, timezone
from fractions import Fraction

import numpy as np

logging.disable(logging.CRITICAL)
warnings.simplefilter('ignore')

from dliswriter import DLISFile, AttrSetup  # noqa: E402
from dlisio import dlis  # noqa: E402

_TMP = tempfile.mkdtemp(prefix='c12_findings_')
_N = [0]


def _path():
    _N[0] += 1
    return os.path.join(_TMP, f'f{_N[0]}.dlis')


def _write(df, **kwargs):
    """Write the file (small output buffer!) and return its path. Any exception propagates."""

    p = _path()
    kwargs.setdefault('output_chunk_size', 2 ** 20)
    df.write(p, **kwargs)
    return p


def _base():
    df = DLISFile()
    lf = df.add_logical_file()
    lf.add_origin('ORIGIN')
    return df, lf


def _simple(n=4):
    df, lf = _base()
    c1 = lf.add_channel('DEPTH', data=np.arange(n, dtype=np.float64))
    c2 = lf.add_channel('X', data=np.arange(n, dtype=np.float32) * 2)
    fr = lf.add_frame('MAIN', channels=(c1, c2))
    return df, lf, fr, (c1, c2)


def _logical_records(path):
    """Own, strict parse of the visible-record / segment framing. Returns (sul, [(type, is_eflr, body), ...])."""

    b = open(path, 'rb').read()
    sul, pos, recs, cur = b[:80], 80, [], None
    while pos < len(b):
        vrl = int.from_bytes(b[pos:pos + 2], 'big')
        assert b[pos + 2:pos + 4] == b'\xff\x01'
        end, q = pos + vrl, pos + 4
        assert end <= len(b)
        while q < end:
            sl, at, ty = int.from_bytes(b[q:q + 2], 'big'), b[q + 2], b[q + 3]
            assert sl >= 16 and sl % 2 == 0 and q + sl <= end
            body = b[q + 4:q + sl]
            if at & 1:
                body = body[:-body[-1]]
            if not at & 0x40:
                assert cur is None
                cur = [ty, bool(at & 0x80), bytearray()]
            cur[2] += body
            if not at & 0x20:
                recs.append((cur[0], cur[1], bytes(cur[2])))
                cur = None
            q += sl
        pos = end
    assert cur is None
    return sul, recs


# ----------------------------------------------------------------------------------------------------------------------

def finding_1():
    """cast_dtype to a narrower integer code: out-of-range integers are wrapped around instead of being refused.

    Required: an exception ("integers outside their code's range").
    Observed: REPRESENTATION-CODE 15 (USHORT), decoded values [44, 255, 112, 5] for the source [300, -1, 70000, 5].
    (Same with structured-array / HDF5 sources, and with unsupported source dtypes: int64 [2**40+5] -> int32 5.)
    Code: utils/source_data_wrappers.py SourceDataWrapper.load_chunk line 180 `chunk[key] = self._data_source[loc][idx]`
    (unchecked unsafe numpy cast); determine_dtypes line 114 takes known_dtypes (= cast_dtype) without looking at values;
    eflr_types/channel.py _set_repr_code_from_data line 186-189 only logs "Data will be cast".
    """

    src = np.array([300, -1, 70000, 5], dtype=np.int32)
    df, lf = _base()
    idx = lf.add_channel('IDX', data=np.arange(4, dtype=np.float64))
    x = lf.add_channel('X', data=src, cast_dtype=np.uint8)
    lf.add_frame('F', channels=(idx, x))
    p = _write(df)  # returns normally
    with dlis.load(p) as (f, *_):
        got = f.frames[0].curves()['X']
    # expected: an exception; observed: [44, 255, 112, 5]
    return got.tolist() != src.tolist() and got.tolist() == [44, 255, 112, 5]


def finding_2():
    """cast_dtype from float to an integer code: fractions, NaN and out-of-range values are silently replaced.

    Required: an exception (none of 0.75, -1.5, NaN, 1e300 is representable as SNORM).
    Observed: decoded [0, -1, 0, 0]; numpy only emits a RuntimeWarning. Variants: complex [1+2j, 3+4j] with
    cast_dtype=float32 -> [1., 3.]; float64 1e300 with cast_dtype=float32 -> inf.
    Code: as finding 1 (source_data_wrappers.py line 180 / 114).
    """

    src = np.array([0.75, -1.5, np.nan, 1e300], dtype=np.float64)
    df, lf = _base()
    idx = lf.add_channel('IDX', data=np.arange(4, dtype=np.float64))
    x = lf.add_channel('X', data=src, cast_dtype=np.int16)
    lf.add_frame('F', channels=(idx, x))
    p = _write(df)
    with dlis.load(p) as (f, *_):
        got = f.frames[0].curves()['X'].astype(np.float64)
    # none of the four values can be represented as SNORM; all four are decoded as some other number
    return bool(np.all(~np.isclose(got, src, equal_nan=True)))


def finding_3():
    """add_no_format_frame_data accepts any object as descriptor: the NOFORM record references no NO-FORMAT object.

    Required: an exception - the data cannot be attributed to a NO-FORMAT object of this logical file.
    Observed: two NOFORM IFLRs whose descriptor references are (0, 0, 'DEPTH') - a CHANNEL - and (0, 0, 'FOREIGN-NF') -
    an object which is nowhere in the file; dlisio: f.noformats == [].
    Code: file/file.py LogicalFile.add_no_format_frame_data (line 1381-1400), iflr_types/no_format_frame_data.py
    NoFormatFrameData.__init__ (no type / membership check); check_objects (line 2113) ignores _no_format_frame_data.
    """

    # (a) descriptor is a ChannelItem; (b) descriptor is a NoFormatItem of another DLISFile (never written here)
    df, lf, fr, chs = _simple()
    other_df, other_lf, _, _ = _simple()
    foreign = other_lf.add_no_format('FOREIGN-NF')
    lf.add_no_format_frame_data(chs[0], 'payload one, payload one')
    lf.add_no_format_frame_data(foreign, 'payload two, payload two')
    p = _write(df)
    _, recs = _logical_records(p)
    noform = [body for ty, is_eflr, body in recs if not is_eflr and ty == 1]
    with dlis.load(p) as (f, *_):
        n_noformat_objects = len(f.noformats)
    # two NOFORM IFLRs were written, but the file has no NO-FORMAT object they could belong to
    return len(noform) == 2 and n_noformat_objects == 0 \
        and noform[0].startswith(b'\x00\x00\x05DEPTH') and noform[1].startswith(b'\x00\x00\x0aFOREIGN-NF')


def finding_4():
    """A DLISFile without any logical file (no origin, no channels, no frames) is written: 80 bytes of SUL only.

    Required: an exception (the library raises for a missing origin / channel / frame once a logical file exists).
    Observed: write returns normally; the file is the bare storage unit label; dlisio finds 0 logical files.
    Code: file/file.py DLISFile.write line 206 / generate_logical_records line 143: all completeness checks are per
    logical file, an empty list of logical files passes vacuously.
    """

    df = DLISFile()
    p = _write(df)
    with dlis.load(p) as files:
        n_logical_files = len(files)
    return os.path.getsize(p) == 80 and n_logical_files == 0


def finding_5():
    """An explicit origin_reference=0 is silently replaced by another number (origin: next free; objects: default).

    Required: origin reference 0 in the file (legal; the library itself gives 0 to a first origin) or an exception.
    Observed (dlisio): origin O2 has reference 1; channel C and frame F have reference 5.
    Code: file/file.py: every add_* does `origin_reference=origin_reference or self.default_origin_reference`
    (e.g. lines 763, 1130); add_origin line 1549 `origin_reference or new_origin_ref`; next_available_origin_ref
    line 1407 `if origin_reference:` - truthiness instead of `is None`.
    """

    df = DLISFile()
    lf = df.add_logical_file()
    lf.add_origin('O1', origin_reference=5)
    lf.add_origin('O2', origin_reference=0)
    c = lf.add_channel('C', data=np.arange(3.), origin_reference=0)
    lf.add_frame('F', channels=(c,), origin_reference=0)
    p = _write(df)
    with dlis.load(p) as (f, *_):
        o2 = [o for o in f.origins if o.name == 'O2'][0].origin
        ch = f.channels[0].origin
        fr = f.frames[0].origin
    return (o2, ch, fr) == (1, 5, 5)   # the specification says 0 for all three


def finding_6():
    """Sequence numbers of the SUL (any object) and of the file header (bool) are written without validation.

    Required: an exception (RP66: ASCII representation of a positive integer).
    Observed: first 4 bytes of the file b'  AB', b'  -1', b'   0', b'None', b'True' (dlisio storage_label(): "storage
    unit label inconsistent with specification"); FILE-HEADER SEQUENCE-NUMBER decodes as 'True'.
    Code: logical_record/misc/storage_unit_label.py __init__ line 41 (no check), represent_as_bytes line 79
    `get_ascii_bytes(str(self.sequence_number), 4)`; eflr_types/file_header.py line 48-51 (bool passes isinstance int).
    """

    bad = []
    for sn in ('AB', -1, 0, None, True):
        df = DLISFile(sul_sequence_number=sn)
        lf = df.add_logical_file()
        lf.add_origin('O')
        c = lf.add_channel('C', data=np.arange(3.))
        lf.add_frame('F', channels=(c,))
        p = _write(df)
        field = open(p, 'rb').read(4).decode('ascii').strip()
        if not (field.isdigit() and int(field) > 0):   # RP66: ASCII representation of a positive integer
            bad.append(field)

    df = DLISFile()
    lf = df.add_logical_file(fh_sequence_number=True)
    lf.add_origin('O')
    c = lf.add_channel('C', data=np.arange(3.))
    lf.add_frame('F', channels=(c,))
    p = _write(df)
    with dlis.load(p) as (f, *_):
        fh_seq = f.fileheader.sequencenr
    return bad == ['AB', '-1', '0', 'None', 'True'] and fh_seq == 'True'


def finding_7():
    """Calibration-measurement: 'measurement'/'reference' are not checked against 'dimension'; ragged lists flattened.

    Required: an exception, as for the sibling attributes (standard=[[1,2],[3,4]], dimension=[3] -> RuntimeError).
    Observed: M1: DIMENSION=[3] with 4 flat MEASUREMENT values; M2: DIMENSION=[2] with 3 flat REFERENCE values.
    Code: eflr_types/calibration_measurement.py _run_checks_and_set_defaults line 55-68: `controlled_attrs` lacks
    self.measurement and self.reference (both multidimensional, both named in the 'dimension' docstring).
    """

    df, lf, fr, chs = _simple()
    lf.add_calibration_measurement('M1', dimension=[3], measurement=[[1, 2], [3, 4]])
    lf.add_calibration_measurement('M2', dimension=[2], reference=[[1, 2], [3]])
    p = _write(df)
    with dlis.load(p) as (f, *_):
        m1 = f.object('CALIBRATION-MEASUREMENT', 'M1')
        m2 = f.object('CALIBRATION-MEASUREMENT', 'M2')
        d1, v1 = list(m1.attic['DIMENSION'].value), list(m1.attic['MEASUREMENT'].value)
        d2, v2 = list(m2.attic['DIMENSION'].value), list(m2.attic['REFERENCE'].value)
    # 4 elements cannot be samples of 3 elements; 3 elements cannot be samples of 2 elements
    # (the same input in 'standard', 'plus_tolerance', ... raises a RuntimeError)
    return d1 == [3] and len(v1) == 4 and d2 == [2] and len(v2) == 3


def finding_8():
    """Renaming an item to the name of another one yields two objects with the same OBNAME (copy number is kept).

    Required: a well-formed file (distinct copy numbers) or an exception.
    Observed: the CHANNEL set holds two objects (origin 0, copy 0, 'A'); frames F1 and F2 both reference (0, 0, 'A').
    Code: core/eflr/eflr_item.py line 69: copy number computed only in __init__; __setattr__ (line 162-166) supports
    renaming (drops the cached obname) but does not recompute it.
    """

    df, lf = _base()
    i1 = lf.add_channel('I1', data=np.arange(3.))
    i2 = lf.add_channel('I2', data=np.arange(3.))
    a = lf.add_channel('A', data=np.arange(3.) + 10)
    b = lf.add_channel('B', data=np.arange(3.) + 20)
    lf.add_frame('F1', channels=(i1, a))
    lf.add_frame('F2', channels=(i2, b))
    b.name = 'A'
    p = _write(df)
    with dlis.load(p) as (f, *_):
        names = [(c.origin, c.copynumber, c.name) for c in f.channels]
    return names.count((0, 0, 'A')) == 2


def finding_9():
    """IDENT attributes without a converter write str() of anything: bytes become "b'...'", floats their repr.

    Required: an exception (wrong type) or a faithful encoding.
    Observed: DIRECTION decodes as the 13 characters b'INCREASING' (with b and quotes), CONSUMER-NAME as '12.5'.
    Affected: Frame.direction, Calibration.method, Origin.file_set_name/file_type/name_space_name, Message.type,
    NoFormat.consumer_name.
    Code: core/attribute/subtypes.py IdentAttribute (line 346-361, no default converter, unlike TextAttribute) and
    utils/internal/struct_writer.py write_struct_ident line 88 `value_str = str(value)`.
    """

    df, lf = _base()
    c = lf.add_channel('C', data=np.arange(3.))
    lf.add_frame('F', channels=(c,), index_type='TIME', direction=b'INCREASING')
    lf.add_no_format('NF', consumer_name=12.5)
    p = _write(df)
    with dlis.load(p) as (f, *_):
        direction = f.frames[0].direction
        consumer_name = f.object('NO-FORMAT', 'NF').consumer_name
    return direction == "b'INCREASING'" and consumer_name == '12.5'


def finding_10():
    """STATUS accepts fractional numbers which are not Python floats (numpy.float32, Fraction) and writes 0/1.

    Required: an exception (status=0.5 as Python float raises "Status cannot be a fraction").
    Observed: STATUS 0 for numpy.float32(0.5), STATUS 1 for Fraction(3, 2).
    Code: core/attribute/subtypes.py StatusAttribute.convert_status line 309 `isinstance(val, float) and val % 1`.
    """

    df, lf, fr, chs = _simple()
    lf.add_equipment('EQ1', status=np.float32(0.5))
    lf.add_tool('T1', status=Fraction(3, 2))
    p = _write(df)
    with dlis.load(p) as (f, *_):
        s1 = f.object('EQUIPMENT', 'EQ1').attic['STATUS'].value
        s2 = f.object('TOOL', 'T1').attic['STATUS'].value
    # (status=0.5 as a Python float raises "Status cannot be a fraction")
    return list(s1) == [0] and list(s2) == [1]


def finding_11():
    """Non-ASCII digit strings in Parameter values / Axis coordinates are written as ASCII numbers, not refused.

    Required: an exception (non-ASCII text; values=['\u00e9'] does raise UnicodeEncodeError at write).
    Observed: VALUES = [3] (SLONG) for '\u0663'; COORDINATES = [12] for full-width '12'.
    Code: utils/internal/value_checkers.py convert_numeric line 38-41 (int()/float() accept any Unicode decimal digits),
    used via convert_maybe_numeric by ParameterItem.values and AxisItem.coordinates.
    """

    df, lf, fr, chs = _simple()
    lf.add_parameter('P', values=['٣'])                 # ARABIC-INDIC DIGIT THREE
    lf.add_axis('AX', coordinates=['１２'])        # FULLWIDTH DIGITS '12'
    p = _write(df)
    with dlis.load(p) as (f, *_):
        pv = list(f.object('PARAMETER', 'P').attic['VALUES'].value)
        av = list(f.object('AXIS', 'AX').attic['COORDINATES'].value)
    return pv == [3] and av == [12]


def finding_12():
    """The DTIME struct cache ignores datetime.fold: the second of two DST-ambiguous local times is written wrong.

    Required: naive date-times are converted to UTC by the library, so Z2.MINIMUM must be 2021-10-31 01:30 (GMT).
    Observed: both zones decode as 2021-10-31 00:30: the datetimes compare and hash equal, so _write_struct(DTIME, ...)
    returns the cached bytes of the first one. (Process time zone Europe/Berlin, set here via TZ + time.tzset().)
    Code: utils/internal/struct_writer.py line 175 `@lru_cache(..., typed=True)` on _write_struct together with
    write_struct_dtime line 54 `date_time.astimezone(timezone.utc)`, whose result depends on fold.
    """

    old_tz = os.environ.get('TZ')
    os.environ['TZ'] = 'Europe/Berlin'
    time.tzset()
    try:
        first = datetime(2021, 10, 31, 2, 30, fold=0)    # 00:30 UTC
        second = datetime(2021, 10, 31, 2, 30, fold=1)   # 01:30 UTC
        if first.astimezone(timezone.utc) == second.astimezone(timezone.utc):
            return False  # no time zone data on this machine
        df, lf, fr, chs = _simple()
        lf.add_zone('Z1', domain='TIME', minimum=first)
        lf.add_zone('Z2', domain='TIME', minimum=second)
        p = _write(df)
        with dlis.load(p) as (f, *_):
            z1 = f.object('ZONE', 'Z1').minimum
            z2 = f.object('ZONE', 'Z2').minimum
        expected2 = second.astimezone(timezone.utc).replace(tzinfo=None)
        return z1 == datetime(2021, 10, 31, 0, 30) and z2 == z1 and z2 != expected2
    finally:
        if old_tz is None:
            del os.environ['TZ']
        else:
            os.environ['TZ'] = old_tz
        time.tzset()


def finding_13():
    """File header values changed after creation are not validated again: sequence number -3 is written.

    Required: an exception (fh_sequence_number=-3 at creation raises a ValueError).
    Observed: FILE-HEADER SEQUENCE-NUMBER decodes as '-3'.
    Code: eflr_types/file_header.py: checks only in __init__ (line 48-51); _make_attrs_bytes line 103 writes
    str(self.sequence_number).
    """

    df, lf, fr, chs = _simple()
    lf.file_header.sequence_number = -3     # (fh_sequence_number=-3 at creation raises a ValueError)
    p = _write(df)
    with dlis.load(p) as (f, *_):
        seq = f.fileheader.sequencenr
    return seq == '-3'


FINDINGS = [
    (finding_1, "cast_dtype to a narrower integer type wraps out-of-range integers around (300 -> 44) instead of raising"),
    (finding_2, "cast_dtype float -> integer silently truncates fractions and turns NaN / 1e300 into 0"),
    (finding_3, "add_no_format_frame_data takes any item as descriptor; NOFORM records referencing no NO-FORMAT object are written"),
    (finding_4, "a DLISFile with no logical file at all is written normally as a bare 80-byte storage unit label"),
    (finding_5, "an explicit origin_reference=0 (origin, channel, frame) is silently replaced by another origin reference"),
    (finding_6, "SUL sequence number ('AB', -1, 0, None, True) and file-header sequence number True are written unvalidated"),
    (finding_7, "calibration-measurement 'measurement'/'reference' contradicting 'dimension' (or ragged) are flattened and written"),
    (finding_8, "renaming a channel to an existing name writes two CHANNEL objects with identical OBNAME (0, 0, 'A')"),
    (finding_9, "IDENT attributes without converter write str(value): bytes b'INCREASING' -> \"b'INCREASING'\", 12.5 -> '12.5'"),
    (finding_10, "STATUS accepts numpy.float32(0.5) / Fraction(3, 2) and writes 0 / 1 (float 0.5 is refused)"),
    (finding_11, "non-ASCII digit strings in Parameter values / Axis coordinates are written as ASCII integers instead of raising"),
    (finding_12, "DTIME struct cache ignores datetime.fold: a DST-ambiguous local time is written with the wrong UTC hour"),
    (finding_13, "file-header sequence_number changed after creation to -3 is written without validation"),
]


if __name__ == '__main__':
    sys.stderr.flush()
    saved_fd = os.dup(2)
    devnull_fd = os.open(os.devnull, os.O_WRONLY)
    for i, (func, description) in enumerate(FINDINGS, start=1):
        os.dup2(devnull_fd, 2)   # silence the progress bars (they write to the stderr file descriptor)
        try:
            observed = bool(func())
        except Exception as exc:  # the library raised (= property held) or the check itself failed
            observed = False
            description += f" [{type(exc).__name__}: {exc}]"
        finally:
            sys.stderr.flush()
            os.dup2(saved_fd, 2)
        print(f"FINDING {i}: {description} -> {'VIOLATED' if observed else 'not reproduced'}")
