"""Reproductions of violations of property C13 (frame index metadata is truthful for the rows written).

Run as:  cd /tmp/hunt/C13 && PYTHONPATH=/tmp/hunt/C13/src /venv/bin/python findings.py

Every finding builds a file through the public API, writes it, and judges the result with dlisio (the decoded
FRAME attributes vs. the decoded index curve) - nothing from dliswriter is used for the verdict.
"""

import logging
import math
import os
import tempfile
import warnings

import numpy as np
import dlisio

from dliswriter import DLISFile

logging.disable(logging.CRITICAL)
warnings.filterwarnings('ignore')
dlisio.common.set_encodings(['latin1'])

_TMP = tempfile.mkdtemp(prefix='c13_')


def _make(index_data, index_type='BOREHOLE-DEPTH', cast_dtype=None, **frame_kwargs):
    """A DLISFile with one logical file and one frame: index channel 'IDX' + one more channel."""

    df = DLISFile()
    lf = df.add_logical_file()
    lf.add_origin('ORIGIN')
    ch_kwargs = {} if cast_dtype is None else {'cast_dtype': cast_dtype}
    idx = lf.add_channel('IDX', data=index_data, units='m', **ch_kwargs)
    other = lf.add_channel('OTHER', data=np.arange(len(index_data), dtype=np.float64))
    fr = lf.add_frame('FRAME', channels=(idx, other), index_type=index_type, **frame_kwargs)
    return df, fr


def _write_and_read(df, **write_kwargs):
    """Write the file; decode it with dlisio; return the frame's index metadata and the index curve as written."""

    fd, path = tempfile.mkstemp(suffix='.dlis', dir=_TMP)
    os.close(fd)
    try:
        df.write(path, output_chunk_size=2 ** 20, **write_kwargs)
        with dlisio.dlis.load(path) as (lf, *_):
            fr = lf.frames[0]
            rows = np.array(fr.curves()[fr.channels[0].name])
            return dict(index_min=fr.index_min, index_max=fr.index_max, spacing=fr.spacing,
                        direction=fr.direction, rows=rows)
    finally:
        os.remove(path)


def finding_1():
    """Explicit values given (through the attributes' public .value setter) after a first write are thrown away."""

    df, fr = _make(np.arange(10, dtype=np.float64))
    _write_and_read(df)                 # first write: INDEX-MIN/-MAX/SPACING derived from the data (0, 9, 1)

    fr.index_min.value = -5             # now the user supplies the values explicitly
    fr.index_max.value = 100
    fr.spacing.value = 7
    r = _write_and_read(df)             # second write of the same specification

    # required: -5, 100, 7 (written unchanged); observed: 0, 9, 1
    return (r['index_min'], r['index_max'], r['spacing']) != (-5, 100, 7)


def finding_2():
    """With a cast_dtype on the index channel, the metadata describes the un-cast source data, not the written rows."""

    df, fr = _make(np.array([0.5, 1.7, 2.9, 4.1]), cast_dtype=np.int32)
    r = _write_and_read(df)
    rows = r['rows']                    # rows actually written: [0, 1, 2, 4] (int32)
    diffs = np.diff(rows.astype(np.int64))

    wrong_min = r['index_min'] != rows.min()            # 0.5 vs 0
    wrong_max = r['index_max'] != rows.max()            # 4.1 vs 4
    # written differences are 1, 1, 2 - far outside the tolerance ((1 - 2/1)**2 = 1 >= 0.001) - yet SPACING = 1.2
    spacing_on_non_uniform = r['spacing'] is not None and len(set(diffs.tolist())) > 1

    # second flavour: wrap-around; written rows are [255, 0, 1, 2], INDEX-MIN says -1, INDEX-MAX 2, SPACING 1
    df2, _ = _make(np.array([-1., 0., 1., 2.]), cast_dtype=np.uint8)
    r2 = _write_and_read(df2)
    wrap = r2['index_min'] != r2['rows'].min() or r2['index_max'] != r2['rows'].max()

    return wrong_min and wrong_max and spacing_on_non_uniform and wrap


def finding_3():
    """A numpy masked array as index data: masked rows are written, but ignored in INDEX-MAX and SPACING."""

    idx = np.ma.masked_array([0., 1., 2., 3., 4., 500.], mask=[0, 0, 0, 0, 0, 1])
    df, fr = _make(idx)
    r = _write_and_read(df)
    rows = r['rows']                    # written: [0, 1, 2, 3, 4, 500]

    wrong_max = r['index_max'] != rows.max()                            # 4 vs 500
    spacing_on_non_uniform = r['spacing'] is not None and len(set(np.diff(rows).tolist())) > 1   # 1.0; diffs 1,1,1,1,496
    return wrong_max and spacing_on_non_uniform


def finding_4():
    """A NaN anywhere in the index makes INDEX-MIN and INDEX-MAX NaN instead of the extreme index values written."""

    df, fr = _make(np.array([0., 1., np.nan, 3., 4.]))
    r = _write_and_read(df)
    rows = r['rows']
    # the smallest / largest index values written are 0 and 4; NaN equals nothing (not even the NaN in the rows)
    return (math.isnan(r['index_min']) and math.isnan(r['index_max'])
            and np.nanmin(rows) == 0 and np.nanmax(rows) == 4)


def finding_5():
    """Differences of a float32 index are computed in float32: they overflow to inf, which is written as SPACING."""

    df, fr = _make(np.array([-3e38, 3e38], dtype=np.float32))
    r = _write_and_read(df)
    rows = r['rows'].astype(np.float64)
    true_difference = rows[1] - rows[0]     # ~6e38, finite, representable in the FDOUBL the SPACING is written in
    return r['spacing'] is not None and math.isinf(r['spacing']) and math.isfinite(true_difference)


FINDINGS = [
    (finding_1, "INDEX-MIN/INDEX-MAX/SPACING set explicitly by the user after a previous write are discarded and "
                "replaced by data-derived values at the next write"),
    (finding_2, "with cast_dtype on the index channel, INDEX-MIN/-MAX/SPACING are computed from the un-cast source data "
                "and do not match the (truncated / wrapped) rows actually written"),
    (finding_3, "for a numpy masked array index, masked rows are written but left out of INDEX-MAX and SPACING"),
    (finding_4, "a NaN in the index turns INDEX-MIN and INDEX-MAX into NaN instead of the min/max index written"),
    (finding_5, "SPACING of a float32 index is computed in float32 and overflows to inf although the true difference "
                "is finite"),
]


if __name__ == '__main__':
    for n, (func, description) in enumerate(FINDINGS, start=1):
        try:
            violated = bool(func())
        except Exception as exc:  # a finding which cannot be run is not reproduced
            violated = False
            description += f" [error: {type(exc).__name__}: {exc}]"
        print(f"FINDING {n}: {description} -> {'VIOLATED' if violated else 'not reproduced'}")
