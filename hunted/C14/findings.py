"""C14 - output depends only on the current specification, not on process history: reproductions of violations.

Run as:  cd /tmp/hunt/C14 && PYTHONPATH=/tmp/hunt/C14/src /venv/bin/python findings.py
"""

import contextlib
import logging
import os
import subprocess
import sys
import tempfile
import time
from datetime import datetime, timezone

import numpy as np
import dlisio

from dliswriter import DLISFile

logging.disable(logging.CRITICAL)
dlisio.common.set_encodings(['latin1'])

HERE = os.path.dirname(os.path.abspath(__file__))
SRC = os.path.join(HERE, 'src')
CT = datetime(2020, 1, 1, tzinfo=timezone.utc)  # fixed creation time (the default is 'now')


# ----------------------------------------------------------------------------------------------------- helpers
def write_bytes(df, **kwargs):
    """Write the DLISFile to a temporary file; return the bytes of that file."""

    fd, path = tempfile.mkstemp(suffix='.dlis')
    os.close(fd)
    try:
        with quiet_stderr():  # (progress bar)
            df.write(path, output_chunk_size=2 ** 20, **kwargs)
        with open(path, 'rb') as f:
            return f.read()
    finally:
        os.remove(path)


@contextlib.contextmanager
def quiet_stderr():
    """Send what is written to file descriptor 2 (the progress bar of the writer) to the null device."""

    sys.stderr.flush()
    saved = os.dup(2)
    devnull = os.open(os.devnull, os.O_WRONLY)
    try:
        os.dup2(devnull, 2)
        yield
    finally:
        sys.stderr.flush()
        os.dup2(saved, 2)
        os.close(saved)
        os.close(devnull)


def base_file(creation_time=CT):
    """A DLISFile with one logical file and a fully specified (deterministic) origin."""

    df = DLISFile()
    lf = df.add_logical_file()
    lf.add_origin('O', file_set_number=1, creation_time=creation_time)
    return df, lf


@contextlib.contextmanager
def loaded(bts):
    fd, path = tempfile.mkstemp(suffix='.dlis')
    os.close(fd)
    with open(path, 'wb') as f:
        f.write(bts)
    try:
        with dlisio.dlis.load(path) as files:
            yield files[0]
    finally:
        os.remove(path)


def set_types_in_order(bts):
    """Own minimal parser: the set types of the EFLRs of the file, in the order they come in the file."""

    out = []
    pos = 80  # storage unit label
    while pos < len(bts):
        vr_end = pos + int.from_bytes(bts[pos:pos + 2], 'big')
        seg = pos + 4
        while seg < vr_end:
            seg_len = int.from_bytes(bts[seg:seg + 2], 'big')
            seg_attr = bts[seg + 2]
            if seg_attr & 0x80 and not seg_attr & 0x40:  # EFLR, first segment
                body = bts[seg + 4:seg + seg_len]
                out.append(body[2:2 + body[1]].decode('ascii'))  # set component: descriptor, IDENT type
            seg += seg_len
        pos = vr_end
    return out


def fresh_process_bytes(code):
    """Run the code (which must define 'df') in a fresh interpreter; return the bytes of the file it writes."""

    fd, path = tempfile.mkstemp(suffix='.dlis')
    os.close(fd)
    prelude = (
        "import logging, numpy as np\n"
        "from datetime import datetime, timezone\n"
        "from dliswriter import DLISFile\n"
        "logging.disable(logging.CRITICAL)\n"
    )
    env = dict(os.environ, PYTHONPATH=SRC)
    try:
        subprocess.run([sys.executable, '-c', prelude + code + f"\ndf.write({path!r}, output_chunk_size=2**20)\n"],
                       env=env, check=True, capture_output=True)
        with open(path, 'rb') as f:
            return f.read()
    finally:
        os.remove(path)


# ---------------------------------------------------------------------------------------------------- findings
def finding_1():
    """Two aware datetimes which differ only in 'fold' share one entry of the process-wide struct cache."""

    from zoneinfo import ZoneInfo
    tz = ZoneInfo('Europe/Oslo')

    def make(fold):
        df, lf = base_file(datetime(2023, 10, 29, 2, 30, tzinfo=tz, fold=fold))  # 02:30 happens twice that night
        ch = lf.add_channel('X', data=np.arange(3.))
        lf.add_frame('F', channels=[ch])
        return df

    write_bytes(make(0))            # some other file, written earlier in the process: 02:30 CEST = 00:30 UTC
    later = write_bytes(make(1))    # the file in question: 02:30 CET = 01:30 UTC

    fresh = fresh_process_bytes(
        "from zoneinfo import ZoneInfo\n"
        "df = DLISFile(); lf = df.add_logical_file()\n"
        "lf.add_origin('O', file_set_number=1, creation_time=datetime(2023, 10, 29, 2, 30, "
        "tzinfo=ZoneInfo('Europe/Oslo'), fold=1))\n"
        "ch = lf.add_channel('X', data=np.arange(3.)); lf.add_frame('F', channels=[ch])\n"
    )

    with loaded(later) as f:
        t_later = f.origins[0].creation_time
    with loaded(fresh) as f:
        t_fresh = f.origins[0].creation_time

    return later != fresh and t_fresh == datetime(2023, 10, 29, 1, 30) and t_later == datetime(2023, 10, 29, 0, 30)


def finding_2():
    """The cached encoding of a naive datetime survives a change of the local time zone of the process."""

    def make():
        df, lf = base_file(datetime(2021, 6, 1, 12, 0, 0))  # naive: local time
        ch = lf.add_channel('X', data=np.arange(3.))
        lf.add_frame('F', channels=[ch])
        return df

    def make_other_second():
        df, lf = base_file(datetime(2021, 6, 1, 12, 0, 1))  # a value which has not been encoded before
        ch = lf.add_channel('X', data=np.arange(3.))
        lf.add_frame('F', channels=[ch])
        return df

    old_tz = os.environ.get('TZ')
    try:
        os.environ['TZ'] = 'UTC0'
        time.tzset()
        write_bytes(make())                     # history: the same value written under another local time zone
        os.environ['TZ'] = 'JST-9'              # (POSIX form of UTC+9)
        time.tzset()
        later = write_bytes(make())             # 12:00:00 local = 03:00:00 UTC expected
        control = write_bytes(make_other_second())   # 12:00:01 local -> 03:00:01 UTC (not cached: right)
    finally:
        if old_tz is None:
            os.environ.pop('TZ', None)
        else:
            os.environ['TZ'] = old_tz
        time.tzset()

    with loaded(later) as f:
        t_later = f.origins[0].creation_time
    with loaded(control) as f:
        t_control = f.origins[0].creation_time

    return t_control == datetime(2021, 6, 1, 3, 0, 1) and t_later == datetime(2021, 6, 1, 12, 0, 0)


def finding_3():
    """Merely reading LogicalFile.frames before the first channel is added changes the order of the sets."""

    def make(peek):
        df, lf = base_file()
        if peek:
            assert lf.frames == []   # read-only property
        ch = lf.add_channel('A', data=np.arange(3.))
        lf.add_frame('F', channels=[ch])
        return df

    plain = write_bytes(make(False))
    peeked = write_bytes(make(True))

    return (plain != peeked
            and set_types_in_order(plain) == ['FILE-HEADER', 'ORIGIN', 'CHANNEL', 'FRAME']
            and set_types_in_order(peeked) == ['FILE-HEADER', 'ORIGIN', 'FRAME', 'CHANNEL'])


def finding_4():
    """A write rejected for lack of channels moves the channel set in front of sets which are added before it."""

    def make(early_write):
        df, lf = base_file()
        if early_write:
            try:
                write_bytes(df)
            except RuntimeError:   # No channels defined for the file
                pass
            else:
                return None
        lf.add_zone('Z', domain='TIME')
        ch = lf.add_channel('A', data=np.arange(3.))
        lf.add_frame('F', channels=[ch])
        return df

    plain = write_bytes(make(False))
    after_rejected_write = write_bytes(make(True))

    return (plain != after_rejected_write
            and set_types_in_order(plain) == ['FILE-HEADER', 'ORIGIN', 'ZONE', 'CHANNEL', 'FRAME']
            and set_types_in_order(after_rejected_write) == ['FILE-HEADER', 'ORIGIN', 'CHANNEL', 'ZONE', 'FRAME'])


def finding_5():
    """A rejected add_zone call in one logical file makes the (valid) zones of another logical file unwritable."""

    def make(with_rejected_call):
        df = DLISFile()
        lf1 = df.add_logical_file(fh_id='A')
        lf1.add_origin('O1', file_set_number=1, creation_time=CT, set_name='O1')
        ch = lf1.add_channel('X', data=np.arange(3.), set_name='C1')
        lf1.add_frame('F', channels=[ch], set_name='F1')
        if with_rejected_call:
            try:
                lf1.add_zone('Z', domain='NOT-A-DOMAIN')
            except ValueError:
                pass
            else:
                return None
        lf2 = df.add_logical_file(fh_id='B')
        lf2.add_origin('O2', file_set_number=1, creation_time=CT, set_name='O2')
        ch = lf2.add_channel('X', data=np.arange(3.), set_name='C2')
        lf2.add_frame('F', channels=[ch], set_name='F2')
        lf2.add_zone('Z', domain='TIME')
        return df

    plain = write_bytes(make(False))
    with loaded(plain) as f:
        pass  # (the plain file is fine)

    try:
        after_rejected = write_bytes(make(True))
    except RuntimeError as exc:
        return 'shared between two logical files' in str(exc)
    return after_rejected != plain


def finding_6():
    """Values assigned to data-derived attributes after a write are silently discarded by the next write."""

    df, lf = base_file()
    ch = lf.add_channel('X', data=np.arange(3.))
    fr = lf.add_frame('F', channels=[ch], index_type='BOREHOLE-DEPTH')
    write_bytes(df)                   # derives index_min=0, index_max=2, spacing=1, element_limit=[1]

    fr.index_min.value = -5.0         # the user now states these explicitly
    fr.index_max.value = 99.0
    fr.spacing.value = 7.0
    ch.element_limit.value = [4]
    second = write_bytes(df)

    df, lf = base_file()              # the same specification, built directly
    ch = lf.add_channel('X', data=np.arange(3.), element_limit=[4])
    lf.add_frame('F', channels=[ch], index_type='BOREHOLE-DEPTH', index_min=-5.0, index_max=99.0, spacing=7.0)
    direct = write_bytes(df)

    with loaded(second) as f:
        got = (f.frames[0].index_min, f.frames[0].index_max, f.frames[0].spacing, f.channels[0].element_limit)
    with loaded(direct) as f:
        exp = (f.frames[0].index_min, f.frames[0].index_max, f.frames[0].spacing, f.channels[0].element_limit)

    return second != direct and exp == (-5.0, 99.0, 7.0, [4]) and got == (0.0, 2.0, 1.0, [1])


def finding_7():
    """The default long name of a channel (= its name) is frozen by the first write; a rename does not reach it."""

    df, lf = base_file()
    ch = lf.add_channel('OLD', data=np.arange(3.))
    lf.add_frame('F', channels=[ch])
    write_bytes(df)
    ch.name = 'NEW'
    second = write_bytes(df)

    df, lf = base_file()
    ch = lf.add_channel('NEW', dataset_name='OLD', data=np.arange(3.))
    lf.add_frame('F', channels=[ch])
    direct = write_bytes(df)

    with loaded(second) as f:
        got = (f.channels[0].name, f.channels[0].long_name)
    with loaded(direct) as f:
        exp = (f.channels[0].name, f.channels[0].long_name)

    return second != direct and exp == ('NEW', 'NEW') and got == ('NEW', 'OLD')


def finding_8():
    """A channel taken out of its frame keeps dimension, element limit and repr. code of the data written before."""

    def make(both):
        df, lf = base_file()
        a = lf.add_channel('A', data=np.arange(3.))
        b = lf.add_channel('B', data=np.zeros((3, 4), dtype=np.float32), long_name='B')
        fr = lf.add_frame('F', channels=[a, b] if both else [a])
        return df, fr, a

    df, fr, a = make(True)
    write_bytes(df)
    fr.channels.value = [a]
    second = write_bytes(df)

    direct = write_bytes(make(False)[0])

    def describe(bts):
        with loaded(bts) as f:
            b = f.object('CHANNEL', 'B')
            return b.dimension, b.element_limit, b.reprc

    return second != direct and describe(direct) == ([], [], None) and describe(second) == ([4], [4], 2)


def finding_9():
    """The dimension a parameter got from its values at the first write makes a later change of the values fail."""

    def make(values):
        df, lf = base_file()
        ch = lf.add_channel('X', data=np.arange(3.))
        lf.add_frame('F', channels=[ch])
        z = lf.add_zone('Z', domain='TIME')
        p = lf.add_parameter('P', values=values, zones=[z])
        return df, p

    df, p = make([1.0])
    write_bytes(df)
    p.values.value = [[1.0, 2.0]]

    direct = write_bytes(make([[1.0, 2.0]])[0])
    with loaded(direct) as f:
        ok = f.parameters[0].dimension == [2] and list(f.parameters[0].values[0]) == [1.0, 2.0]

    try:
        second = write_bytes(df)
    except RuntimeError as exc:
        return ok and 'does not match the specified dimensionality' in str(exc)
    return ok and second != direct


def finding_10():
    """Copy numbers are fixed when an item is created: after a rename they differ from those of a direct build."""

    df, lf = base_file()
    c1 = lf.add_channel('X', data=np.arange(3.))
    c2 = lf.add_channel('X', data=np.arange(3.) + 1)
    lf.add_frame('F', channels=[c1, c2])
    c1.name = 'Y'
    renamed = write_bytes(df)

    df, lf = base_file()
    c1 = lf.add_channel('Y', dataset_name='X', data=np.arange(3.))
    c2 = lf.add_channel('X', dataset_name='X__1', data=np.arange(3.) + 1)
    lf.add_frame('F', channels=[c1, c2])
    direct = write_bytes(df)

    def names(bts):
        with loaded(bts) as f:
            return sorted((c.name, c.copynumber) for c in f.channels)

    return renamed != direct and names(direct) == [('X', 0), ('Y', 0)] and names(renamed) == [('X', 1), ('Y', 0)]


DESCRIPTIONS = {
    1: "an aware datetime with fold=1 is written with the cached bytes of its fold=0 twin from an earlier file",
    2: "a naive datetime keeps the UTC conversion cached under the previous local time zone of the process",
    3: "reading LogicalFile.frames before adding channels puts the FRAME set in front of the CHANNEL set",
    4: "a write rejected for lack of channels changes the order of the sets of the later, complete file",
    5: "a rejected add_zone in logical file 1 makes a valid zone of logical file 2 fail at write (set leaked)",
    6: "explicit index_min/index_max/spacing/element_limit set after a write are discarded by the next write",
    7: "channel long-name default is frozen by the first write and is stale after the channel is renamed",
    8: "a channel removed from its frame keeps dimension/element limit/repr. code derived at the previous write",
    9: "parameter dimension derived at the first write makes the write of changed values raise",
    10: "copy number computed at creation stays after a rename (X;1 instead of X;0 of a direct build)",
}


if __name__ == '__main__':
    for n in sorted(DESCRIPTIONS):
        try:
            violated = bool(globals()[f'finding_{n}']())
        except Exception as exc:  # a reproduction which breaks is reported as not reproduced
            violated = False
            print(f"(finding {n} raised {type(exc).__name__}: {exc})")
        print(f"FINDING {n}: {DESCRIPTIONS[n]} -> {'VIOLATED' if violated else 'not reproduced'}")
