"""C15 - Writability never hinges on byte-size coincidences: reproductions.

Run as:  cd /tmp/hunt/C15 && PYTHONPATH=/tmp/hunt/C15/src /venv/bin/python findings.py

All three findings have one root cause: DLISFile.generate_logical_records() declares a number of logical records
(len of the SizedGenerator) which is smaller than the number of records the generator really yields (file headers
of the 2nd, 3rd... logical file and item-less sets are not counted), and DLISWriter.write_logical_records() passes
that number as `max_value` to progressbar, which raises ValueError as soon as it is *asked* to show a value above
max_value. Whether/when it is asked depends on the record count (values 2**k - 1 while records are written quickly)
and on the time each record takes to be written, i.e. on the record sizes.

Code locations:
  * src/dliswriter/file/file.py, DLISFile.generate_logical_records, lines 168-177: declared length
    n = EFLR *items* of the physical file + frame-data rows + no-format records.
  * src/dliswriter/file/file.py, DLISFile.generator, lines 113-128: really yields, per logical file,
    1 file header + 1 record per EFLR *set* (item-less ones included) + rows + no-format records, i.e.
    yielded = n + (logical files) + (item-less sets) - sum(items_in_set - 1).
  * src/dliswriter/file/writer.py, DLISWriter.write_logical_records, line 241:
    `for lr in progressbar(logical_records, max_value=len(logical_records))`; progressbar 4.6.0 raises
    ValueError('Value v is too large. Should be between 0 and n') when update(v) is called with v > n. Its update
    gate calls update() only at values 1, 3, 7, 15, ... (2**k - 1) while records come faster than one per 50 ms,
    and at every value once they are slower. The exception skips output.pass_bytes_to_writer() (line 246):
    only the 80-byte SUL (or a truncated file) is left on disk.
  * item-less sets: every LogicalFile.add_* registers the set (get_or_make_set + try_add_set, e.g. file.py
    lines 2094-2097) before the item constructor can reject the arguments.
"""

import logging
import os
import struct
import tempfile

import numpy as np

from dliswriter import DLISFile

logging.disable(logging.CRITICAL)


def _write(df: DLISFile) -> tuple:
    """Write the file; return (exception or None, file name)."""

    fn = tempfile.mktemp(suffix='.dlis')
    try:
        df.write(fn, output_chunk_size=2 ** 20)
    except Exception as exc:  # noqa
        return exc, fn
    return None, fn


def _count_logical_records(fn: str) -> int:
    """Independent count of the complete logical records found in the file (own parsing of VRs and segments)."""

    b = open(fn, 'rb').read()
    pos, n = 80, 0
    while pos < len(b):
        vr_len = struct.unpack('>H', b[pos:pos + 2])[0]
        p, end = pos + 4, pos + vr_len
        while p < end:
            seg_len, attrs = struct.unpack('>HB', b[p:p + 3])
            if not attrs & 0x20:  # no successor -> a logical record ends here
                n += 1
            p += seg_len
        pos = end
    return n


def _two_logical_files(rows: tuple, width: int = 1, max_record_length: int = 8192) -> DLISFile:
    """One DLIS with len(rows) logical files; each: 1 origin, 1 uint8 channel (rows[i] x width), 1 frame."""

    df = DLISFile(max_record_length=max_record_length)
    for k, n_rows in enumerate(rows):
        lf = df.add_logical_file()
        lf.add_origin('O', set_name=f'S{k}')
        shape = (n_rows,) if width == 1 else (n_rows, width)
        ch = lf.add_channel('C', data=np.zeros(shape, dtype=np.uint8), set_name=f'S{k}')
        lf.add_frame('F', channels=[ch], set_name=f'S{k}')
    return df


def _is_progressbar_error(exc: object) -> bool:
    return isinstance(exc, ValueError) and 'is too large. Should be between 0 and' in str(exc)


def finding_1() -> bool:
    """2 logical files, each a frame of one 1-byte channel: 4 rows each cannot be written; 3 or 5 rows each can."""

    results = {}
    for n_rows in (3, 4, 5):
        exc, fn = _write(_two_logical_files((n_rows, n_rows)))
        results[n_rows] = (exc, os.path.getsize(fn), _count_logical_records(fn))
        os.remove(fn)

    ok3 = results[3][0] is None and results[3][2] == 2 * (4 + 3)
    ok5 = results[5][0] is None and results[5][2] == 2 * (4 + 5)
    # 4 rows: ValueError('Value 15 is too large. Should be between 0 and 14'); only the 80-byte SUL is in the file
    bad4 = _is_progressbar_error(results[4][0]) and results[4][1] == 80
    return ok3 and bad4 and ok5


def finding_2() -> bool:
    """Same specification (2 logical files, 1 and 6 rows of one uint8 channel, max_record_length=20):
    written with 1-byte and 100-byte rows, not written when each row is 400000 bytes
    (a record many times the record capacity) - because the records then take > 50 ms each to be written."""

    def outcome(width: int) -> object:
        exc, fn = _write(_two_logical_files((1, 6), width=width, max_record_length=20))
        os.remove(fn)
        return exc

    if outcome(1) is not None or outcome(100) is not None:
        return False
    # (the failure is driven by the time the records take; a much faster machine may need the larger width)
    return any(_is_progressbar_error(outcome(width)) for width in (400_000, 1_600_000))


def finding_3() -> bool:
    """1 logical file, one 1-byte channel, after one rejected (raising) add_zone call:
    3 rows (or 11) cannot be written; 2 or 4 rows can. Without the rejected call all of them can."""

    def make(n_rows: int, rejected_call: bool) -> DLISFile:
        df = DLISFile()
        lf = df.add_logical_file()
        lf.add_origin('O')
        ch = lf.add_channel('C', data=np.arange(n_rows).astype(np.uint8))
        lf.add_frame('F', channels=[ch])
        if rejected_call:
            try:
                lf.add_zone('Z', domain=3)  # TypeError; nothing is added, but an item-less ZoneSet stays behind
            except (TypeError, ValueError):
                pass
            else:
                raise AssertionError('the call was expected to be rejected')
        return df

    outcomes = {}
    for n_rows in (2, 3, 4, 11):
        for rejected_call in (False, True):
            exc, fn = _write(make(n_rows, rejected_call))
            outcomes[n_rows, rejected_call] = (exc, os.path.getsize(fn))
            os.remove(fn)

    fine = all(outcomes[k][0] is None for k in [(2, False), (3, False), (4, False), (11, False), (2, True), (4, True)])
    bad = all(_is_progressbar_error(outcomes[k][0]) and outcomes[k][1] == 80 for k in [(3, True), (11, True)])
    return fine and bad


FINDINGS = [
    (finding_1, "two logical files with a one-channel frame each: 4 rows per frame make write() raise ValueError "
                "(progress-bar overflow, only the SUL is on disk), 3 or 5 rows per frame are written"),
    (finding_2, "the same 2-logical-file specification is written with 1- or 100-byte rows but write() raises "
                "ValueError with 400000-byte rows at max_record_length=20 (records many times the capacity)"),
    (finding_3, "single logical file after one rejected add_zone() call: 3 (or 11) rows make write() raise "
                "ValueError, 2 or 4 rows are written"),
]


if __name__ == '__main__':
    for i, (func, description) in enumerate(FINDINGS, start=1):
        try:
            violated = func()
        except Exception as e:  # noqa
            violated = False
            description += f' [reproduction crashed: {e!r}]'
        print(f"FINDING {i}: {description} -> {'VIOLATED' if violated else 'not reproduced'}")
