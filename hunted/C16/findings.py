"""C16 (no-format payloads come back exactly, in order, under their object): reproductions of violations.

Run:  cd /tmp/hunt/C16 && PYTHONPATH=/tmp/hunt/C16/src /venv/bin/python findings.py

The judge is an independent reader of the produced bytes (visible records -> segments -> logical records ->
NOFORM IFLRs: OBNAME + payload), plus dlisio for the list of NO-FORMAT objects of each logical file.
"""
import logging
import os
import sys
import tempfile

import numpy as np

logging.disable(logging.CRITICAL)

from dliswriter import DLISFile  # noqa: E402


# ---------------------------------------------------------------- independent reader
def _uvari(b, p):
    x = b[p]
    if x < 0x80:
        return x, p + 1
    if x < 0xC0:
        return int.from_bytes(b[p:p + 2], 'big') & 0x3FFF, p + 2
    return int.from_bytes(b[p:p + 4], 'big') & 0x3FFFFFFF, p + 4


def _obname(b, p):
    o, p = _uvari(b, p)
    c, n = b[p], b[p + 1]
    return (o, c, bytes(b[p + 2:p + 2 + n])), p + 2 + n


def _logical_records(path):
    raw = open(path, 'rb').read()
    p, cur, out = 80, None, []
    while p < len(raw):
        vrl = int.from_bytes(raw[p:p + 2], 'big')
        assert raw[p + 2:p + 4] == b'\xff\x01' and p + vrl <= len(raw)
        q, end = p + 4, p + vrl
        while q < end:
            sl, attrs, typ = int.from_bytes(raw[q:q + 2], 'big'), raw[q + 2], raw[q + 3]
            assert sl >= 16 and sl % 2 == 0 and q + sl <= end
            body = raw[q + 4:q + sl]
            if attrs & 0x01:
                body = body[:len(body) - body[-1]]
            if not attrs & 0x40:
                assert cur is None
                cur = [bool(attrs & 0x80), typ, bytearray()]
            cur[2] += body
            if not attrs & 0x20:
                out.append((cur[0], cur[1], bytes(cur[2])))
                cur = None
            q += sl
        p = end
    assert cur is None
    return out


def noform_records(path):
    """[(logical file index, (origin, copy, name), payload)] of the NOFORM IFLRs, in file order."""
    out, lf = [], -1
    for is_eflr, typ, body in _logical_records(path):
        if is_eflr and typ == 0:        # FHLR: a new logical file starts
            lf += 1
        elif not is_eflr and typ == 1:  # NOFORM
            ob, p = _obname(body, 0)
            out.append((lf, ob, body[p:]))
    return out


def declared_noformats(path):
    """Per logical file: [(origin, copy, name)] of the NO-FORMAT objects, as seen by dlisio."""
    import dlisio
    with dlisio.dlis.load(path) as files:
        return [[(o.origin, o.copynumber, o.name.encode()) for o in f.noformats] for f in files]


# ---------------------------------------------------------------- builders
def _base(n_lf=1, rows=3):
    df = DLISFile()
    lfs = []
    for i in range(n_lf):
        lf = df.add_logical_file()
        lf.add_origin(f"ORIGIN{i}", file_set_number=1, set_name=f"S{i}")
        ch = lf.add_channel(f"DEPTH{i}", data=np.arange(rows, dtype=np.float64), set_name=f"S{i}")
        lf.add_frame(f"FRAME{i}", channels=(ch,), index_type='BOREHOLE-DEPTH', set_name=f"S{i}")
        lfs.append(lf)
    return df, lfs


def _write(df):
    path = os.path.join(tempfile.mkdtemp(prefix='c16_'), 'out.dlis')
    df.write(path, output_chunk_size=2 ** 20)
    return path


# ---------------------------------------------------------------- findings
def finding_1():
    """Two NO-FORMAT objects of the same name in two differently named sets get the same reference.

    Evidence: a.obname == b.obname == b'\\x00\\x00\\x02NF'; dlisio lists (0, 0, 'NF') twice; both NOFORM records carry it.
    Cause: EFLRItem._compute_copy_number (logical_record/core/eflr/eflr_item.py:118) only counts same-named items
    of the parent set, but an OBNAME must be unique per object type in the logical file.
    """
    df, (lf,) = _base()
    a = lf.add_no_format("NF", set_name="A")
    b = lf.add_no_format("NF", set_name="B")
    lf.add_no_format_frame_data(a, b"payload of A")
    lf.add_no_format_frame_data(b, b"payload of B")
    path = _write(df)
    recs = noform_records(path)
    objs = declared_noformats(path)[0]
    # two distinct objects in the file, but both records carry one and the same reference
    return (len(objs) == 2 and objs[0] == objs[1]
            and [r[2] for r in recs] == [b"payload of A", b"payload of B"] and recs[0][1] == recs[1][1])


def finding_2():
    """Renaming a NO-FORMAT object to the name of another one leaves both with the same reference.

    Evidence: dlisio lists (0, 0, 'NFA') twice; both NOFORM records carry (0, 0, 'NFA').
    Cause: copy number computed once in EFLRItem.__init__ (eflr_item.py:69); __setattr__ (eflr_item.py:151) only drops
    the cached obname on a rename. Variant: a=NF, b=NF, a.name='OLD', c=NF -> b and c both (0, 1, 'NF').
    """
    df, (lf,) = _base()
    a = lf.add_no_format("NFA")
    b = lf.add_no_format("NFB")
    b.name = "NFA"
    lf.add_no_format_frame_data(a, b"payload of a")
    lf.add_no_format_frame_data(b, b"payload of b")
    path = _write(df)
    recs = noform_records(path)
    objs = declared_noformats(path)[0]
    return len(objs) == 2 and objs[0] == objs[1] and recs[0][1] == recs[1][1] and recs[0][2] != recs[1][2]


def finding_3():
    """A payload added through another logical file lands there, under that file's same-named object.

    Evidence (logical file, obname, payload): 0 (0,0,NF) A-1 | 1 (0,0,NF) A-2 | 1 (0,0,NF) B-1; the only NO-FORMAT
    object of logical file 1 is b, so A-2 (supplied for a) comes back under b, and a lost its second record.
    Cause: LogicalFile.add_no_format_frame_data (file/file.py:1381) does not check that the object belongs to a
    NO-FORMAT set of that logical file; origin references restart at 0 in every logical file.
    """
    df, (lf1, lf2) = _base(n_lf=2)
    a = lf1.add_no_format("NF", set_name="A")
    b = lf2.add_no_format("NF", set_name="B")
    lf1.add_no_format_frame_data(a, b"A-1")
    lf2.add_no_format_frame_data(a, b"A-2")      # accepted without complaint; 'a' is an object of lf1
    lf2.add_no_format_frame_data(b, b"B-1")
    path = _write(df)
    recs = noform_records(path)
    objs = declared_noformats(path)
    # expected: object a (logical file 0) <- A-1, A-2; object b (logical file 1) <- B-1
    in_lf1 = [(r[1], r[2]) for r in recs if r[0] == 1]
    return (objs[1] == [(0, 0, b"NF")]                       # the only NO-FORMAT object of logical file 1 is b
            and in_lf1 == [((0, 0, b"NF"), b"A-2"), ((0, 0, b"NF"), b"B-1")])   # ... and A-2 is attributed to it


def finding_4():
    """A bytearray payload is not copied: reusing the buffer for the next packet rewrites the earlier records.

    Evidence: supplied packet-1, packet-2, last -> file holds last, last, last.
    Cause: NoFormatFrameData keeps self.data = data (iflr_types/no_format_frame_data.py:19) and reads it in
    _make_body_bytes (:25, :30) only when the file is written.
    """
    df, (lf,) = _base()
    nf = lf.add_no_format("NF")
    buf = bytearray(8)
    supplied = []
    for packet in (b"packet-1", b"packet-2", b"last"):
        buf[:] = packet                                  # the usual 'read into a reusable buffer' loop
        lf.add_no_format_frame_data(nf, buf)
        supplied.append(bytes(buf))
    path = _write(df)
    got = [r[2] for r in noform_records(path)]
    return supplied == [b"packet-1", b"packet-2", b"last"] and got == [b"last", b"last", b"last"]


def finding_5():
    """Records are written for a descriptor which is not a NO-FORMAT object of the file (other DLISFile / a Channel).

    Evidence: dlisio finds no NO-FORMAT object in the file; NOFORM records (0,0,FOREIGN) data-1 and (0,0,DEPTH0) data-2.
    Cause: no type / membership check in LogicalFile.add_no_format_frame_data (file/file.py:1381) nor in
    NoFormatFrameData.__init__.
    """
    _, (other_lf,) = _base()
    foreign = other_lf.add_no_format("FOREIGN")
    df, (lf,) = _base()
    lf.add_no_format_frame_data(foreign, b"data-1")         # NO-FORMAT object of another DLISFile
    lf.add_no_format_frame_data(lf.channels[0], b"data-2")  # not a NO-FORMAT object at all
    path = _write(df)
    recs = noform_records(path)
    objs = declared_noformats(path)[0]
    return objs == [] and [(r[1][2], r[2]) for r in recs] == [(b"FOREIGN", b"data-1"), (b"DEPTH0", b"data-2")]


def observation_1():
    """(Outside the statement: no file is produced.) write() of two logical files + one no-format record raises.

    ValueError 'Value 15 is too large. Should be between 0 and 14' from progressbar2 (4.6.0):
    DLISFile.generate_logical_records (file/file.py:168-177) announces the number of EFLR *items* and forgets the
    file headers, so more records are yielded than announced (writer.py:241 passes it as max_value).
    """
    df, lfs = _base(n_lf=2)
    nf = lfs[-1].add_no_format("NF", set_name="Z")
    lfs[-1].add_no_format_frame_data(nf, b"small")
    try:
        _write(df)
    except ValueError as e:
        return 'too large' in str(e)
    return False


FINDINGS = [
    (finding_1, "same-named NO-FORMAT objects in two differently named sets share one OBNAME (copy number 0 twice), "
                "so their payloads are indistinguishable"),
    (finding_2, "renaming a NO-FORMAT object does not recompute its copy number: two objects, one OBNAME, "
                "payloads indistinguishable"),
    (finding_3, "payload added via another logical file is written into that file and resolves to its same-named "
                "NO-FORMAT object (wrong object, order broken)"),
    (finding_4, "bytearray payload is kept by reference: reusing the buffer after the call alters the earlier records"),
    (finding_5, "no-format records accepted and written for a descriptor that is no NO-FORMAT object of the file "
                "(dangling reference)"),
]

if __name__ == '__main__':
    stderr = sys.stderr
    sys.stderr = open(os.devnull, 'w')   # silence the progress bars
    lines = []
    for n, (fn, descr) in enumerate(FINDINGS, 1):
        try:
            ok = bool(fn())
        except Exception as exc:  # noqa
            ok = False
            descr += f" [raised {type(exc).__name__}: {exc}]"
        lines.append(f"FINDING {n}: {descr} -> {'VIOLATED' if ok else 'not reproduced'}")
    try:
        obs = observation_1()
    except Exception as exc:  # noqa
        obs = False
    lines.append("OBSERVATION (not a C16 violation, no file produced): write() of 2 logical files + 1 no-format "
                 f"record raises ValueError from the progress bar (record count underestimated) -> "
                 f"{'observed' if obs else 'not observed'}")
    sys.stderr = stderr
    print("\n".join(lines))
