"""Reproductions of violations of property C17 (high-compatibility mode enforces its restrictions and never leaks).

Run as:  cd /tmp/hunt/C17 && PYTHONPATH=/tmp/hunt/C17/src /venv/bin/python findings.py

Code locations responsible (details of every finding are in the docstring/comments of its function):
  1  logical_record/eflr_types/frame.py:110,130-139 (uniformity computed on data[...] = raw source) vs
     utils/source_data_wrappers.py:180 (written rows are cast to cast_dtype)
  2  logical_record/core/eflr/eflr_item.py:60 (validate_string only in __init__), :151 (__setattr__ lets 'name' through)
  3  logical_record/misc/storage_unit_label.py:42, logical_record/eflr_types/file_header.py:57 (constructor-only checks)
  4  utils/high_compatibility_mode.py:12-18 (saves/restores previous value of one global flag; correct for LIFO exits only)
  5  configuration.py:9 (one process-global flag, not thread-/context-local)
  6  logical_record/eflr_types/frame.py:186-189 (deviations < 0.001 of (1 - diff/median)**2  ->  3.2 % tolerance)
  7  logical_record/eflr_types/origin.py:66-76 (only the default is small; a given value is never examined)
  8  logical_record/core/eflr/eflr_set.py:31 (set_name stored unchecked)  -- borderline
"""

import logging
import os
import tempfile
import threading

import numpy as np
import dlisio

from dliswriter import DLISFile, high_compatibility_mode

logging.getLogger('dliswriter').setLevel(logging.ERROR)
dlisio.common.set_encodings(['latin1'])

TMP = tempfile.mkdtemp(prefix='c17_')
HC_NAME = r'[A-Z0-9_-]+'


def _write(df, name):
    path = os.path.join(TMP, name)
    df.write(path, output_chunk_size=2 ** 20)
    return path


def _simple_file(index=None, index_type='BOREHOLE-DEPTH', cast_dtype=None, **origin_kwargs):
    """A file which is fully acceptable in high-compatibility mode (unless the arguments make it otherwise)."""

    df = DLISFile()
    lf = df.add_logical_file()
    lf.add_origin('ORIGIN', **origin_kwargs)
    index = np.arange(10.) if index is None else index
    c1 = lf.add_channel('DEPTH', data=index, units='m', cast_dtype=cast_dtype)
    c2 = lf.add_channel('RPM', data=np.arange(len(index)) * 2.)
    fr = lf.add_frame('MAIN', channels=(c1, c2), index_type=index_type)
    return df, lf, c1, c2, fr


def _lowercase_name_accepted():
    """Behavioural probe of the mode: True if a lower-case object name is accepted (i.e. mode is effectively off)."""

    try:
        DLISFile().add_logical_file().add_origin('lower')
    except ValueError:
        return False
    return True


def _force_mode_off():
    # clean-up only (so that one finding cannot influence the next one)
    from dliswriter.configuration import global_config
    global_config.high_compat_mode = False


def finding_1():
    """Index channel with a cast dtype: uniformity is checked on the source data, not on what is written."""

    with high_compatibility_mode():
        df, *_ = _simple_file(index=np.arange(10) * 0.5, cast_dtype=np.uint16)  # 0, .5, 1, 1.5 ... -> uniform
        path = _write(df, 'f1.dlis')  # no error

    with dlisio.dlis.load(path) as (f,):
        fr = f.frames[0]
        idx = fr.curves()['DEPTH']
        indexed = fr.index_type == 'BOREHOLE-DEPTH'
    steps = set(np.diff(idx.astype(float)).tolist())
    # written index: 0 0 1 1 2 2 3 3 4 4 -> steps {0, 1}
    return indexed and len(steps) > 1


def finding_2():
    """Renaming an object after creation is not checked in high-compatibility mode."""

    with high_compatibility_mode():
        df, lf, c1, c2, fr = _simple_file()
        c1.name = 'depth (lower case)!'  # no error
        fr.name = 'main frame'           # no error
        path = _write(df, 'f2.dlis')     # no error

    import re
    with dlisio.dlis.load(path) as (f,):
        names = [c.name for c in f.channels] + [fr.name for fr in f.frames]
    return any(re.fullmatch(HC_NAME, n) is None for n in names)


def finding_3():
    """Storage set identifier / file header id reassigned after creation are not checked."""

    with high_compatibility_mode():
        df, lf, *_ = _simple_file()
        df.storage_unit_label.set_identifier = 'lower case set id'
        lf.file_header.header_id = 'lower header'
        lf.defining_origin.file_id.value = 'lower header'   # (must be equal to the header id)
        path = _write(df, 'f3.dlis')

    import re
    with dlisio.dlis.load(path) as (f,):
        sul_id = f.storage_label()['id'].strip()
        fh_id = f.fileheader.id.strip()
    return re.fullmatch(HC_NAME, sul_id) is None and re.fullmatch(HC_NAME, fh_id) is None


def finding_4():
    """Two overlapping (not nested) contexts in one thread: leak inside the second one, mode stuck on afterwards."""

    def build_files(names):
        # a generator which builds files in high-compatibility mode, one per request
        with high_compatibility_mode():
            for n in names:
                try:
                    DLISFile().add_logical_file().add_origin(n)
                    yield 'accepted'
                except ValueError:
                    yield 'rejected'

    try:
        g1 = build_files(['A'])
        g2 = build_files(['B', 'lower'])
        next(g1), next(g2)              # both contexts entered
        list(g1)                        # first context left -> mode is reset to False while g2 is still inside
        leaked = next(g2) == 'accepted'  # 'lower' accepted (with a warning) INSIDE a high_compatibility_mode context
        list(g2)                        # second context left -> 'restores' True
        stuck = not _lowercase_name_accepted()  # outside of any context, but lower-case name raises
        return leaked and stuck
    finally:
        _force_mode_off()


def finding_5():
    """The mode is process-global: a context entered in one thread switches the mode in all other threads."""

    entered, release = threading.Event(), threading.Event()

    def worker():
        with high_compatibility_mode():
            entered.set()
            release.wait()

    t = threading.Thread(target=worker)
    try:
        t.start()
        entered.wait()
        # main thread is outside of any context; the input should be accepted with a warning
        raised_outside_context = not _lowercase_name_accepted()
    finally:
        release.set()
        t.join()
        _force_mode_off()
    return raised_outside_context


def finding_6():
    """A step which is 3 % off is still 'uniform' in high-compatibility mode."""

    index = np.array([0, 1, 2, 3, 4.03, 5.03, 6.03, 7.03, 8.03, 9.03])  # one step of 1.03 among steps of 1.0
    with high_compatibility_mode():
        df, *_ = _simple_file(index=index)
        path = _write(df, 'f6.dlis')  # no error

    with dlisio.dlis.load(path) as (f,):
        fr = f.frames[0]
        idx = fr.curves()['DEPTH']
        spacing = fr.spacing
    steps = np.diff(idx)
    return spacing == 1.0 and not np.allclose(steps, steps[0], rtol=1e-6) and steps.max() - steps.min() > 0.029


def finding_7():
    """An explicit, huge file set number is accepted in high-compatibility mode (no error; no warning outside)."""

    with high_compatibility_mode():
        df, *_ = _simple_file(file_set_number=1_000_000_000)
        path = _write(df, 'f7.dlis')

    with dlisio.dlis.load(path) as (f,):
        fsn = f.origins[0].file_set_nr
    return fsn == 1_000_000_000


def finding_8():
    """(borderline) Names of sets are not checked at all."""

    with high_compatibility_mode():
        df = DLISFile()
        lf = df.add_logical_file()
        lf.add_origin('ORIGIN', set_name='origin set, lower case')
        c = lf.add_channel('DEPTH', data=np.arange(5.), set_name='chan set!')
        lf.add_frame('MAIN', channels=(c,), set_name='frame set')
        path = _write(df, 'f8.dlis')

    with open(path, 'rb') as fh:
        raw = fh.read()
    return b'chan set!' in raw and b'frame set' in raw and b'origin set, lower case' in raw


FINDINGS = [
    (finding_1, "HC mode checks index uniformity on the source data, so an index with cast_dtype (float->uint16/"
                "float32) is written non-uniform (0,0,1,1,...) without an error"),
    (finding_2, "HC mode: item.name reassigned after creation is not validated; file with lower-case/space/'!' "
                "channel and frame names is written"),
    (finding_3, "HC mode: storage_unit_label.set_identifier and file_header.header_id reassigned after creation "
                "are not validated; lower-case ids are written"),
    (finding_4, "overlapping (non-nested) contexts in one thread: breach only warns inside the still-open context, "
                "and after both are left the mode stays ON outside any context"),
    (finding_5, "mode flag is process-global: while another thread is inside the context, the main thread (outside "
                "any context) gets ValueError instead of a warning"),
    (finding_6, "HC mode accepts an indexed frame whose index has a 3 % irregular step (1.0 vs 1.03) as uniform, "
                "spacing 1.0 written"),
    (finding_7, "HC mode accepts explicit file_set_number=1000000000 silently (no raise inside, no warning outside)"),
    (finding_8, "(borderline) HC mode does not validate set names: 'chan set!' etc. are written"),
]


if __name__ == '__main__':
    for i, (func, description) in enumerate(FINDINGS, start=1):
        try:
            violated = bool(func())
        except Exception as exc:  # a finding which cannot be run is not reproduced
            violated = False
            description += f" [{type(exc).__name__}: {exc}]"
        print(f"FINDING {i}: {description} -> {'VIOLATED' if violated else 'not reproduced'}")
