"""C18 - frames and logical files are isolated from one another: reproductions of violations.

Run as:  cd /tmp/hunt/C18 && PYTHONPATH=/tmp/hunt/C18/src /venv/bin/python findings.py

Outcomes are judged with dlisio and/or with the small independent RP66 v1 framing parser below
(no dliswriter code is used for reading).
"""

import logging
import os
import sys
import tempfile

import numpy as np
import dlisio

from dliswriter import DLISFile, eflr_types

logging.disable(logging.CRITICAL)
dlisio.common.set_encodings(['latin1'])

_TMP = tempfile.mkdtemp(prefix='c18_')


def _path(name):
    p = os.path.join(_TMP, name)
    if os.path.exists(p):
        os.remove(p)
    return p


def _write(df, path, **kw):
    """DLISFile.write with a small output buffer and the progress bar output swallowed."""
    sys.stderr.flush()
    saved, devnull = os.dup(2), os.open(os.devnull, os.O_WRONLY)
    os.dup2(devnull, 2)
    try:
        df.write(path, output_chunk_size=2 ** 20, **kw)
    finally:
        sys.stderr.flush()
        os.dup2(saved, 2)
        os.close(saved)
        os.close(devnull)


# ----------------------------------------------------------------------------------------------------------------------
# independent reader of the physical/logical framing (visible records -> segments -> logical records)
# ----------------------------------------------------------------------------------------------------------------------
def _records(path):
    """-> list of (is_eflr, record_type, body_bytes), one per logical record, in file order."""
    b = open(path, 'rb').read()
    pos, out, cur = 80, [], None           # 80 = storage unit label
    while pos < len(b):
        vr_len = int.from_bytes(b[pos:pos + 2], 'big')
        assert b[pos + 2] == 0xFF and b[pos + 3] == 1
        end, pos = pos + vr_len, pos + 4
        while pos < end:
            seg_len = int.from_bytes(b[pos:pos + 2], 'big')
            attr, typ = b[pos + 2], b[pos + 3]
            body = b[pos + 4:pos + seg_len]
            if attr & 0x02:
                body = body[:-2]            # trailing length
            if attr & 0x04:
                body = body[:-2]            # checksum
            if attr & 0x01:
                body = body[:-body[-1]]     # padding
            if not attr & 0x40:             # no predecessor: a new logical record starts
                cur = [bool(attr & 0x80), typ, bytearray()]
            cur[2] += body
            if not attr & 0x20:             # no successor: the logical record is complete
                out.append((cur[0], cur[1], bytes(cur[2])))
            pos += seg_len
    return out


def _logical_files(path):
    """Split the logical records into logical files (each starts at a FILE-HEADER EFLR, type 0)."""
    lfs = []
    for r in _records(path):
        if r[0] and r[1] == 0:
            lfs.append([])
        lfs[-1].append(r)
    return lfs


def _obname(body):
    """Decode the OBNAME at the start of an IFLR body -> ((origin, copy, name), rest_of_body)."""
    x = body[0]
    if x < 0x80:
        origin, p = x, 1
    elif x < 0xC0:
        origin, p = int.from_bytes(body[0:2], 'big') & 0x3FFF, 2
    else:
        origin, p = int.from_bytes(body[0:4], 'big') & 0x3FFFFFFF, 4
    copy, n = body[p], body[p + 1]
    return (origin, copy, body[p + 2:p + 2 + n].decode('latin1')), body[p + 2 + n:]


# ----------------------------------------------------------------------------------------------------------------------
# findings
# ----------------------------------------------------------------------------------------------------------------------
def finding_1():
    """Two frames with the same name in two different FRAME sets of ONE logical file get the same OBNAME
    (copy number 0 both), so their FDATA records cannot be told apart: a reader sees the rows of both frames
    in each of them (8 rows, frame numbers 1..5,1..3) instead of 5 and 3 independent rows."""

    df = DLISFile()
    lf = df.add_logical_file()
    lf.add_origin('O')
    d1 = lf.add_channel('DEPTH', data=np.arange(5.), set_name='PASS1')
    x1 = lf.add_channel('X', data=np.arange(5.) + 10, set_name='PASS1')
    d2 = lf.add_channel('DEPTH', data=np.arange(3.) + 100, set_name='PASS2')
    y2 = lf.add_channel('Y', data=np.arange(3.) + 200, set_name='PASS2')
    f1 = lf.add_frame('MAIN', channels=(d1, x1), set_name='PASS1')
    f2 = lf.add_frame('MAIN', channels=(d2, y2), set_name='PASS2')
    p = _path('f1.dlis')
    _write(df, p)

    # (a) independent parse: the frame references of all 8 FDATA records are identical
    refs = [_obname(r[2])[0] for r in _records(p) if not r[0] and r[1] == 0]
    same_ref = len(refs) == 8 and len(set(refs)) == 1

    # (b) dlisio: each of the two frames is given all 8 rows, numbered 1..5,1..3
    with dlisio.dlis.load(p) as (l,):
        frames = l.frames
        rows = [fr.curves()['FRAMENO'].tolist() for fr in frames]
    mixed = len(frames) == 2 and all(r == [1, 2, 3, 4, 5, 1, 2, 3] for r in rows)
    return same_ref and mixed and f1.copy_number == f2.copy_number == 0


def finding_2():
    """Two channels with the same name in two different CHANNEL sets of ONE logical file (each used by its own
    frame) get the same OBNAME; the frames' channel references are ambiguous and neither frame can be decoded."""

    df = DLISFile()
    lf = df.add_logical_file()
    lf.add_origin('O')
    i1 = lf.add_channel('INDEX', data=np.arange(5.), units='m', set_name='DEPTH-LOG')
    x1 = lf.add_channel('X', data=np.arange(5.) + 10, set_name='DEPTH-LOG')
    i2 = lf.add_channel('INDEX', data=np.arange(3, dtype=np.uint16), units='s', set_name='TIME-LOG')
    y2 = lf.add_channel('Y', data=np.arange(3.) + 200, set_name='TIME-LOG')
    lf.add_frame('F1', channels=(i1, x1))
    lf.add_frame('F2', channels=(i2, y2))
    p = _path('f2.dlis')
    _write(df, p)

    broken = 0
    with dlisio.dlis.load(p) as (l,):
        for fr in l.frames:
            unresolved = fr.channels[0] is None      # reference to 'INDEX' cannot be resolved
            try:
                fr.curves()
                undecodable = False
            except Exception:
                undecodable = True
            broken += unresolved and undecodable
    return broken == 2 and i1.copy_number == i2.copy_number == 0


def finding_3():
    """File headers of two logical files created in one FileHeaderSet (public eflr_types API + the documented
    'file_header' argument): the shared set is written, not rejected - each logical file opens with a FILE-HEADER
    set holding the headers of BOTH logical files."""

    fh_set = eflr_types.FileHeaderSet()
    fh1 = eflr_types.FileHeaderItem('FIRST', parent=fh_set, sequence_number=1, identifier='a')
    fh2 = eflr_types.FileHeaderItem('SECOND', parent=fh_set, sequence_number=2, identifier='b')
    df = DLISFile()
    l1 = df.add_logical_file(file_header=fh1)
    l2 = df.add_logical_file(file_header=fh2)
    l1.add_origin('O1', set_name='1')
    l2.add_origin('O2', set_name='2')
    a = l1.add_channel('A', data=np.arange(3.), set_name='1')
    l1.add_frame('F', channels=(a,), set_name='1')
    b = l2.add_channel('B', data=np.arange(2.), set_name='2')
    l2.add_frame('G', channels=(b,), set_name='2')
    p = _path('f3.dlis')
    try:
        _write(df, p)
    except Exception:
        return False    # rejected: fine

    with dlisio.dlis.load(p) as lfs:
        headers = [[(h.name, h.id) for h in l.find('FILE-HEADER')] for l in lfs]
    # raw: the first record of each logical file contains both header ids
    raw = [lf[0][2] for lf in _logical_files(p)]
    raw_both = all(b'FIRST' in r and b'SECOND' in r for r in raw)
    return raw_both and all(h == [('a', 'FIRST'), ('b', 'SECOND')] for h in headers)


def finding_4():
    """add_no_format_frame_data of logical file 2 accepts a NO-FORMAT object of logical file 1: the data row is
    emitted in logical file 2, where the reference (0, 0, 'NF') designates ANOTHER object (LF 2's own 'NF'),
    so the stream of LF 2's object is contaminated with data of LF 1's object."""

    df = DLISFile()
    l1 = df.add_logical_file(fh_id='ONE')
    l2 = df.add_logical_file(fh_id='TWO')
    l1.add_origin('O1', set_name='1')
    l2.add_origin('O2', set_name='2')
    a = l1.add_channel('A', data=np.arange(3.), set_name='1')
    l1.add_frame('F', channels=(a,), set_name='1')
    b = l2.add_channel('B', data=np.arange(2.), set_name='2')
    l2.add_frame('G', channels=(b,), set_name='2')
    nf1 = l1.add_no_format('NF', consumer_name='one', set_name='1')
    nf2 = l2.add_no_format('NF', consumer_name='two', set_name='2')
    l1.add_no_format_frame_data(nf1, 'AAA1')
    l2.add_no_format_frame_data(nf2, 'BBB1')
    try:
        l2.add_no_format_frame_data(nf1, 'AAA2')     # object of LF 1 handed to LF 2
        p = _path('f4.dlis')
        _write(df, p)
    except Exception:
        return False    # rejected: fine

    noform = [[_obname(r[2]) for r in lf if not r[0] and r[1] == 1] for lf in _logical_files(p)]
    # LF 1 lacks 'AAA2'; LF 2 has it, under the name of its own object
    return (noform[0] == [((0, 0, 'NF'), b'AAA1')]
            and noform[1] == [((0, 0, 'NF'), b'BBB1'), ((0, 0, 'NF'), b'AAA2')])


def finding_5():
    """An object of logical file 1 is accepted as attribute value (reference) of an object of logical file 2
    (here: a Zone in Parameter.zones; only Frame.channels is checked). The reference is written into LF 2,
    where it silently designates LF 2's own same-named zone with different contents (or nothing at all)."""

    df = DLISFile()
    l1 = df.add_logical_file(fh_id='ONE')
    l2 = df.add_logical_file(fh_id='TWO')
    l1.add_origin('O1', set_name='1')
    l2.add_origin('O2', set_name='2')
    a = l1.add_channel('A', data=np.arange(3.), set_name='1')
    l1.add_frame('F', channels=(a,), set_name='1')
    b = l2.add_channel('B', data=np.arange(2.), set_name='2')
    l2.add_frame('G', channels=(b,), set_name='2')
    z1 = l1.add_zone('Z', domain='TIME', minimum=1.0, maximum=2.0, set_name='1')
    l2.add_zone('Z', domain='BOREHOLE-DEPTH', minimum=100.0, maximum=200.0, set_name='2')
    z1only = l1.add_zone('ONLY-IN-1', domain='TIME', set_name='1')
    try:
        l2.add_parameter('P', zones=[z1], values=[5.0], set_name='2')           # zone of LF 1
        l2.add_parameter('Q', zones=[z1only], values=[5.0], set_name='2')       # zone of LF 1
        p = _path('f5.dlis')
        _write(df, p)
    except Exception:
        return False    # rejected: fine

    with dlisio.dlis.load(p) as (_, f2):
        par_p = f2.object('PARAMETER', 'P')
        par_q = f2.object('PARAMETER', 'Q')
        swapped = par_p.zones[0] is not None and par_p.zones[0].domain == 'BOREHOLE-DEPTH'   # given: the TIME zone
        dangling = par_q.zones == [None]
    return swapped and dangling


def finding_6():
    """A valid configuration of two logical files (distinct set names; 1 origin, 1 channel, 1 frame, 4 rows each)
    cannot be written: DLISFile.write raises ValueError('Value 15 is too large...') from the progress bar,
    because the record count is computed from the numbers of items and leaves out the file header of every
    logical file; only the 80-byte storage unit label reaches the disk. The same content in ONE logical file,
    or with 5 rows, is written fine."""

    def build(n_lf, rows):
        df = DLISFile()
        for i in range(n_lf):
            lf = df.add_logical_file(fh_id=f'LF{i}')
            lf.add_origin('O', set_name=str(i))
            c = lf.add_channel('C', data=np.arange(float(rows)), set_name=str(i))
            lf.add_frame('F', channels=[c], set_name=str(i))
        return df

    p = _path('f6.dlis')
    _write(build(1, 4), p)      # fine
    _write(build(2, 5), p)      # fine
    os.remove(p)
    try:
        _write(build(2, 4), p)
    except ValueError as exc:
        return 'too large' in str(exc) and os.path.getsize(p) == 80
    return False


def finding_7():
    """(borderline) A REJECTED add_zone call in logical file 1 leaves the empty default ZONE set registered with
    LF 1. When LF 2 - the only logical file with zones - then uses the default set name, the write is refused with
    'ZoneSet None is shared between two logical files', although no set holds objects of two logical files."""

    df = DLISFile()
    l1 = df.add_logical_file(fh_id='ONE')
    l2 = df.add_logical_file(fh_id='TWO')
    l1.add_origin('O1', set_name='1')
    l2.add_origin('O2', set_name='2')
    a = l1.add_channel('A', data=np.arange(3.), set_name='1')
    l1.add_frame('F', channels=(a,), set_name='1')
    b = l2.add_channel('B', data=np.arange(2.), set_name='2')
    l2.add_frame('G', channels=(b,), set_name='2')
    try:
        l1.add_zone('Z', domain='TIME', minimum='not a number')     # rejected call
        return False
    except ValueError:
        pass
    l2.add_zone('Z2', domain='TIME')                                # accepted; LF 1 holds no zones
    p = _path('f7.dlis')
    try:
        _write(df, p)
    except RuntimeError as exc:
        return 'shared between two logical files' in str(exc)
    return False


FINDINGS = [
    (finding_1, "same-named frames in two FRAME sets of one logical file share one OBNAME; their data rows get mixed"),
    (finding_2, "same-named channels in two CHANNEL sets of one logical file share one OBNAME; both frames become "
                "undecodable"),
    (finding_3, "file headers of two logical files in one FileHeaderSet are written as a shared set in both logical "
                "files instead of being rejected"),
    (finding_4, "no-format data of an object of another logical file is accepted and lands in (and is attributed to "
                "an object of) the wrong logical file"),
    (finding_5, "references to objects of another logical file are accepted and resolve to a different object / "
                "nothing in the logical file they are written to"),
    (finding_6, "a valid two-logical-file configuration crashes DLISFile.write (record count ignores the file headers)"),
    (finding_7, "(borderline) a rejected add_* call makes a later, unrelated logical file's default set 'shared': "
                "spurious refusal to write"),
]


if __name__ == '__main__':
    for n, (func, description) in enumerate(FINDINGS, start=1):
        try:
            violated = bool(func())
        except Exception as exc:  # a reproduction must not stop the others
            violated = False
            description += f" [error: {type(exc).__name__}: {exc}]"
        print(f"FINDING {n}: {description} -> {'VIOLATED' if violated else 'not reproduced'}")
