"""C19 - "Writing never alters the caller's data": reproductions.

Run as:  cd /tmp/hunt/C19 && PYTHONPATH=/tmp/hunt/C19/src /venv/bin/python findings.py
"""

import hashlib
import logging
import os
import subprocess
import sys
import tempfile

import h5py
import numpy as np

from dliswriter import DLISFile
from dliswriter.utils.source_data_wrappers import SourceDataWrapper

logging.disable(logging.CRITICAL)

N_ROWS = 50


def _sha(path):
    with open(path, 'rb') as f:
        return hashlib.sha256(f.read()).hexdigest()


def _make_h5(path):
    with h5py.File(path, 'w') as f:
        f.create_dataset('DEPTH', data=np.arange(N_ROWS, dtype=np.float64))
        f.create_dataset('RPM', data=np.arange(N_ROWS, dtype=np.float32) * 2)


def _make_file():
    """A DLISFile with one frame of two channels without inline data (data come at write())."""

    df = DLISFile()
    lf = df.add_logical_file()
    lf.add_origin('ORIGIN', file_set_number=1)
    c1 = lf.add_channel('DEPTH')
    c2 = lf.add_channel('RPM')
    lf.add_frame('MAIN', channels=(c1, c2), index_type='BOREHOLE-DEPTH')
    return df


def finding_1():
    """write(X, data=X) with X the HDF5 source: the call 'succeeds' and the HDF5 file is replaced by DLIS bytes."""

    tmp = tempfile.mkdtemp()
    h5 = os.path.join(tmp, 'well.h5')
    _make_h5(h5)
    before = _sha(h5)

    df = _make_file()
    error = None
    try:
        df.write(h5, data=h5, output_chunk_size=2 ** 20)
    except Exception as exc:  # the library does not raise here; kept to show it either way
        error = exc

    after = _sha(h5)
    with open(h5, 'rb') as f:
        head = f.read(20)
    still_hdf5 = h5py.is_hdf5(h5)

    # evidence: no error, the digest changed, the file now begins with a DLIS storage unit label
    return error is None and before != after and head.startswith(b'   1V1.00RECORD') and not still_hdf5


def finding_2():
    """Same through a link: the output name is a symbolic link to the HDF5 source; the source is destroyed."""

    tmp = tempfile.mkdtemp()
    h5 = os.path.join(tmp, 'well.h5')
    _make_h5(h5)
    link = os.path.join(tmp, 'latest.dlis')
    os.symlink(h5, link)
    before = _sha(h5)

    df = _make_file()
    try:
        df.write(link, data=h5, output_chunk_size=2 ** 20)
    except Exception:
        pass

    return _sha(h5) != before and not h5py.is_hdf5(h5)


_FINDING_3_SCRIPT = r"""
import logging, os, sys, tempfile
import numpy as np
from dliswriter import DLISFile
logging.disable(logging.CRITICAL)
tmp = tempfile.mkdtemp()
p = os.path.join(tmp, 'depth.bin')
np.arange(50, dtype='f8').tofile(p)
mm = np.memmap(p, dtype='f8', mode='r')          # READ-ONLY array supplied by the caller
assert not mm.flags.writeable
before = mm.tobytes()
df = DLISFile(); lf = df.add_logical_file(); lf.add_origin('ORIGIN', file_set_number=1)
ch = lf.add_channel('DEPTH', data=mm)
lf.add_frame('MAIN', channels=(ch,), index_type='BOREHOLE-DEPTH')
df.write(p, output_chunk_size=2 ** 20)            # output name == the file backing the array
print('ALTERED' if mm.tobytes() != before else 'SAME')
"""


def finding_3():
    """Inline channel data = read-only np.memmap; output written to the mapped file: the array's bytes change."""

    # (in a child process: a truncated mapping can raise SIGBUS, which must not kill the other findings)
    res = subprocess.run([sys.executable, '-c', _FINDING_3_SCRIPT], capture_output=True, text=True,
                         env=dict(os.environ), timeout=120)
    return 'ALTERED' in res.stdout


def finding_4():
    """Chunking/windowing of a structured source array works on writable VIEWS of the caller's array, not on copies:
    the chunk returned by the documented load_chunk / the slots of the FrameData records share memory with it,
    so a single write into a chunk lands in the caller's array."""

    arr = np.zeros(10, dtype=[('DEPTH', np.float64), ('RPM', np.float32)])
    arr['DEPTH'] = np.arange(10)
    before = arr.tobytes()

    # (a) the documented public wrapper, with a row window
    wrapper = SourceDataWrapper.make_wrapper(arr, from_idx=2, to_idx=8)
    chunk = wrapper.load_chunk(0, 3)
    aliased_chunk = np.shares_memory(chunk, arr) and chunk.flags.writeable

    # (b) the records DLISFile itself generates for a write
    df = _make_file()
    records = list(df.generate_logical_records(chunk_size=4, data=arr, from_idx=2, to_idx=8))
    frame_data = [r for r in records if type(r).__name__ == 'FrameData']
    aliased_records = all(np.shares_memory(fd._slots, arr) for fd in frame_data) and len(frame_data) == 6

    # (c) consequence: what is done to 'the chunk' is done to the caller's array
    chunk['RPM'] = -1
    altered = arr.tobytes() != before

    # (for comparison: as soon as one dtype differs, chunks are copies)
    copy_wrapper = SourceDataWrapper.make_wrapper(arr, known_dtypes={'RPM': np.float64})
    copied = not np.shares_memory(copy_wrapper.load_chunk(0, 3), arr)

    return aliased_chunk and aliased_records and altered and copied


FINDINGS = [
    (finding_1, "write(path, data=path): output name equal to the HDF5 source silently replaces the HDF5 file "
                "with the DLIS file"),
    (finding_2, "output name that is a symlink to the HDF5 source destroys the source the same way"),
    (finding_3, "read-only np.memmap given as channel data is altered when the output goes to its backing file"),
    (finding_4, "structured-array fast path chunks/windows on writable views of the caller's array, not on copies"),
]


if __name__ == '__main__':
    for i, (func, description) in enumerate(FINDINGS, start=1):
        try:
            violated = bool(func())
        except Exception as exc:
            violated = False
            description += f" [reproduction raised {type(exc).__name__}: {exc}]"
        print(f"FINDING {i}: {description} -> {'VIOLATED' if violated else 'not reproduced'}")
