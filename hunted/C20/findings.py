"""Reproductions of violations of property C20 ("a rejected call leaves no trace in later files").

Run as:  cd /tmp/hunt/C20 && PYTHONPATH=/tmp/hunt/C20/src /venv/bin/python findings.py

Every finding builds two specifications with the public API: a 'fresh' one (only the valid calls) and a 'dirty' one
(the same valid calls plus a rejected add_* call, or plus a write which raises and whose cause is then removed).
The outcome is judged with plain Python / own parsing of the output bytes / dlisio - never with the library itself.
"""

import contextlib
import logging
import os
import sys
import tempfile
from datetime import datetime

import numpy as np

from dliswriter import DLISFile, AttrSetup

logging.disable(logging.CRITICAL)

T = datetime(2020, 1, 1, 12, 0, 0)
TMP = tempfile.mkdtemp(prefix='c20_')


# ---------------------------------------------------------------------------------------------------------- helpers
def write(df, name, **kwargs):
    """Write the file (small output chunk!) and return its bytes. Progress bar output is swallowed."""

    path = os.path.join(TMP, name)
    if os.path.exists(path):
        os.remove(path)
    with _silenced_stderr():
        df.write(path, output_chunk_size=2 ** 20, **kwargs)
    with open(path, 'rb') as f:
        return f.read()


@contextlib.contextmanager
def _silenced_stderr():
    """Send file descriptor 2 to /dev/null for a while (the progress bar keeps its own reference to stderr)."""

    sys.stderr.flush()
    saved = os.dup(2)
    devnull = os.open(os.devnull, os.O_WRONLY)
    try:
        os.dup2(devnull, 2)
        yield
    finally:
        sys.stderr.flush()
        os.dup2(saved, 2)
        os.close(saved)
        os.close(devnull)


def raises(func, *args, **kwargs):
    """Return the exception raised by the call (or None)."""

    try:
        func(*args, **kwargs)
    except Exception as exc:  # noqa
        return exc
    return None


def origin(lf, name='O', **kwargs):
    # explicit file set number and creation time: otherwise they are random / 'now' and no two files are equal
    return lf.add_origin(name, file_set_number=1, creation_time=T, **kwargs)


def set_order(b):
    """Own parser: walk visible records and logical record segments; return the set type of each EFLR in the file."""

    pos = 80  # storage unit label
    out = []
    while pos < len(b):
        vr_len = int.from_bytes(b[pos:pos + 2], 'big')
        assert b[pos + 2] == 0xff and b[pos + 3] == 1
        end = pos + vr_len
        p = pos + 4
        while p < end:
            seg_len = int.from_bytes(b[p:p + 2], 'big')
            attrs = b[p + 2]
            is_eflr, has_predecessor = bool(attrs & 0x80), bool(attrs & 0x40)
            if is_eflr and not has_predecessor:
                body = b[p + 4:p + seg_len]
                assert body[0] in (0xf0, 0xf8)  # set component
                out.append(body[2:2 + body[1]].decode())
            p += seg_len
        pos = end
    return out


# --------------------------------------------------------------------------------------------------------- findings
def finding_1():
    """Rejected add_zone in logical file 1 -> its empty ZoneSet is later handed to logical file 2 -> write raises."""

    def build(with_rejected_call):
        df = DLISFile()
        lf1 = df.add_logical_file(fh_id='A')
        origin(lf1)
        c1 = lf1.add_channel('C1', data=np.arange(5.), set_name='S1')
        lf1.add_frame('F1', channels=[c1], set_name='S1')
        if with_rejected_call:
            exc = raises(lf1.add_zone, 'Z', domain='NOPE')  # value outside the enumeration
            assert isinstance(exc, ValueError)
        lf2 = df.add_logical_file(fh_id='B')
        origin(lf2, 'O2', set_name='S2')
        c2 = lf2.add_channel('C2', data=np.arange(5.), set_name='S2')
        lf2.add_frame('F2', channels=[c2], set_name='S2')
        lf2.add_zone('Z2', domain='TIME')   # only logical file 2 has zones
        return df

    fresh = raises(write, build(False), 'f1_fresh.dlis')
    dirty = raises(write, build(True), 'f1_dirty.dlis')
    return fresh is None and isinstance(dirty, RuntimeError) and 'shared between two logical files' in str(dirty)


def finding_2():
    """One rejected add_zone -> empty ZoneSet is iterated as an uncounted logical record -> write raises ValueError."""

    def build(n_rejected, n_rows):
        df = DLISFile()
        lf = df.add_logical_file()
        origin(lf)
        for i in range(n_rejected):
            exc = raises(lf.add_zone, 'Z', domain='NOPE', set_name=f'Z{i}' if i else None)
            assert isinstance(exc, ValueError)
        c = lf.add_channel('C', data=np.arange(float(n_rows)))
        lf.add_frame('F', channels=[c])
        return df

    # minimal: a single rejected call, 3 rows of data
    fresh = raises(write, build(0, 3), 'f2_fresh.dlis')
    dirty = raises(write, build(1, 3), 'f2_dirty.dlis')
    minimal = fresh is None and isinstance(dirty, ValueError) and 'too large' in str(dirty)

    # robust variant (does not depend on the update schedule of the progress bar): a dozen rejected calls
    fresh = raises(write, build(0, 1), 'f2_fresh.dlis')
    dirty = raises(write, build(12, 1), 'f2_dirty.dlis')
    robust = fresh is None and isinstance(dirty, ValueError) and 'too large' in str(dirty)

    return minimal or robust


def finding_3():
    """A rejected add_* call fixes the position of its set type: later files have the EFLR sets in another order."""

    # (a) natural: forgetting set_name in the second logical file (RuntimeError), then doing it right later
    def build_a(with_rejected_call):
        df = DLISFile()
        lf1 = df.add_logical_file(fh_id='A')
        origin(lf1)
        c1 = lf1.add_channel('C1', data=np.arange(5.))
        lf1.add_frame('F1', channels=[c1])
        lf1.add_zone('Z1', domain='TIME')
        lf2 = df.add_logical_file(fh_id='B')
        origin(lf2, 'O2', set_name='B')
        c2 = lf2.add_channel('C2', data=np.arange(5.), set_name='B')
        if with_rejected_call:
            exc = raises(lf2.add_zone, 'Z2', domain='TIME')  # default set already belongs to logical file 1
            assert isinstance(exc, RuntimeError)
        lf2.add_frame('F2', channels=[c2], set_name='B')
        lf2.add_zone('Z2', domain='TIME', set_name='B')
        return df

    fresh_a, dirty_a = write(build_a(False), 'f3a_fresh.dlis'), write(build_a(True), 'f3a_dirty.dlis')

    # (b) single logical file: add_channel rejected because of a set_name of a wrong type
    def build_b(with_rejected_call):
        df = DLISFile()
        lf = df.add_logical_file()
        origin(lf)
        if with_rejected_call:
            exc = raises(lf.add_channel, 'C', data=np.arange(5.), set_name=['S'])
            assert isinstance(exc, TypeError)
        lf.add_zone('Z', domain='TIME')
        c = lf.add_channel('C', data=np.arange(5.))
        lf.add_frame('F', channels=[c])
        return df

    fresh_b, dirty_b = write(build_b(False), 'f3b_fresh.dlis'), write(build_b(True), 'f3b_dirty.dlis')

    a = (set_order(fresh_a)[5:] == ['FILE-HEADER', 'ORIGIN', 'CHANNEL', 'FRAME', 'ZONE']
         and set_order(dirty_a)[5:] == ['FILE-HEADER', 'ORIGIN', 'CHANNEL', 'ZONE', 'FRAME'])
    b = (set_order(fresh_b) == ['FILE-HEADER', 'ORIGIN', 'ZONE', 'CHANNEL', 'FRAME']
         and set_order(dirty_b) == ['FILE-HEADER', 'ORIGIN', 'CHANNEL', 'ZONE', 'FRAME'])
    return a and b and fresh_a != dirty_a and fresh_b != dirty_b


def finding_4():
    """A write refused with 'No frames defined' fixes the position of the FRAME set: the later file differs."""

    def build(with_failed_write):
        df = DLISFile()
        lf = df.add_logical_file()
        origin(lf)
        c = lf.add_channel('C', data=np.arange(5.))
        if with_failed_write:
            exc = raises(write, df, 'f4_failed.dlis')
            assert isinstance(exc, RuntimeError) and 'No frames defined' in str(exc)
        # remove the cause (add the frame) - after having added a zone
        lf.add_zone('Z', domain='TIME')
        lf.add_frame('F', channels=[c])
        return df

    fresh, dirty = write(build(False), 'f4_fresh.dlis'), write(build(True), 'f4_dirty.dlis')
    return (fresh != dirty
            and set_order(fresh) == ['FILE-HEADER', 'ORIGIN', 'CHANNEL', 'ZONE', 'FRAME']
            and set_order(dirty) == ['FILE-HEADER', 'ORIGIN', 'CHANNEL', 'FRAME', 'ZONE'])


def finding_5():
    """Failed write leaves a 'dimension' derived from the wrong value in a Calibration-Measurement: repair is refused."""

    def build(with_failed_write):
        df = DLISFile()
        lf = df.add_logical_file()
        origin(lf)
        c = lf.add_channel('C', data=np.arange(5.))
        lf.add_frame('F', channels=[c])
        m = lf.add_calibration_measurement(
            'M',
            maximum_deviation=[[1, 2]] if with_failed_write else [[1, 2, 3]],   # <- 2 elements: the mistake
            standard_deviation=[[1, 2, 3]]
        )
        if with_failed_write:
            exc = raises(write, df, 'f5_failed.dlis')
            assert isinstance(exc, RuntimeError) and 'STANDARD-DEVIATION' in str(exc)
            m.maximum_deviation.value = [[1, 2, 3]]  # the cause is removed
        return df, m

    fresh = raises(write, build(False)[0], 'f5_fresh.dlis')
    df, m = build(True)
    dirty = raises(write, df, 'f5_dirty.dlis')
    return (fresh is None and isinstance(dirty, RuntimeError) and 'MAXIMUM-DEVIATION' in str(dirty)
            and m.dimension.value == [2])


def finding_6():
    """Failed write (channel name not ASCII / too long) leaves the bad name in the channel's long_name."""

    def build(bad_name):
        df = DLISFile()
        lf = df.add_logical_file()
        origin(lf)
        c = lf.add_channel(bad_name or 'DEPTH', data=np.arange(5.), dataset_name='d')
        lf.add_frame('F', channels=[c])
        if bad_name:
            exc = raises(write, df, 'f6_failed.dlis')
            assert isinstance(exc, (UnicodeEncodeError, ValueError))
            c.name = 'DEPTH'  # the cause is removed
        return df

    fresh = write(build(None), 'f6_fresh.dlis')

    # (a) a name which is not ASCII: the repaired specification still cannot be written
    dirty_a = raises(write, build('DÉPTH'), 'f6a_dirty.dlis')

    # (b) a name of more than 255 characters: the repaired specification is written, with the old name as LONG-NAME
    dirty_b = write(build('A' * 300), 'f6b_dirty.dlis')
    import dlisio
    dlisio.common.set_encodings(['latin1'])
    with dlisio.dlis.load(os.path.join(TMP, 'f6_fresh.dlis')) as (f, *_):
        long_name_fresh = f.object('CHANNEL', 'DEPTH').long_name
    with dlisio.dlis.load(os.path.join(TMP, 'f6b_dirty.dlis')) as (f, *_):
        long_name_dirty = f.object('CHANNEL', 'DEPTH').long_name

    return (isinstance(dirty_a, UnicodeEncodeError)
            and fresh != dirty_b and long_name_fresh == 'DEPTH' and long_name_dirty == 'A' * 300)


def finding_7():
    """Failed write leaves an element limit copied from the wrong dimension in a channel (not in a frame)."""

    def build(with_failed_write):
        df = DLISFile()
        lf = df.add_logical_file()
        origin(lf)
        ax = lf.add_axis('AX', coordinates=[1., 2., 3., 4.])
        c = lf.add_channel('C', data=np.arange(5.))
        lf.add_frame('F', channels=[c])
        x = lf.add_channel('X', dimension=[3] if with_failed_write else [4], axis=ax)  # [3]: the mistake
        if with_failed_write:
            exc = raises(write, df, 'f7_failed.dlis')
            assert isinstance(exc, RuntimeError) and 'number of coordinates' in str(exc)
            x.dimension.value = [4]  # the cause is removed
        return df

    fresh = raises(write, build(False), 'f7_fresh.dlis')
    dirty = raises(write, build(True), 'f7_dirty.dlis')
    return fresh is None and isinstance(dirty, RuntimeError) and 'element limit is [3]' in str(dirty)


def finding_8():
    """(borderline: set_attributes, not add_*) a rejected set_attributes call is applied in part."""

    def build(with_rejected_call):
        df = DLISFile()
        lf = df.add_logical_file()
        origin(lf)
        c = lf.add_channel('C', data=np.arange(5.))
        lf.add_frame('F', channels=[c])
        eq = lf.add_equipment('EQ', height=AttrSetup(1.0, 'm'), length=AttrSetup(5.0, 'm'))
        if with_rejected_call:
            exc = raises(eq.set_attributes, height=AttrSetup(2.0, 5))          # units of a wrong type
            assert isinstance(exc, TypeError)
            exc = raises(eq.set_attributes, length=7.0, status=3)              # status outside {0, 1}
            assert isinstance(exc, ValueError)
        return df

    fresh, dirty = write(build(False), 'f8_fresh.dlis'), write(build(True), 'f8_dirty.dlis')
    import dlisio
    with dlisio.dlis.load(os.path.join(TMP, 'f8_fresh.dlis')) as (f, *_):
        e = f.object('EQUIPMENT', 'EQ')
        v_fresh = (e.height, e.length)
    with dlisio.dlis.load(os.path.join(TMP, 'f8_dirty.dlis')) as (f, *_):
        e = f.object('EQUIPMENT', 'EQ')
        v_dirty = (e.height, e.length)
    return fresh != dirty and v_fresh == (1.0, 5.0) and v_dirty == (2.0, 7.0)


def finding_9():
    """After a failed write, valid assignments to values which that write had derived from the data are discarded."""

    def build(with_failed_write):
        df = DLISFile()
        lf = df.add_logical_file()
        origin(lf)
        c = lf.add_channel('C', data=np.arange(5.))
        img = lf.add_channel('IMG', data=np.arange(15.).reshape(5, 3))
        fr = lf.add_frame('F', channels=[c, img])
        if with_failed_write:
            path = os.path.join(TMP, 'no', 'such', 'directory', 'x.dlis')
            with _silenced_stderr():
                exc = raises(df.write, path, output_chunk_size=2 ** 20)
            assert isinstance(exc, FileNotFoundError)
        # valid assignments (the cause of the failure - the path - is removed as well)
        fr.index_max.value = 10
        fr.spacing.value = 2
        img.element_limit.value = [5]
        return df

    import dlisio
    values = {}
    for key in (False, True):
        write(build(key), f'f9_{key}.dlis')
        with dlisio.dlis.load(os.path.join(TMP, f'f9_{key}.dlis')) as (f, *_):
            values[key] = (f.object('FRAME', 'F').index_max, f.object('FRAME', 'F').spacing,
                           list(f.object('CHANNEL', 'IMG').element_limit))
    return values[False] == (10.0, 2.0, [5]) and values[True] == (5.0, 1.0, [3])


DESCRIPTIONS = {
    1: "rejected add_zone in logical file 1 leaves an empty set which a later valid add_zone of logical file 2 "
       "fills: write raises 'shared between two logical files'",
    2: "a single rejected add_* call leaves an empty set which is iterated as an uncounted logical record: "
       "write of a small file raises ValueError 'Value 7 is too large'",
    3: "a rejected add_* call (set of another logical file / unhashable set_name) fixes the position of its "
       "set type: EFLR sets of later files are in another order than without the call",
    4: "a write refused with 'No frames defined' fixes the position of the FRAME set: after adding the frame, "
       "the file differs from the one of a fresh specification",
    5: "a failed write leaves a dimension derived from the wrong value in a Calibration-Measurement: "
       "after the value is corrected the write still raises",
    6: "a failed write (channel name not ASCII / too long) leaves the bad name as the channel's long_name: "
       "after renaming, the write still raises / the file carries the old name",
    7: "a failed write leaves an element limit copied from the wrong dimension in a channel: "
       "after the dimension is corrected the write still raises",
    8: "(borderline) a rejected EFLRItem.set_attributes call is applied in part: the values set before the "
       "offending one are written to later files",
    9: "after a failed write (output directory does not exist), valid assignments to frame.index_max / spacing "
       "and channel.element_limit are silently replaced by values derived from the data at the next write",
}


if __name__ == '__main__':
    for n, description in DESCRIPTIONS.items():
        try:
            violated = globals()[f'finding_{n}']()
        except Exception as exc:  # noqa
            violated = False
            description += f' [reproduction failed: {type(exc).__name__}: {exc}]'
        print(f"FINDING {n}: {description} -> {'VIOLATED' if violated else 'not reproduced'}")
