#!/bin/sh
# run every check's tier ($1 = quick|thorough, default quick); prints one summary line per property
cd "$(dirname "$0")" || exit 64
T=${1:-quick}
rc=0
for i in 01 02 03 04 05 06 07 08 09 10 11 12 13 14 15 16 17 18 19 20; do
  out=$(./check C$i "$T" 2>&1); r=$?
  echo "$out" | grep -E "^(VIOLATION|INCONCLUSIVE|KNOWN-FINDING|C$i )" | cut -c1-220
  [ $r -ne 0 ] && { echo "  -> C$i exit $r"; rc=1; }
done
exit $rc
