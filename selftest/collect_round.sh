#!/bin/sh
# collect the work of one seeding sub-agent: selftest/collect_round.sh <round-dir> <Cnn> <agent-suffix>
# (takes git diff of <round-dir>/<Cnn> as patch.diff, demo.py, NOTES.md -> /verif/seeded/<Cnn>-<suffix>/, then confirms)
rd=$1; p=$2; sfx=$3
W=$rd/$p; id=$p-$sfx; S=/verif/seeded/$id
mkdir -p $S
git -C $W diff -- src/dliswriter > $S/patch.diff
[ -s $S/patch.diff ] || { echo "$id: empty diff"; exit 2; }
cp $W/demo.py $S/demo.py || exit 2
cp $W/NOTES.md $S/NOTES.md 2>/dev/null
/verif/selftest/confirm_seed.sh $id $4
