#!/bin/sh
# confirm one seeded change in a scratch worktree of /repo HEAD: demo PASS without / FAIL with, full test-suite passes with it
# usage: selftest/confirm_seed.sh <seed-id> [full]
id=$1; full=$2
S=/verif/seeded/$id
W=/tmp/confirm/$id
rm -rf $W; mkdir -p /tmp/confirm
git -C /repo worktree add -q --detach $W HEAD || exit 3
cd $W || exit 3
mkdir -p src/tests/outputs
cp $S/demo.py demo.py
PYTHONPATH=$W/src /venv/bin/python demo.py > demo_without.log 2>&1; r0=$?
git apply $S/patch.diff || { echo "$id: patch does not apply"; cd /; git -C /repo worktree remove --force $W; exit 4; }
PYTHONPATH=$W/src /venv/bin/python demo.py > demo_with.log 2>&1; r1=$?
fast=$(PYTHONPATH=$W/src /venv/bin/python -m pytest src/tests/test_logical_record src/tests/test_utils -q -p no:cacheprovider 2>&1 | tail -1)
res="$id: demo without=$r0 with=$r1; fast: $fast"
if [ "$full" = "full" ]; then
  fullres=$(env -u WELL_ID_DLISWRITER_VERIF PYTHONPATH=$W/src /venv/bin/python -m pytest -q -p no:cacheprovider --timeout=900 2>&1 | tail -1)
  res="$res; full: $fullres"
fi
echo "$res"
echo "$res" > $S/confirm.log
tail -3 demo_with.log | cut -c1-300 >> $S/confirm.log
cd /; git -C /repo worktree remove --force $W
