"""C01 (physical layout: label, visible records, segments) - adversarial search, round 2.

(FINDINGS.md could not be created by the tool; its content is this docstring.)

RESULT: NO FINDINGS. `python findings.py` prints `NO FINDINGS` after re-running a compact version of the
independent check (chk.py: own byte-level parser of SUL / VR / LRS, no library code; dlisio was used in addition
during exploration).

Why the property is hard to break: every byte after the label goes through exactly one path,
LogicalRecordBytes.make_segments -> DLISWriter._make_visible_record -> BufferedOutput -> ByteWriter
(src/dliswriter/logical_record/core/logical_record/logical_record_bytes.py, src/dliswriter/file/writer.py);
one segment per visible record; the same sul.max_record_length feeds both the label text and the writer; the label
fields go through get_ascii_bytes, which fixes the width and encodes as ASCII or raises before anything is written.

Attacks tried (all gave either a well-formed file or a refused / failed write):

Segmentation / framing
 1. Brute force of make_segments for every even capacity 12..78 and every body length 1..6*cap+30 (random bytes,
    EFLR and IFLR), and capacities 8184 / 16376 with L = k*cap+d, |d|<=30: length field, evenness, >=16, <=cap+4,
    pad flag, every pad byte == pad count, pad count <= body, first/last bits, exact re-assembly.
 2. Whole files with max_record_length 20,22,...,34,40,50,64,100,128,256,1000,8192,16384 and no-format payloads
    such that L = k*(max-8)+d, k=1..3, d=-14..14, plus payload sizes 0..19 (bodies shorter than 12).
 3. Same with output_chunk_size = max, max+1 (flush at every record), 2**16; float chunk sizes (20.0,
    np.float64(27.0)); input_chunk_size 2, 3, True.
 4. dlisio cross-check for max 20..130 x (rows,width) in {(1,1),(3,1),(3,2),(4,7),(2,33)} x uint8/int16/float32/
    float64: loads, one logical file, curves equal, label maxlen equal.
 5. Records far above 65535 bytes (70000-sample float64 rows, 200001-byte no-format) at max 16384; 4000-sample row
    and 255-character names at max 22.
 6. Empty no-format payload ('' and b''); zero-width channel (shape (n,0)).
 7. Empty EFLR sets left by rejected add_parameter / add_zone calls in the same logical file (body b'' -> no
    segment at all; file still tiles exactly).
 8. np.bytes_ / np.str_ / bytearray payloads; the same NoFormatFrameData object appended twice.
 9. Three logical files at max 30 / chunk 31.
10. High-compatibility mode at max 20, chunk 20.

Label
11. sul_sequence_number as IntEnum, np.uint8, digit text with leading zeros ('0042'), 9999; refused: bool, 0,
    10000, float, non-ASCII digits, ' 1'.
12. max_record_length as IntEnum; refused at write: odd, <20, >16384, float, numpy int, bool.
13. set_identifier '', exactly 60 characters, 61 (refused before the file is touched), non-ASCII (refused).
14. Label modified after creation (max_record_length=20, sequence_number, set_identifier): the file follows.
15. DLISFile(storage_unit_label=sul, set_identifier=..., sul_sequence_number=..., max_record_length=...): keyword
    values are ignored in favour of the object (precedence by design; label and records agree with the object) -
    not counted.
16. One label / max length changed between two writes.

Files / sequences of calls
17. Two writes of one DLISFile onto the same path, long then short (to_idx=2), then from_idx=10 with
    input_chunk_size=3: truncated and rewritten, no left-over bytes.
18. A failed write (non-ASCII no-format text -> UnicodeEncodeError after the label was on disk) followed by a
    repaired, successful write to the same path.
19. pathlib.Path target; bytes target (file complete and valid, but write() then raises TypeError in the closing
    log line Path(filename).resolve(), writer.py:249 - not a successful write, not a C01 matter).
20. output_chunk_size NaN / inf / fractional / smaller than max / False / 0 (falls back to 2**32): refused or
    default; never a malformed 'successful' file.
21. lr_type_struct cache on the metaclass for record type 0 (b'\x00' is truthy); ushort / _write_struct lru
    caches cannot alter segment headers.
22. Integer file descriptor as target (second open fails -> failed write).
23. Frame without channels; logical file appended twice to df.logical_files; LogicalFile of another DLISFile
    appended: refused or well-formed.
24. Record count announced to progressbar vs yielded (empty sets, file header set, no-format data): consistent.
25. StopIteration escaping MultiFrameData.__next__ (would silently end frame data): not reachable.
26. Structured-array fast path (NumpyDataWrapper.load_chunk returns a slice of the source): lengths consistent.
27. Direct use of DLISWriter with a label whose max_record_length differs from visible_record_length, or of
    make_segments with an odd capacity, does give records longer than declared - but that is not DLISFile.write,
    where the two cannot differ; not counted.
"""
import logging
import os
import sys
import tempfile

sys.path.insert(0, os.path.dirname(os.path.abspath(__file__)))
logging.disable(logging.CRITICAL)


def self_check() -> bool:
    """Return True if all sampled files are well-formed (i.e. no violation observed)."""

    sys.stderr = open(os.devnull, 'w')  # silence the progress bar (it binds stderr when first imported)
    import numpy as np
    from dliswriter import DLISFile
    from chk import check

    ok = True
    with tempfile.TemporaryDirectory() as tmp:
        p = os.path.join(tmp, 'a.dlis')
        for maxlen in (20, 22, 26, 64, 16384):
            cap = maxlen - 8
            sizes = sorted({k * cap + d - 5 for k in (1, 2, 3) for d in range(-14, 15) if k * cap + d - 5 >= 0}
                           | set(range(14)))
            df = DLISFile(max_record_length=maxlen, sul_sequence_number='0042', set_identifier='x' * 60)
            lf = df.add_logical_file()
            lf.add_origin('O')
            c1 = lf.add_channel('IDX', data=np.arange(5, dtype=np.float64))
            c2 = lf.add_channel('V', data=np.arange(15).reshape(5, 3).astype(np.int16))
            lf.add_frame('F', channels=(c1, c2), index_type='BOREHOLE-DEPTH')
            nf = lf.add_no_format('NF')
            for s in sizes:
                lf.add_no_format_frame_data(nf, b'x' * s)
            for ocs in (maxlen, float(maxlen + 1), 2 ** 16):
                df.write(p, output_chunk_size=ocs, input_chunk_size=2)
                lrs: list = []
                probs = check(p, seq='0042', maxlen=maxlen, ident='x' * 60, collect=lrs)
                bodies = [b for (t, e, b) in lrs if not e and t == 1]
                if probs or [len(b) - 5 for b in bodies] != sizes:
                    ok = False
    return ok


if __name__ == '__main__':
    good = self_check()
    sys.stderr = sys.__stderr__
    print('NO FINDINGS' if good else 'self-check unexpectedly found a malformed file')
