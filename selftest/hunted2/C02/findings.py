"""Adversarial findings for property C02 (segmentation is lossless, ordered and correctly bracketed).

Run:  cd /tmp/hunt2/C02 && PYTHONPATH=/tmp/hunt2/C02/src /venv/bin/python findings.py

Details are in FINDINGS.md.  Summary: the splitting arithmetic itself holds for every (capacity, length >= 1) pair
tried; the one hole is a logical record with an EMPTY body (an EFLR set without objects, which a rejected add_* call
leaves behind in its logical file): the writer is handed that record, announces it in its record count, and then
emits no segment at all for it, so the file holds one record fewer than the writer was given.
"""

import os
import struct
import tempfile

os.environ['WELL_ID_DLISWRITER_VERIF'] = '1'   # switch on the library's own observation tap (read at import time)

import numpy as np  # noqa: E402
from dliswriter import DLISFile  # noqa: E402
from dliswriter.utils.internal import verif_taps  # noqa: E402


def _parse(path):
    """Independent reassembly of the logical records of a DLIS file -> list of (is_eflr, type, body)."""

    b = open(path, 'rb').read()
    pos, records, cur = 80, [], None
    while pos < len(b):
        vrlen, ff, ver = struct.unpack('>HBB', b[pos:pos + 4])
        assert (ff, ver) == (0xFF, 1)
        p, end = pos + 4, pos + vrlen
        while p < end:
            slen, attrs, typ = struct.unpack('>HBB', b[p:p + 4])
            body = b[p + 4:p + slen]
            if attrs & 1:
                body = body[:-body[-1]]
            eflr, pred, succ = bool(attrs & 0x80), bool(attrs & 0x40), bool(attrs & 0x20)
            if not pred:
                assert cur is None
                cur = [eflr, typ, b'']
            else:
                assert cur is not None and cur[0] == eflr and cur[1] == typ
            cur[2] += body
            if not succ:
                records.append(tuple(cur))
                cur = None
            p += slen
        pos = end
    assert cur is None
    return records


def finding_1():
    """A record with an empty body (the empty set left by a rejected add_* call) is given to the writer but not written.

    One logical file; add_zone is rejected (bad domain) and the exception is handled by the caller; write() succeeds.
    The writer is given 10 logical records (len() of the record sequence, i.e. what the progress bar announces, as well
    as the number of records entering segmentation), the file holds 9: the ZONE record has vanished.
    """

    df = DLISFile(max_record_length=8192)
    lf = df.add_logical_file()
    lf.add_origin('O')
    c = lf.add_channel('D', data=np.arange(5, dtype=np.float64))
    lf.add_frame('F', channels=(c,), index_type='BOREHOLE-DEPTH')
    try:
        lf.add_zone('Z', domain='NOPE')          # rejected: ValueError
    except ValueError:
        pass

    announced = len(df.generate_logical_records(chunk_size=None))  # the count write() passes to the writer

    given = []

    def sink(is_eflr, lr_type_struct, body, max_n_bytes):
        given.append((bool(is_eflr), lr_type_struct[0], bytes(body)))

    verif_taps.lr_sinks.append(sink)
    try:
        with tempfile.TemporaryDirectory() as d:
            path = os.path.join(d, 'f1.dlis')
            df.write(path, output_chunk_size=2 ** 20)
            in_file = _parse(path)
    finally:
        verif_taps.lr_sinks.remove(sink)

    lost = [g for g in given if g not in in_file]
    return (announced == len(given) == 10 and len(in_file) == 9
            and lost == [(True, 5, b'')]                      # the EFLR of type 5 (STATIC: the ZONE set), empty body
            and [g for g in given if g[2]] == in_file)        # everything else is intact and in order


def finding_1b():
    """Same hole at the level of the segmentation function: a zero-length body yields zero segments."""

    from dliswriter.logical_record.core.logical_record.logical_record_bytes import LogicalRecordBytes
    return list(LogicalRecordBytes(b'', b'\x05', True).make_segments(12)) == []


if __name__ == '__main__':
    import logging
    logging.disable(logging.CRITICAL)
    results = [
        (1, "a logical record with an empty body (empty set left by a rejected add_*) is counted and handed to the "
            "writer but no segment is written for it: file has one record fewer than given", finding_1),
        ('1b', "LogicalRecordBytes.make_segments of a zero-length body yields no segment at all", finding_1b),
    ]
    for n, text, f in results:
        try:
            ok = f()
        except Exception as e:  # noqa
            ok = False
            text += f" [raised {type(e).__name__}: {e}]"
        print(f"FINDING {n}: {text} -> {'VIOLATED' if ok else 'not reproduced'}")
