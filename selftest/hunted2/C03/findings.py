"""Reproductions of violations of property C03 (channel data round-trips bit-exactly, one numbered record per row).

Run as:  cd /tmp/hunt2/C03 && PYTHONPATH=/tmp/hunt2/C03/src /venv/bin/python findings.py

(FINDINGS.md could not be created by the tool in use; its content is kept here.)

FINDINGS
========
Worktree /tmp/hunt2/C03 at f93c01c, numpy 2.5.3, x86-64 little-endian. Files judged with dlisio and with an own
parser of the output bytes (hunt_util.py: VR -> segments -> logical records -> CHANNEL/FRAME EFLRs -> FDATA slots).

All three findings are in the single place where the library changes sample values - the declared cast:

    src/dliswriter/utils/source_data_wrappers.py, SourceDataWrapper.load_chunk, lines 178-187
        chunk = np.zeros(n_rows, dtype=self._dtype)
        ...
            with np.errstate(invalid='raise'):
                chunk[key] = self._data_source[loc][idx]
        except FloatingPointError:
            raise ValueError("... cannot be cast to ... (not-a-number, infinite, or outside of the range ...)")

The decision "convertible / not convertible" is delegated to the CPU's floating-point *invalid* flag as numpy happens
to raise it. That flag (a) is not raised at all for many out-of-range values, (b) for uint32 is raised only by numpy's
SIMD loop (>= 4 contiguous elements) and not by its scalar loop, (c) is also raised for signalling NaNs in
float -> float conversions. Without a declared cast none of this applies, and everything tried round-trips.

Finding 1 - out-of-range float -> uint32: outcome depends on chunk size, row position and memory layout
--------------------------------------------------------------------------------------------------------
Input: one frame, one channel 'A', cast_dtype=np.uint32, data np.array([5e9, 1., 2., 3., 4.])
(5e9 > 2**32-1; commit d55ee77 says such data are refused).

  write(..., input_chunk_size=None) (one chunk of 5)   -> ValueError: Data set 'A' has values which cannot be cast
                                                          to uint32 (not-a-number, infinite, or outside of the range)
  write(..., input_chunk_size=1)                       -> file written; dlisio: A = [705032704, 1, 2, 3, 4]
                                                          (5e9 mod 2**32)
  data reversed [4,3,2,1,5e9], input_chunk_size=4      -> file written; A = [4, 3, 2, 1, 705032704]
    (bad value lands in the 1-row remainder chunk)
  data [5e9, 1., 2.] (3 rows, any chunk size)          -> file written; A = [705032704, 1, 2]
  the same 5 values as a strided view (buf[::2]) or
    an F-ordered 2-D source, one chunk                 -> file written; A[0] = 705032704
  numpy itself: values.astype(np.uint32), whole array  -> [0, 1, 2, 3, 4]

Required: for every input chunk size / memory layout the records hold the input values after the declared cast (or,
per the previous fix, the data are refused for every chunk size). Observed: the same values are refused or accepted
depending on input_chunk_size, on which row of which chunk the value sits in, on the number of rows (<= 3 rows are
never checked) and on the contiguity of the source; when accepted, the record holds 705032704, which is neither the
input nor what numpy's whole-array cast yields (0). Same for float32 sources, for -3e9, 2**32, -2**31-1.
Cause: numpy's scalar double->uint32 loop goes through a 64-bit conversion (no invalid flag, silent truncation), the
SIMD loop (>= 4 contiguous elements) flags invalid; errstate(invalid='raise') only sees the latter.

Finding 2 - out-of-range floats are silently wrapped for 8/16-bit targets (and negative -> unsigned)
-----------------------------------------------------------------------------------------------------
float64 data with a declared cast; file written without any error; dlisio decodes:

  [300., 1.]     cast uint8   -> [44, 1]
  [200., 1.]     cast int8    -> [-56, 1]
  [70000., 1.]   cast uint16  -> [4464, 1]
  [-40000., 1.]  cast int16   -> [25536, 1]
  [-1., 1.]      cast uint32  -> [4294967295, 1]
  [3e9, 1.]      cast int32   -> refused (ValueError ... outside of the range of that type)

Required: the decoded value is the input value after the declared cast; a float outside the target range has no value
in that type (undefined in C), and the library's own error message / commit d55ee77 ("refuse data that a declared cast
to an integer type cannot convert (NaN, infinities, out-of-range floats)") lists it among the refused inputs.
Observed: any out-of-range float with |x| < 2**31 (8/16-bit targets), resp. -2**63 < x < 0 (uint32) is written modulo
2**k; only values which do not even fit the intermediate int32/int64 conversion are refused. (Not the known "in-range
float->integer truncation", nor an integer->integer wrap.) Same code location: the invalid flag is simply not raised
by cvttsd2si + narrowing.

Finding 3 - a signalling NaN makes a declared float32 <-> float64 cast refuse the write
----------------------------------------------------------------------------------------
Input: np.array([0x7f800001, 0x3f800000], dtype=np.uint32).view(np.float32)  (sNaN, 1.0).
  no cast                      -> written, bits 7f800001 preserved (fine)
  cast_dtype=np.float64        -> ValueError: Data set 'A' has values which cannot be cast to float64 (not-a-number,
  (an exact widening)             infinite, or outside of the range of that type); nothing is written
  float64 sNaN 0x7ff0000000000001, cast_dtype=np.float32 -> same refusal
  quiet NaN with payload 0x7fc00001, same casts           -> written fine
Required: "for every supported dtype ... and special value (NaN payloads ...)" one record per row with the value after
the declared cast (numpy: 0x7ff8000020000000). Observed: the frame gets no records at all; the refusal (introduced for
float->integer casts) also hits float->float casts, because converting an sNaN raises the invalid flag too; the
message is wrong for a float target. Independent of chunk size and layout. (Weakest of the three: a refusal, not wrong
bytes.)

What else was tried (no violation found; each written and decoded with the own parser and/or dlisio, bit-compared)
--------------------------------------------------------------------------------------------------------------------
 1. all 8 dtypes x both byte orders, integer extremes (min, max, +-1), chunk sizes 1/3/None;
 2. float32/float64 sNaN / qNaN payloads, +-inf, -0.0, denormals without cast; big-endian arrays, byte-swapped views;
 3. random bit patterns (150-case fuzz): 1-4 channels, scalar / width 1,2,3,7,33,700, C / F / strided / read-only /
    unaligned arrays, sources add_channel(data=) / write(data=dict) / structured array / HDF5, max_record_length
    20,26,64,256,8192,16384, input_chunk_size None,1,2,7,1000, output_chunk_size = record length, row windows;
 4. 2-D channels of width 1 (shape (N,1)) and width 0 (shape (N,0));
 5. widths above the record capacity (4100, 20000, 300000 elements), max_record_length 20 (12-byte segment bodies,
    padded short segments), 300 rows at length 20 checked against dlisio;
 6. >127 and >16383 rows (UVARI frame numbers of 2 and 4 bytes), 255-character frame name;
 7. origin references 0, 1, 127, 128, 16383, 16384, 2**30-1 (OBNAME in FDATA vs FRAME);
 8. 130 and 300 channels in a frame (multi-byte counts);
 9. zero-stride (broadcast_to) arrays, negative strides, np.matrix, np.memmap, np.recarray;
10. structured sources: aligned (padded) dtypes, big-endian / mixed-endian fields, field titles, overlapping /
    re-ordered offsets, subsets and re-ordering of fields, width-1 sub-arrays, strided / reversed arrays with row
    windows and chunking (fast path vs copy path);
11. HDF5 sources: big-endian datasets, groups, chunked + gzip datasets with windows, crosswise dataset mapping, two
    channels on one dataset, .H5 / .hdf5 / dotted file names, int64 with cast;
12. cast_dtype forms: np.dtype objects of either byte order, scalar types incl. np.single, np.intc, np.short, np.ubyte,
    np.byte, np.ushort, np.uintc, np.double; big-endian source + cast; every integer dtype (also int64/uint64) cast to
    float32/float64;
13. fuzz of in-range float->integer casts (lengths 1-1000, contiguous / strided / big-endian / 2-D) for spurious
    refusals or wrong values: none;
14. dimension argument forms: int, list, tuple, numpy ints, float 3.0, bool, AttrSetup, dict, [], None; contradictory
    values (all refused);
15. several writes of one DLISFile with changing width / dtype / row count, cast_dtype set and unset between writes;
16. refused writes (unsupported dtype, unequal lengths) followed by good writes;
17. one channel in two frames; two frames with different row counts, with from_idx / to_idx;
18. three logical files with equally named channels / frames in differently named sets, own data each;
19. high-compatibility mode with and without index type;
20. channel renamed after add_channel(data=...) (dataset name is kept), duplicate channel names / the same channel
    twice in one frame (refused), dataset-name generation X__1 collisions;
21. write(data=dict) overriding add_channel data, extra keys, non-ndarray values (refused), structured data while
    channels hold data (refused);
22. empty data, 0-d arrays, 3-D arrays, from_idx/to_idx edge values (0, negative, beyond, bool): refused before writing;
23. output buffer boundaries (output_chunk_size equal to the visible record length, many flushes);
24. segmentation edge cases in make_segments (remaining 1..11 bytes, odd lengths, pad counts) by code reading and by
    the fuzz at record lengths 20/26;
25. lru_cache'd attribute encoding across several DLISFile objects in one process (DIMENSION / REPRESENTATION-CODE):
    no cross-talk;
26. obname caching of frames after rename / origin_reference change (invalidated correctly).
"""

import logging
import os
import tempfile
import warnings

import numpy as np

logging.disable(logging.CRITICAL)
warnings.simplefilter('ignore')

from dliswriter import DLISFile  # noqa: E402
import dlisio  # noqa: E402

dlisio.common.set_encodings(['latin1'])


def _write(arr, cast, **write_kwargs):
    """One frame with channel 'A' <- arr, declared cast `cast`. Return the decoded curve of A, or the exception."""

    df = DLISFile()
    lf = df.add_logical_file()
    lf.add_origin('O', file_set_number=1)
    ch = lf.add_channel('A', data=arr, cast_dtype=cast)
    lf.add_frame('F', channels=[ch])
    path = os.path.join(tempfile.mkdtemp(prefix='c03_'), 'x.dlis')
    try:
        df.write(path, output_chunk_size=2 ** 20, **write_kwargs)
    except Exception as exc:  # noqa
        return exc
    with dlisio.dlis.load(path) as files:
        curves = files[0].frames[0].curves()
        assert (curves['FRAMENO'] == np.arange(1, len(curves) + 1)).all()
        return np.array(curves['A'])


def finding_1():
    """Out-of-range float -> uint32: refused or written (wrapped), depending on input chunk size / row position /
    memory layout of the very same values."""

    values = np.array([5e9, 1., 2., 3., 4.])      # 5e9 > 2**32 - 1: not convertible to uint32

    whole = _write(values, np.uint32)                           # one chunk of 5 rows
    by_row = _write(values, np.uint32, input_chunk_size=1)      # 5 chunks of 1 row
    moved = _write(values[::-1].copy(), np.uint32, input_chunk_size=4)  # bad value in the 1-row remainder chunk
    strided_src = np.zeros(10)
    strided_src[::2] = values
    strided = _write(strided_src[::2], np.uint32)               # same values, one chunk, non-contiguous source

    refused = isinstance(whole, ValueError)
    written_wrapped = (isinstance(by_row, np.ndarray) and by_row[0] == 5_000_000_000 % 2 ** 32
                       and isinstance(moved, np.ndarray) and moved[-1] == 5_000_000_000 % 2 ** 32
                       and isinstance(strided, np.ndarray) and strided[0] == 5_000_000_000 % 2 ** 32)
    return refused and written_wrapped


def finding_2():
    """Out-of-range floats are silently wrapped modulo 2**k for the 8/16-bit targets (and negative -> unsigned),
    although the same kind of value is refused for int32: the records hold numbers which are not the input."""

    got = {
        'u1': _write(np.array([300., 1.]), np.uint8),       # -> 44
        'i1': _write(np.array([200., 1.]), np.int8),        # -> -56
        'u2': _write(np.array([70000., 1.]), np.uint16),    # -> 4464
        'i2': _write(np.array([-40000., 1.]), np.int16),    # -> 25536
        'u4': _write(np.array([-1., 1.]), np.uint32),       # -> 4294967295
    }
    i4 = _write(np.array([3e9, 1.]), np.int32)              # refused (as the fix d55ee77 promises for all of them)

    wrapped = (all(isinstance(v, np.ndarray) for v in got.values())
               and int(got['u1'][0]) == 44 and int(got['i1'][0]) == -56 and int(got['u2'][0]) == 4464
               and int(got['i2'][0]) == 25536 and int(got['u4'][0]) == 4294967295)
    return wrapped and isinstance(i4, ValueError)


def finding_3():
    """A signalling NaN in float data makes a declared float32 <-> float64 cast refuse the whole write
    (with a message about integer ranges), while quiet NaNs with payloads go through."""

    snan32 = np.array([0x7f800001, 0x3f800000], dtype=np.uint32).view(np.float32)   # sNaN, 1.0
    qnan32 = np.array([0x7fc00001, 0x3f800000], dtype=np.uint32).view(np.float32)   # qNaN with payload, 1.0
    snan64 = np.array([0x7ff0000000000001, 0x3ff0000000000000], dtype=np.uint64).view(np.float64)

    no_cast = _write(snan32, None)              # fine: bits preserved
    widened = _write(snan32, np.float64)        # exact widening cast - refused
    narrowed = _write(snan64, np.float32)       # refused
    quiet = _write(qnan32, np.float64)          # fine

    ok_without_cast = isinstance(no_cast, np.ndarray) and no_cast.astype('<f4').view(np.uint32)[0] == 0x7f800001
    return (ok_without_cast and isinstance(quiet, np.ndarray)
            and isinstance(widened, ValueError) and isinstance(narrowed, ValueError))


FINDINGS = [
    (finding_1, "an out-of-range float cast to uint32 is refused or written wrapped depending on chunk size, "
                "row position and source memory layout"),
    (finding_2, "out-of-range floats cast to 8/16-bit integers (and negative floats to uint32) are silently wrapped "
                "instead of refused, so records hold values that are not the input"),
    (finding_3, "float data containing a signalling NaN cannot be written with a declared float32<->float64 cast "
                "(write refused), unlike any other NaN payload"),
]

if __name__ == '__main__':
    for n, (func, description) in enumerate(FINDINGS, start=1):
        try:
            violated = func()
        except Exception as e:  # noqa
            print(f"FINDING {n}: {description} -> not reproduced ({type(e).__name__}: {e})")
            continue
        print(f"FINDING {n}: {description} -> {'VIOLATED' if violated else 'not reproduced'}")
