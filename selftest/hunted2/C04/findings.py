"""C04 - every EFLR decodes under the RP66 component grammar: NO FINDINGS

(FINDINGS.md could not be created by the tool; its content is this docstring.)

Worktree /tmp/hunt2/C04 at f93c01c; sources imported from /tmp/hunt2/C04/src (checked).

After a code review of the whole encoding path and ~25 000 generated files judged by independent oracles, no input or
call sequence inside the scope of the property (and outside the "already known" list) was found for which the library
writes an explicitly formatted record violating the statement. This script prints `NO FINDINGS`.

ORACLES (independent of the library)
* rp66parse.py (written for this exercise): SUL (80 bytes), visible records, segment headers / attribute bits / pad
  bytes / minimum and even lengths, re-assembly of logical records, and a strict EFLR component parser: set component
  (type, optional name), template (roles, non-empty unique labels), object components, at most len(template) attribute
  components per object, absent = 0x00 exactly, count x values for every representation code 1..27 (undefined codes
  rejected, STATUS 0/1, DTIME field ranges, UVARI/IDENT/ASCII/OBNAME/OBJREF), no bytes left over.
* xcheck.py: because a mis-aligned body can still happen to parse, the parsed content is compared with what was
  defined: number and order of sets, set type / name, number of objects per set (also counted independently from the
  number of accepted add_* calls), OBNAMEs, template labels, and per attribute: absent iff no value / empty list,
  count == number of (flattened) values, representation code, units, every value.
* dlisio with ErrorHandler(minor=RAISE, major=RAISE, critical=RAISE), loading every object and attribute.

WHY THE IMPLEMENTATION IS TIGHT (code locations)
* core/attribute/attribute.py::_write_for_body/_write_values: count and the values written come from the same
  flatten_list(self._value); the code announced and the code used for encoding are the same property; write_struct
  encodes by that code or raises (rc None -> AttributeError, nothing written). convert_value turns every multivalued
  value into a fresh list and refuses list / tuple for single-valued attributes; no converter in the library returns
  a list / tuple, so "count 1 with several values" cannot occur any more.
* core/eflr/eflr_item.py::_make_attrs_bytes: `value is None or count == 0` -> 0x00; the only guard against "announced
  then omitted" (the bare Attribute with [] would produce b'%\x14'); [], (), [[]], [[], []],
  AttrSetup(value=[], units=..) and units without value all reach it; evaluated after _run_checks_and_set_defaults.
* core/eflr/eflr_set.py: template from the first item, objects from every registered item; items register only at the
  end of a successful __init__; all items of a set are of one class with a fixed attribute order.
* core/logical_record/logical_record_bytes.py: bodies < 12 bytes and odd bodies get counted pad bytes; a remainder of
  1..11 bytes is avoided by shortening the previous segment; exceptions can only occur between records (a body is
  complete before its first segment is produced), so even a refused write leaves only whole records.
* utils/internal/struct_writer.py: the lru_cache is keyed on (code, value, type, sign); whatever it returns is a
  self-consistent encoding, so it cannot break the grammar.

WHAT WAS TRIED (all without a violation)
Generic fuzzers (fuzz1.py / fuzz1x.py: 21 object types x every attribute x 100 candidate values = 15 308 cases;
fuzz2.py: 29 record lengths x 49 body sizes; fuzz3.py / 3x / 3y: > 8 000 random multi-step API sequences with 1..3
logical files, named / unnamed sets, rejected calls, post-creation re-assignment, renames, 1..2 writes) and targeted
scripts (t5.py .. t8.py):
 1. unset / None values; attr.value = None after a value was set.
 2. empty list, empty tuple, [[]], [[], []], [[], 1], [1, []] in every multivalued attribute.
 3. AttrSetup / dict forms: units only, value=[] + units, units='', value + units where units are not accepted,
    unknown keys.
 4. 1, 2, 127, 128, 200, 16 384 values (1-, 2-, 4-byte UVARI counts); 130 object references; 130 strings.
 5. nested lists / tuples, 3 levels, ragged nesting, nesting in non-multidimensional attributes.
 6. strings of 0, 1, 127, 128, 255, 256, 20 000, 100 000 characters in IDENT / ASCII attributes, names, set names,
    units.
 7. non-ASCII text, NUL, newline, DEL, blank-only names and set names; empty object name; 255-character set name.
 8. numpy scalars (float32/64, int8/64, uint8), 0-d / 1-d / empty arrays, Decimal, Fraction, complex, bool, bytes,
    range, set, dict, generator as values.
 9. NaN, +-inf, -0.0, overflowing floats, 2**31, 2**40, -1, 255/256, 65 535/65 536, 2**30 in numeric, UVARI, UNORM,
    USHORT attributes.
10. mixed int / float / str / bool lists, numeric-looking text, [1, True], [None], [1, None].
11. datetimes: naive, aware (+14:00), microsecond rounding to 1000 ms, years 1899 / 2155 / 2156, datetime subclass,
    text forms, floats in time attributes.
12. references: same object many times, self-reference of a group, references to the file header, origin and frame
    through OBJREF attributes, objects of the wrong type, plain values in Channel.source.
13. units on every attribute (enum member, text, '', None, 255 characters), units with an absent value, units on
    REPRESENTATION-CODE / SOURCE.
14. named vs unnamed sets, several sets per type, ' ' as set name, 1 / 2 / 256 / 257 copies of a name, 300 objects
    per set.
15. origin references 0, 1, 127, 128, 16 383, 16 384, 2**30-1, 2**30, -1, True; several origins; second origin set.
16. Parameter / Computation with 1..300 zones and scalar / nested / textual values; derived DIMENSION.
17. Calibration-Measurement / -Coefficient with equal, unequal, ragged and empty value lists.
18. Zone minimum / maximum of mixed kinds with and without domain.
19. record lengths 20..68, 128, 256, 8192, 16 384 x bodies of 0..40, 100, 127..129, 255, 1000, 16 383, 16 384,
    20 000, 100 000 bytes.
20. output chunk sizes equal to / just above the record length, odd sizes, float sizes; input_chunk_size.
21. rejected add_* calls (bad value, bad type, bad enum) followed by accepted ones in the same set; partially applied
    set_attributes.
22. values / units re-assigned after creation and between two writes; objects renamed between writes.
23. two and three logical files with distinct set names; one LogicalFile listed twice in DLISFile.logical_files.
24. high-compatibility mode: refused names followed by accepted objects, lower-case set names.
25. frames without index type, with 1..3 channels of 1-d / 2-d data, channels outside frames, explicit dimension /
    element limit.
26. file header ids of 0 and 65 characters, identifiers, sequence numbers; header id re-assigned after creation.
27. the whole examples/create_synth_dlis.py file (21 set types, 173 attributes) under all three oracles.
28. the module-level cache (_write_struct): equal-but-different values (0.0 / -0.0, 1 / 1.0 / True,
    Decimal('1.0') / Decimal('1.00'), renamed items used as text).
Everything the library did not refuse was written as a grammatical EFLR whose decoded content equals the object model;
refusals happen at assignment or at write, before the record concerned is produced.

This script re-runs a compact, deterministic sample of the attacks (about 2 s) with rp66parse.py and prints
`NO FINDINGS` when none yields a violation; a violation would be printed as `FINDING <n>: ... -> VIOLATED`.
"""

import logging
import os
import sys
import tempfile
from contextlib import contextmanager
from datetime import datetime

import numpy as np

sys.path.insert(0, os.path.dirname(os.path.abspath(__file__)))
logging.disable(logging.CRITICAL)

from dliswriter import DLISFile, AttrSetup  # noqa: E402
import rp66parse  # noqa: E402

TMP = tempfile.mkdtemp(prefix='c04_findings_')
STATS = {'written': 0, 'refused': 0}


def _base(max_record_length=8192):
    df = DLISFile(max_record_length=max_record_length)
    lf = df.add_logical_file()
    lf.add_origin('O', creation_time=datetime(2020, 1, 1))
    ch = lf.add_channel('IDX', data=np.arange(5.0))
    lf.add_frame('FR', channels=[ch], index_type='BOREHOLE-DEPTH')
    return df, lf


@contextmanager
def _quiet():
    """Silence the progress bar of the writer (it writes to the stderr file descriptor)."""

    sys.stderr.flush()
    saved, devnull = os.dup(2), os.open(os.devnull, os.O_WRONLY)
    try:
        os.dup2(devnull, 2)
        yield
    finally:
        sys.stderr.flush()
        os.dup2(saved, 2)
        os.close(saved)
        os.close(devnull)


def _violations(df, chunk=2 ** 20):
    """Write the file; return the list of grammar problems found by the independent parser ([] if none).

    An exception raised by the library (input refused) is not a violation of the property: nothing is written."""

    p = os.path.join(TMP, 'f.dlis')
    if os.path.exists(p):
        os.remove(p)
    try:
        with _quiet():
            df.write(p, output_chunk_size=chunk)
    except Exception:
        STATS['refused'] += 1
        return []
    STATS['written'] += 1
    problems, _ = rp66parse.check_file(p)
    return problems


def attack_multiplicities():
    """unset / scalar / empty list / [[]] / 1 / 127 / 128 / 16384 values / nested lists, with and without units."""

    out = []
    for n in (0, 1, 2, 127, 128, 200, 16384):
        df, lf = _base()
        zs = [lf.add_zone(f'Z{i}') for i in range(min(n, 130))]
        lf.add_axis('A', coordinates=[1.5] * n)
        lf.add_axis('B', coordinates=AttrSetup(['x'] * n, units='m'), spacing=AttrSetup(None, 'm'))
        lf.add_comment('C', text=['t' * n] * n if n < 300 else ['t'])
        lf.add_calibration_coefficient('CC', coefficients=[1] * n, references=[] if n == 0 else [2] * n)
        lf.add_calibration_measurement('CM', measurement=[[1, 2]] * n, reference=[[1, 2], [3]], dimension=[2])
        if zs:
            lf.add_parameter('P', zones=zs, values=[[i, i + 1] for i in range(len(zs))])
            lf.add_computation('K', zones=zs, values=list(range(len(zs))))
        out += _violations(df)
    return out


def attack_segmentation():
    """record lengths 20..40 (minimum segments, padding, bytes carried over) x body sizes; small output chunks."""

    out = []
    for vrl in (20, 22, 24, 30, 38):
        for n in (0, 1, 5, 11, 12, 13, 23, 100):
            df, lf = _base(max_record_length=vrl)
            lf.add_comment('C', text=['A' * n] if n else None)
            lf.add_zone('Z', description='B' * (n // 2))
            out += _violations(df, chunk=vrl)
    return out


def attack_names_sets_references():
    """named / unnamed sets, odd names, many copies, large origin references, references to the file header."""

    out = []
    df = DLISFile()
    lf = df.add_logical_file(fh_id='')
    lf.add_origin('O', origin_reference=2 ** 30 - 1)
    ch = lf.add_channel('IDX', data=np.arange(3.0))
    lf.add_zone('')
    lf.add_frame('F', channels=[ch])
    for i in range(256):
        lf.add_zone('Z', set_name=' ' if i % 2 else None)
    lf.add_zone('X' * 255, set_name='Y' * 255)
    g = lf.add_group('G', object_list=[lf.file_header, lf.origins[0], ch])
    g.group_list.value = [g]
    out += _violations(df)
    return out


def attack_state():
    """rejected calls, values re-assigned after creation, renamed objects, two writes, two logical files."""

    out = []
    df = DLISFile()
    for k in (1, 2):
        lf = df.add_logical_file(fh_sequence_number=k)
        sn = f'S{k}'
        lf.add_origin('O', set_name=sn)
        ch = lf.add_channel('IDX', data=np.arange(4.0), set_name=sn)
        lf.add_frame('FR', channels=[ch], set_name=sn)
        for bad in (dict(description=5), dict(maximum=[1, 2]), dict(domain='nope')):
            try:
                lf.add_zone('ZB', set_name=sn, **bad)
            except Exception:
                pass
        z = lf.add_zone('Z', set_name=sn, maximum=AttrSetup(1, 'm'))
        try:
            z.set_attributes(minimum=2, description=[1])
        except Exception:
            pass
    out += _violations(df)
    z.name = 'RENAMED'
    z.maximum.value = datetime(2020, 1, 1)
    ch.minimum_value.value = []
    out += _violations(df)
    return out


ATTACKS = [
    ('value multiplicities and units', attack_multiplicities),
    ('segmentation at small record lengths', attack_segmentation),
    ('names, sets, copies, references', attack_names_sets_references),
    ('rejected calls, re-assignment, re-writes, two logical files', attack_state),
]


if __name__ == '__main__':
    n_found = 0
    for title, fn in ATTACKS:
        problems = fn()
        if problems:
            n_found += 1
            print(f"FINDING {n_found}: {title}: {problems[0]} -> VIOLATED")
    if not n_found:
        print(f"NO FINDINGS ({STATS['written']} files written and parsed, {STATS['refused']} writes refused)")
