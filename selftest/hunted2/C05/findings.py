r"""Reproductions of violations of property C05 (metadata fidelity) in dliswriter - and, in this docstring, the text
that was meant for FINDINGS.md (the tool refused to create that file).

Run as:
    cd /tmp/hunt2/C05 && PYTHONPATH=/tmp/hunt2/C05/src /venv/bin/python findings.py

Every finding builds a tiny DLIS file through the public API, writes it (output_chunk_size=2**20) and judges the
result with something independent of the library: dlisio 1.0.4 and/or a minimal RP66 v1 EFLR parser defined in this
file. Worktree HEAD f93c01c. All six print VIOLATED, < 1 s in total.

Every file below is built as: DLISFile() -> add_logical_file() -> add_origin("ORIGIN") ->
add_channel("DEPTH", data=np.arange(4.), units='m') -> add_frame("MAIN", channels=(ch,)), plus the objects named in
the finding; written with df.write(path, output_chunk_size=2**20).

=====================================================================================================================
FINDING 1 - nested (array) values with a non-square element shape are read back as a different array
=====================================================================================================================
Input:
    v = [[[1, 2, 3], [4, 5, 6]]]            # ONE value; the value is a 2 x 3 array
    lf.add_computation("CO", values=v)      # same with add_parameter(values=v, zones=[z]) and with
                                            # add_calibration_measurement(maximum_deviation=v, ...)
  (also with dimension=[2, 3] given explicitly; dimension=[3, 2] is refused: "RuntimeError: ... shape (1, 2, 3) does
  not match the specified dimensionality: [3, 2]" - so the user has no way to get it right).
Required: nested values decode to an equal value ([[1,2,3],[4,5,6]]).
Observed - bytes (own parser): DIMENSION count=2 UVARI [2, 3]; VALUES count=6 FDOUBL [1,2,3,4,5,6]
  (numpy shape order + row-major flattening). RP66 arrays are column-major (first subscript varies fastest); dlisio
  says so in dlisio/dlis/utils/valuetypes.py ("rp66 defines its array's as column major while python uses row major")
  and therefore reverses DIMENSION / AXIS / ELEMENT-LIMIT:
      dlisio: co.dimension -> [3, 2]
              co.values    -> array([[[1., 2.], [3., 4.], [5., 6.]]])      # shape (1, 3, 2), not (1, 2, 3)
      RP66 rule by hand: np.array(VALUES).reshape(DIMENSION, order='F') -> [[1, 3, 5], [2, 4, 6]]
  Neither is the array the user assigned. Square element shapes (2x2, ...) happen to survive, which is why ordinary
  round trips do not notice. To be read back correctly DIMENSION (and AXIS) would have to be written reversed, or the
  values flattened in column-major order.
Code: DimensionedItem._check_or_set_value_dimensionality in src/dliswriter/logical_record/core/eflr/eflr_item.py
  (dim_from_value = list(arr.shape[1:]), compared with / stored in 'dimension' as is) together with
  Attribute.flatten_list / _write_values in core/attribute/attribute.py (row-major flattening). Affects ParameterItem,
  ComputationItem, CalibrationMeasurementItem. (Channels escape only because sample arrays of more than one dimension
  are refused: "Data sets with more than 2 dimensions are not supported".)

=====================================================================================================================
FINDING 2 - nested MEASUREMENT / REFERENCE of a Calibration-Measurement lose their nesting (no DIMENSION)
=====================================================================================================================
Input:
    lf.add_calibration_measurement("CM", measurement=[[1, 2, 3], [4, 5, 6]],   # two samples of three elements
                                   reference=[[7, 8, 9]])
  Both attributes are declared multivalued=True, multidimensional=True: nested values are their documented form.
Required: the nested value decodes to an equal (nested) value, as for Parameter/Computation values, where the library
  derives DIMENSION from the value.
Observed - bytes: DIMENSION absent; MEASUREMENT count=6 FDOUBL [1,2,3,4,5,6]; REFERENCE count=3 [7,8,9]. Nothing in
  the file tells 2x3 from 3x2 or from six scalar samples. dlisio: m.dimension == [],
  m.attic['MEASUREMENT'].value == [1.0 ... 6.0], m.samples -> "ValueError: cannot reshape array of size 6 into
  shape []". (Variant: with standard=[7] in addition, DIMENSION=[1] is written and the reader sees six scalar samples.)
Code: CalibrationMeasurementItem._run_checks_and_set_defaults
  (src/dliswriter/logical_record/eflr_types/calibration_measurement.py): 'controlled_attrs' - the attributes whose
  shape is checked against / used to set 'dimension' - are maximum_deviation, standard_deviation, standard,
  plus_tolerance, minus_tolerance; 'measurement' and 'reference' are left out.

=====================================================================================================================
FINDING 3 - a channel long name assigned '' is replaced by the channel's name
=====================================================================================================================
Input (two routes + control):
    ch.long_name.value = ''                                        # later assignment
    lf.add_channel("X", data=..., long_name='')                    # keyword at creation
    lf.add_parameter("P", long_name='', values=[1])                # control: same attribute type on a Parameter
Required: text decodes exactly, including strings of length 0; the long-name default is for a long name that was not
  assigned.
Observed: CHANNEL DEPTH: LONG-NAME ASCII ['DEPTH']; CHANNEL X: LONG-NAME ['X'] (dlisio: long_name == 'DEPTH' / 'X'),
  whereas PARAMETER P: LONG-NAME ASCII [''] is kept.
Code: ChannelItem._run_checks_and_set_defaults in src/dliswriter/logical_record/eflr_types/channel.py:
  "if not self.long_name.value:" - an empty string is taken for "not specified" (should be "is None").

=====================================================================================================================
FINDING 4 - units assigned to an attribute that has no value are silently dropped
=====================================================================================================================
Input (three routes):
    p = lf.add_parameter("P");  p.values.units = 'm'
    e = lf.add_equipment("E", height=AttrSetup(units='in'), length={'units': 'ft'})
    # p.values.units == 'm', e.height.units == 'in', e.length.units == 'ft' on the Python side; no error, no warning
Required: "every attribute value AND UNIT the user assigns ... is present in the file". RP66 components carry units
  and value independently (descriptor bits U and V), so "units present, value absent" is representable.
Observed: PARAMETER P: VALUES absent; EQUIPMENT E: HEIGHT absent, LENGTH absent (component byte 0x00);
  dlisio: 'HEIGHT' not in obj.attic.keys().
Code: EFLRItem._make_attrs_bytes in src/dliswriter/logical_record/core/eflr/eflr_item.py:
  "if attr.value is None or attr.count == 0: _bytes += b'\x00'" - the whole attribute, units included, becomes an
  ABSATR component. (Low severity; listed because the statement names units explicitly.)

=====================================================================================================================
FINDING 5 - a rejected set_attributes / AttrSetup assignment is applied in part
=====================================================================================================================
Input:
    eq = lf.add_equipment("E", height=AttrSetup(1.0, 'm'))
    with high_compatibility_mode():
        eq.set_attributes(height=AttrSetup(3.28, 'feet'))     # -> ValueError: 'feet' is not one of the allowed units
    eq.set_attributes(length={'value': 2.0, 'units': 5})      # -> TypeError: Expected a str, got <class 'int'>: 5
  Both calls raise; the user has assigned height = 1.0 m and nothing else.
Required: the file holds what the user assigned (HEIGHT = 1.0 m); a rejected assignment leaves no trace (attributes
  never assigned decode as absent).
Observed: EQUIPMENT E: HEIGHT FDOUBL units='m' [3.28]; LENGTH FDOUBL [2.0] (dlisio: attic['HEIGHT'] ->
  ([3.28], 'm')). "3.28 m" is a quantity nobody ever assigned - the value of the rejected assignment combined with the
  units of the previous one - and LENGTH is present although its assignment failed.
Code: EFLRItem.set_attributes in core/eflr/eflr_item.py: for a dict / AttrSetup it loops
  "for key, value in attr_value.items(): set_value(attr, value, key)" - 'value' is stored before 'units' is validated,
  with no roll-back. (At creation this is harmless because the item is not registered when __init__ raises; after
  creation it is not.)

=====================================================================================================================
FINDING 6 - encrypted=0 / False ("not encrypted") reaches the reader as "encrypted"
=====================================================================================================================
Input: lf.add_frame("MAIN", channels=(ch,), encrypted=0)   or   frame.encrypted.value = False.
  add_frame documents the argument as "Indication whether the frame is encrypted (0 if not, 1 if yes)" and
  FrameItem.convert_encrypted explicitly accepts 0, False, 'no', ...
Required: the reader gets what the user set - a frame that is NOT encrypted.
Observed: bytes: FRAME MAIN: ENCRYPTED USHORT [0] (attribute present). In RP66 the ENCRYPTED attribute is a flag by
  PRESENCE; dlisio: Frame.encrypted is "'ENCRYPTED' in self.attic.keys()" -> True. The user's "not encrypted" decodes
  as "encrypted" (the raw 0 is preserved, its standard meaning is inverted). Such a frame should be written with
  ENCRYPTED absent.
Code: FrameItem.encrypted / convert_encrypted in src/dliswriter/logical_record/eflr_types/frame.py (0 is stored and
  written like any other value; EFLRItem.__init__ only drops None).

=====================================================================================================================
Looked at, no violation found (for the record; scripts in scratch/)
=====================================================================================================================
Attribute pipeline over all routes (keyword, dict, AttrSetup, later .value/.units, set_attributes) x 26 attributes of
15 object types with randomised values (texts of 0..300 printable-ASCII chars, IDENT 0..255 chars, floats incl. +-0.0,
+-inf, 5e-324, 1e300, 2**53, aware/naive date-times, units incl. enum members and 255-char strings), 40 files with
max_record_length 100 / 8192: no difference (t17.py). Every keyword of every add_* lands under the right standard label
(t20.py; labels compared with dlisio's tables). ASCII values of 0..70000 characters and 70000-element text lists with
record lengths 20..16384, 400 fuzzed segmentations (t4.py, t10.py). UVARI boundaries 127/128/16383/16384/2**30-1 for
values and origin references. numpy / Decimal / Fraction / bool scalars; NaN; date-times at 1900 / 2155, DST gap and
fold, sub-millisecond rounding. All reference attributes resolved by dlisio (OBNAME and OBJREF, file header and origin
included). Two logical files with two origins each; objects created before the origin. Several writes with assignments
in between (derived index metadata, long name, dimension). Rejected add_* calls (no empty set is written). Empty
strings / zeros / False given as keywords.
Remarks not counted as findings: enums.Property.INCLINOMETRY_CORRECTED has the value 'INCLINOMETRY-CORRECTD' and
enums.EquipmentType.PANE the value 'Pane' (RP66: INCLINOMETRY-CORRECTED, Panel; the standard spelling of the former is
refused by the strict converter); values=[] on a Parameter/Computation still adds DIMENSION=[1]; CHANNEL MINIMUM-VALUE /
MAXIMUM-VALUE are not RP66 channel attributes (dlisio lists them as unknown).
"""

import logging
import os
import struct
import tempfile

import numpy as np
import dlisio

from dliswriter import DLISFile, AttrSetup, high_compatibility_mode

logging.disable(logging.CRITICAL)
dlisio.common.set_encodings(['latin1'])
_TMP = tempfile.mkdtemp(prefix='c05_')
_counter = [0]


# ---------------------------------------------------------------------------------------------------------------------
# helpers
# ---------------------------------------------------------------------------------------------------------------------
def _base():
    """A minimal complete file: one logical file, origin, one channel, one frame."""

    df = DLISFile()
    lf = df.add_logical_file()
    lf.add_origin("ORIGIN")
    ch = lf.add_channel("DEPTH", data=np.arange(4, dtype=np.float64), units='m')
    lf.add_frame("MAIN", channels=(ch,))
    return df, lf, ch


def _write(df):
    _counter[0] += 1
    path = os.path.join(_TMP, f"f{_counter[0]}.dlis")
    df.write(path, output_chunk_size=2 ** 20)
    return path


class _Reader:
    def __init__(self, b):
        self.b = b
        self.p = 0

    def take(self, n):
        v = self.b[self.p:self.p + n]
        assert len(v) == n
        self.p += n
        return v

    def ushort(self):
        return self.take(1)[0]

    def uvari(self):
        b0 = self.b[self.p]
        if b0 < 0x80:
            return self.ushort()
        if b0 < 0xC0:
            return struct.unpack('>H', self.take(2))[0] & 0x3FFF
        return struct.unpack('>I', self.take(4))[0] & 0x3FFFFFFF

    def ident(self):
        return self.take(self.ushort()).decode('latin1')

    def obname(self):
        return self.uvari(), self.ushort(), self.ident()

    def value(self, rc):
        if rc == 2:
            return struct.unpack('>f', self.take(4))[0]
        if rc == 7:
            return struct.unpack('>d', self.take(8))[0]
        if rc == 14:
            return struct.unpack('>i', self.take(4))[0]
        if rc in (15, 26):
            return self.ushort()
        if rc == 16:
            return struct.unpack('>H', self.take(2))[0]
        if rc == 18:
            return self.uvari()
        if rc == 19:
            return self.ident()
        if rc == 20:
            return self.take(self.uvari()).decode('latin1')
        if rc == 21:
            return struct.unpack('>BBBBBBH', self.take(8))
        if rc == 23:
            return self.obname()
        if rc == 24:
            return (self.ident(),) + self.obname()
        raise ValueError(f"representation code {rc} not handled")


def _parse(path):
    """Minimal independent RP66 v1 reader: {(set type, object name): {label: None | dict(count, rc, units, value)}}."""

    b = open(path, 'rb').read()
    pos = 80
    records, cur = [], None
    while pos < len(b):
        vrl = struct.unpack('>H', b[pos:pos + 2])[0]
        p, end = pos + 4, pos + vrl
        while p < end:
            ln, at, _tp = struct.unpack('>HBB', b[p:p + 4])
            body = b[p + 4:p + ln]
            if at & 0x02:
                body = body[:-2]
            if at & 0x04:
                body = body[:-2]
            if at & 0x01:
                body = body[:-body[-1]]
            if not at & 0x40:
                cur = [at, b'']
            cur[1] += body
            if not at & 0x20:
                records.append(tuple(cur))
            p += ln
        pos = end

    out = {}
    for at, body in records:
        if not at & 0x80:
            continue
        r = _Reader(body)
        d = r.ushort()
        set_type = r.ident()
        if d & 0x08:
            r.ident()
        template, obj, idx = [], None, 0
        while r.p < len(body):
            d = r.ushort()
            role = d >> 5
            if role == 3:
                obj = out.setdefault((set_type, r.obname()[2]), {})
                idx = 0
            elif role in (1, 2):
                t = dict(template[idx]) if obj is not None else dict(label='', count=1, rc=19, units='', value=None)
                if d & 0x10:
                    t['label'] = r.ident()
                if d & 0x08:
                    t['count'] = r.uvari()
                if d & 0x04:
                    t['rc'] = r.ushort()
                if d & 0x02:
                    t['units'] = r.ident()
                if d & 0x01:
                    t['value'] = [r.value(t['rc']) for _ in range(t['count'])]
                if obj is None:
                    template.append(t)
                else:
                    obj[t['label']] = t
                    idx += 1
            elif role == 0:
                obj[template[idx]['label']] = None
                idx += 1
            else:
                raise ValueError(role)
    return out


# ---------------------------------------------------------------------------------------------------------------------
# findings
# ---------------------------------------------------------------------------------------------------------------------
def finding_1():
    """A nested (array) value whose element is not 'square' comes back with another shape and other rows.

    DIMENSION is written in numpy (row-major, slowest first) order, RP66 arrays are column-major (first subscript
    fastest) - which is how dlisio (and any conforming reader) interprets DIMENSION.
    """

    df, lf, _ = _base()
    user_value = [[[1, 2, 3], [4, 5, 6]]]   # ONE value, which is a 2 x 3 array
    lf.add_computation("CO", values=user_value)
    z = lf.add_zone("Z")
    lf.add_parameter("PA", values=user_value, zones=[z])
    path = _write(df)

    with dlisio.dlis.load(path) as (f,):
        co = np.asarray(f.object('COMPUTATION', 'CO').values)
        pa = np.asarray(f.object('PARAMETER', 'PA').values)

    # independent reconstruction straight from the bytes, by the RP66 rule (first subscript varies fastest)
    raw = _parse(path)[('COMPUTATION', 'CO')]
    dims = raw['DIMENSION']['value']                                    # [2, 3] as written by the library
    rp66 = np.array(raw['VALUES']['value']).reshape(dims, order='F')    # -> [[1, 3, 5], [2, 4, 6]]

    expected = np.array(user_value, dtype=float)
    violated = (co.shape != expected.shape or not np.array_equal(co, expected)) \
        and (pa.shape != expected.shape or not np.array_equal(pa, expected)) \
        and not np.array_equal(rp66, expected[0])
    return violated


def finding_2():
    """Nested MEASUREMENT / REFERENCE values of a Calibration-Measurement lose their structure (no DIMENSION)."""

    df, lf, _ = _base()
    lf.add_calibration_measurement("CM", measurement=[[1, 2, 3], [4, 5, 6]], reference=[[7, 8, 9]])  # 2 samples of 3
    path = _write(df)

    raw = _parse(path)[('CALIBRATION-MEASUREMENT', 'CM')]
    no_dimension = raw['DIMENSION'] is None
    flat = raw['MEASUREMENT']['count'] == 6 and raw['MEASUREMENT']['value'] == [1., 2., 3., 4., 5., 6.]

    with dlisio.dlis.load(path) as (f,):
        m = f.object('CALIBRATION-MEASUREMENT', 'CM')
        try:
            samples = np.asarray(m.samples)
            reader_ok = samples.shape == (2, 3)
        except ValueError:   # "cannot reshape array of size 6 into shape []"
            reader_ok = False

    return no_dimension and flat and not reader_ok


def finding_3():
    """A channel long name set to the empty string is replaced by the channel's name."""

    df, lf, ch = _base()
    ch.long_name.value = ''                                      # later assignment
    ch2 = lf.add_channel("X", data=np.arange(4.), long_name='')  # keyword at creation
    df.logical_files[0].frames[0].channels.value.append(ch2)
    lf.add_parameter("P", long_name='', values=[1])              # the same attribute of a Parameter is kept as ''
    path = _write(df)

    raw = _parse(path)
    with dlisio.dlis.load(path) as (f,):
        got = [f.object('CHANNEL', n).long_name for n in ('DEPTH', 'X')]
    control = raw[('PARAMETER', 'P')]['LONG-NAME']['value'] == ['']
    return control and got == ['DEPTH', 'X'] and raw[('CHANNEL', 'DEPTH')]['LONG-NAME']['value'] == ['DEPTH']


def finding_4():
    """Units assigned to an attribute that has no value are dropped (the attribute is written as absent)."""

    df, lf, _ = _base()
    p = lf.add_parameter("P")
    p.values.units = 'm'                                            # later .units
    e = lf.add_equipment("E", height=AttrSetup(units='in'), length={'units': 'ft'})   # AttrSetup / dict routes
    assert p.values.units == 'm' and e.height.units == 'in' and e.length.units == 'ft'
    path = _write(df)

    raw = _parse(path)
    with dlisio.dlis.load(path) as (f,):
        attic_keys = list(f.object('EQUIPMENT', 'E').attic.keys())
    return raw[('PARAMETER', 'P')]['VALUES'] is None and raw[('EQUIPMENT', 'E')]['HEIGHT'] is None \
        and raw[('EQUIPMENT', 'E')]['LENGTH'] is None and 'HEIGHT' not in attic_keys


def finding_5():
    """A rejected set_attributes(...) call is applied in part: the file holds a value/unit pair nobody assigned."""

    df, lf, _ = _base()
    eq = lf.add_equipment("E", height=AttrSetup(1.0, 'm'))
    rejected = 0
    try:
        with high_compatibility_mode():
            eq.set_attributes(height=AttrSetup(3.28, 'feet'))    # 'feet' is not an RP66 unit -> ValueError
    except ValueError:
        rejected += 1
    try:
        eq.set_attributes(length={'value': 2.0, 'units': 5})     # units of a wrong type -> TypeError
    except TypeError:
        rejected += 1
    path = _write(df)

    raw = _parse(path)[('EQUIPMENT', 'E')]
    with dlisio.dlis.load(path) as (f,):
        a = f.object('EQUIPMENT', 'E').attic['HEIGHT']
        dl = (a.value, a.units)
    return rejected == 2 and raw['HEIGHT']['value'] == [3.28] and raw['HEIGHT']['units'] == 'm' \
        and dl == ([3.28], 'm') and raw['LENGTH'] is not None and raw['LENGTH']['value'] == [2.0]


def finding_6():
    """encrypted=0 / False ("not encrypted", as documented by add_frame) is read as 'the frame is encrypted'.

    RP66 (and dlisio) take the PRESENCE of the ENCRYPTED attribute as the flag; the library writes ENCRYPTED = 0.
    """

    got = []
    for route in ('keyword', 'later'):
        df = DLISFile()
        lf = df.add_logical_file()
        lf.add_origin("ORIGIN")
        ch = lf.add_channel("DEPTH", data=np.arange(4, dtype=np.float64))
        if route == 'keyword':
            lf.add_frame("MAIN", channels=(ch,), encrypted=0)
        else:
            lf.add_frame("MAIN", channels=(ch,)).encrypted.value = False
        path = _write(df)
        raw = _parse(path)[('FRAME', 'MAIN')]['ENCRYPTED']
        with dlisio.dlis.load(path) as (f,):
            got.append((raw is not None and raw['value'] == [0], f.object('FRAME', 'MAIN').encrypted))
    return got == [(True, True), (True, True)]   # written as present (value 0); the reader reports encrypted=True


FINDINGS = [
    (finding_1, "a nested value with a non-square element shape (e.g. 2x3) is read back as another array "
                "(DIMENSION written in row-major order, RP66 / dlisio are column-major)"),
    (finding_2, "nested MEASUREMENT / REFERENCE values of a Calibration-Measurement are written flat without "
                "DIMENSION: the nesting is lost"),
    (finding_3, "a channel LONG-NAME assigned '' is replaced by the channel's name"),
    (finding_4, "units assigned to an attribute without a value are silently dropped"),
    (finding_5, "a rejected set_attributes()/AttrSetup assignment is half applied (new value with the old units "
                "is written)"),
    (finding_6, "encrypted=0/False (documented as 'not encrypted') is written as a present ENCRYPTED attribute, "
                "which RP66 / dlisio read as 'encrypted'"),
]


if __name__ == '__main__':
    for n, (func, description) in enumerate(FINDINGS, start=1):
        try:
            outcome = 'VIOLATED' if func() else 'not reproduced'
        except Exception as exc:   # a reproduction must not stop the others
            outcome = f'not reproduced ({type(exc).__name__}: {exc})'
        print(f"FINDING {n}: {description} -> {outcome}")
