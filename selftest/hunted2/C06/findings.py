"""Reproductions of violations of property C06 (primitive values are encoded exactly as their representation
code prescribes; a value the code cannot represent is rejected with an exception, never wrapped / truncated).

Run as:  cd /tmp/hunt2/C06 && PYTHONPATH=/tmp/hunt2/C06/src /venv/bin/python findings.py

Every outcome is judged with dlisio (an independent reader) or with struct.unpack on the emitted bytes.
Details: below (FINDINGS.md could not be created by the tool, so its content is kept here).

=====================================================================================================================
FINDINGS.md
=====================================================================================================================

Worktree /tmp/hunt2/C06 (HEAD f93c01c), numpy 2.5.3, x86-64 Linux, process time zone UTC.

Summary: the scalar encoders in utils/internal/struct_writer.py (used for every EFLR attribute, OBNAME, OBJREF, counts,
length prefixes) are tight: every out-of-range / too long / non-ASCII value I could get to them ends in an exception.
The holes are (a) in the *other* encoder, the numpy cast which produces the FSINGL/.../ULONG bytes of frame data
(findings 1, 2), (b) one clamp in the DTIME encoder (finding 3), (c) the float() / int() coercion in front of the
numeric attribute encoders for number types wider than float (finding 4).

---------------------------------------------------------------------------------------------------------------------
Finding 1 - FSINGL frame data: a sample beyond the float32 range is written as +/-inf   (severity: high)

Calls:
    df = DLISFile(); lf = df.add_logical_file(); lf.add_origin('ORIGIN')
    idx = lf.add_channel('IDX', data=np.arange(4, dtype=np.float64))
    ch  = lf.add_channel('X', data=np.array([1.0, 1e39, -1e300, 3.5]), cast_dtype=np.float32)  # -> code FSINGL
    lf.add_frame('FRAME', channels=(idx, ch)); df.write(fn, output_chunk_size=2**20)

Required: 1e39 and -1e300 are outside what FSINGL (IEEE single, max 3.4028235e38) can represent -> exception.
(The scalar encoder does exactly that: write_struct(RepresentationCode.FSINGL, 1e39) ->
OverflowError: float too large to pack with f format.)

Observed: the write succeeds (numpy only emits RuntimeWarning: overflow encountered in cast); dlisio reads
X = [1.0, inf, -inf, 3.5] (float32), bytes 7f800000 / ff800000. A finite measurement has become "infinity".
Same for dict, structured-array and HDF5 sources (one code path), and for np.longdouble data cast to float64.

Code: src/dliswriter/utils/source_data_wrappers.py, SourceDataWrapper.load_chunk (l. 178-187):
    with np.errstate(invalid='raise'): chunk[key] = self._data_source[loc][idx]
a float->float overflow raises the *overflow* flag, not *invalid*, so it is not caught; the bytes are then taken as
they are in logical_record/iflr_types/frame_data.py::_make_body_bytes (s.byteswap().tobytes()).

---------------------------------------------------------------------------------------------------------------------
Finding 2 - integer frame-data codes: out-of-range floats wrap around for USHORT, SSHORT, UNORM, SNORM, ULONG
                                                                                          (severity: high)
Calls: same skeleton, float64 data, cast_dtype = an integer type.

    cast_dtype (code)   float64 samples      dlisio reads
    uint8  (USHORT)     1, 300, -1, 256      1, 44, 255, 0
    int8   (SSHORT)     1, 200, -129         1, -56, 127
    uint16 (UNORM)      1, 70000, -1         1, 4464, 65535
    int16  (SNORM)      1, 40000             1, -25536
    uint32 (ULONG)      1, -1, 5e9           1, 4294967295, 705032704
    int32  (SLONG)      1, 3e9               ValueError: Data set 'X' has values which cannot be cast to int32
                                             (not-a-number, infinite, or outside of the range of that type)

Required: a value outside the range of the code is rejected, never wrapped. The library itself means to do so (see the
SLONG row and the message of commit d55ee77 "refuse data that a declared cast to an integer type cannot convert (NaN,
infinities, out-of-range floats)"), and the scalar encoder does (write_struct(USHORT, 300) -> struct.error).
This is not the accepted "in-range float->integer casts truncate like numpy" (3.7 -> 3): these values are out of range.

Observed: no exception, no warning, wrapped numbers in the file (modulo 2^8 / 2^16 / 2^32).

Code: same place, SourceDataWrapper.load_chunk, np.errstate(invalid='raise'). The check relies on the FPU's *invalid*
flag, which the hardware conversion (cvttsd2si to a 32/64-bit register, then truncation to the narrow type) only raises
when the value does not fit the *intermediate* register: int32 range for the 8/16-bit types, int64 range for uint32.
Everything in (type range, intermediate range] passes unnoticed. (With plain contiguous arrays of ~1000 elements numpy
takes another path for float64->uint32 and does raise for 5e9, with 1 element it does not - so the outcome also
depends on how numpy happens to perform the copy; inside load_chunk, which assigns into a field of a structured
array, it never raised in my runs: 16..1000 rows, input_chunk_size 1 / 7 / None.)

---------------------------------------------------------------------------------------------------------------------
Finding 3 - DTIME: microseconds 999500..999999 are cut to 999 ms, everything else is rounded to nearest
                                                                                          (severity: low)
Input: write_struct_dtime(datetime(2020,1,1,12,0,0,999600)), or any DTIME attribute (Origin.creation_time,
Zone.minimum/maximum, Message.time, ...), e.g.
    lf.add_zone('Z1', domain='TIME', minimum=datetime(2020,1,1,12,0,0,1600), maximum=datetime(2020,1,1,12,0,0,999999))

Required: the standard's encoding of the value, i.e. (DTIME has 1 ms resolution) the nearest representable instant -
which is what the encoder produces for every other microsecond value: ...,1600 -> ms field 2; ...,500 -> 0;
...,2500 -> 2; ...,123456 -> 123. Nothing is to be truncated.

Observed: bytes 78 21 01 0c 00 00 03e7 = 12:00:00.999 for 12:00:00.999600 (0.6 ms off; 12:00:01.000 is 0.4 ms off);
12:00:00.999999 -> 12:00:00.999 (0.999 ms off instead of 0.001 ms). Through a file, dlisio gives
zone.minimum == 12:00:00.002 (rounded up) but zone.maximum == 12:00:00.999 (cut down). The error of the encoder is
<= 0.5 ms everywhere except in this band of 500 microsecond values per second, where it is up to 0.999 ms.

Code: src/dliswriter/utils/internal/struct_writer.py::write_struct_dtime, l. 67:
    RepresentationCode.UNORM.convert(min(round(date_time.microsecond / 1000), 999))
the carry into the seconds (and further) is suppressed by min(..., 999) instead of being performed.

---------------------------------------------------------------------------------------------------------------------
Finding 4 - numeric attributes: np.longdouble / Decimal values the code cannot represent become inf / are truncated
                                                                                          (severity: low)
Calls:
    lf.add_equipment('E1', height=np.longdouble('1e400'))                  # FDOUBL attribute
    lf.add_equipment('E2', height=Decimal('1e400'))
    lf.add_origin('O2', descent_number=Decimal('3.0000000000000000001'))   # UNORM attribute

Required: 1e400 is outside FDOUBL's range, 3.0000000000000000001 is not an unsigned integer -> exception. (An int of
that size is refused: height=10**400 -> OverflowError: int too large to convert to float; descent_number=3.5 ->
ValueError: 3.5 cannot be represented as integer.)

Observed: no exception; dlisio reads HEIGHT = inf for E1 and E2, DESCENT-NUMBER = 3 for O2.

Code: src/dliswriter/logical_record/core/attribute/subtypes.py, NumericAttribute._float_parser (return float(value):
float() of a longdouble / Decimal beyond the double range silently gives inf) and _int_parser
(float(value).is_integer() is evaluated on the value already rounded to a double, then int(value) truncates the
original). Both accept anything registered as numbers.Number.

---------------------------------------------------------------------------------------------------------------------
Looked at, no violation (or covered by the "already known" list)

* UVARI 0, 127/128, 16383/16384, 2^30-1 -> 1/2/4 bytes, correct; 2^30, -1, floats -> struct.error; numpy ints whose
  type cannot hold the offset (np.uint8(200), np.int16(16383), np.int32(2^30-1)) -> OverflowError (a valid value is
  refused, nothing wrong is emitted; and no public path hands numpy ints to it).
* USHORT/UNORM/ULONG/SSHORT/SNORM/SLONG scalars: all edges +-1, bool, numpy ints, floats, str -> exact bytes or
  struct.error. FSINGL/FDOUBL scalars: edges, inf, nan, -0.0, 2^127/2^128, 2^1023/2^1024 as int -> exact or error.
* STATUS: True/False/0/1/np.bool_/1.0/np.float32(1)/np.int8(1) -> 0/1; 2, 0.5, '1', nan -> exception.
* IDENT / units: lengths 0, 255 ok, 256 -> ValueError; non-ASCII -> UnicodeEncodeError (names, units, set names).
* ASCII: lengths 0, 127/128, 16383/16384, 100000 (spanning many segments / visible records) read back identically;
  non-ASCII -> UnicodeEncodeError. Attribute counts 127/128/16383/16384/70000 (SLONG, ASCII) read back identically.
* OBNAME: origin 0, 127, 128, 16383, 16384, 2^30-1 ok; 2^30, -1 -> struct.error; copy numbers 0..255 ok, the 257th
  same-named object -> struct.error; names of 255 characters; OBJREF (Group.object_list of four types, Channel.source,
  Computation.source) with origin 20000 and copy 1 read back correctly.
* DTIME: 1900-01-01 .. 2155-12-31 ok, 1899 / 2156 (also after conversion to UTC) -> struct.error; aware date-times
  with odd offsets (+05:30:17, +05:30:17.0006) -> correct UTC instant, TZ code 2; datetime subclass ok;
  date / datetime64 -> exception; text forms (also full-width digits) parse to the right instant.
* lru_cache of write_struct (typed, sign-aware): found no two equal-but-differently-encoded values which reach it
  through the public API.
* Frame data of all eight dtypes at the range edges (min, max, subnormal, -0.0, inf), 1-D and 2-D, from dict /
  big-endian dict / structured / big-endian structured / Fortran-ordered / strided sources: byte-exact.
* Parameter / Axis values: ints at the SLONG edges ok, 2^31 -> struct.error; bool / mixed text+number -> exception
  (an AttributeError - ugly, but nothing is written); np.float32 / np.int32 -> TypeError; Arabic-Indic or full-width
  digit strings, '1_0', ' 7 ', '1.e400' become 123, 5, 10, 7, inf: counted under the known "numeric-looking text ... is
  turned into numbers".
* int32/uint32 data cast to float32 lose precision above 2^24 (16777217 -> 16777216): rounding, analogous to the known
  2^53 item; not counted.
"""

import logging
import os
import struct
import tempfile
import warnings
from datetime import datetime
from decimal import Decimal

import numpy as np
import dlisio

from dliswriter import DLISFile

logging.disable(logging.CRITICAL)
warnings.simplefilter('ignore')


def _new_file():
    df = DLISFile()
    lf = df.add_logical_file()
    lf.add_origin('ORIGIN')
    return df, lf


def _write_and_load(df):
    fd, fn = tempfile.mkstemp(suffix='.dlis')
    os.close(fd)
    try:
        df.write(fn, output_chunk_size=2 ** 20)
        with open(fn, 'rb') as fh:
            raw = fh.read()
        f, *rest = dlisio.dlis.load(fn)
        return f, raw, fn
    except Exception:
        os.remove(fn)
        raise


def _channel_roundtrip(values, cast_dtype, src_dtype=np.float64):
    """Write `values` (of src_dtype) as a channel declared with cast_dtype; return what dlisio reads back."""

    df, lf = _new_file()
    idx = lf.add_channel('IDX', data=np.arange(len(values), dtype=np.float64))
    ch = lf.add_channel('X', data=np.array(values, dtype=src_dtype), cast_dtype=cast_dtype)
    lf.add_frame('FRAME', channels=(idx, ch))
    f, raw, fn = _write_and_load(df)
    try:
        return f.frames[0].curves()['X'].copy()
    finally:
        f.close()
        os.remove(fn)


def finding_1():
    """FSINGL channel: a float64 sample beyond the float32 range is written as +/-inf instead of being refused."""

    try:
        got = _channel_roundtrip([1.0, 1e39, -1e300, 3.5], np.float32)
    except Exception:
        return False  # rejected: that is what the statement asks for
    # FSINGL cannot represent 1e39 / -1e300; the file now says +inf / -inf
    return got.dtype == np.float32 and np.isposinf(got[1]) and np.isneginf(got[2])


def finding_2():
    """Integer channel codes: floats outside the range of USHORT/SSHORT/UNORM/SNORM/ULONG wrap around silently."""

    cases = [
        (np.uint8, [1.0, 300.0, -1.0, 256.0], [1, 44, 255, 0]),           # USHORT
        (np.int8, [1.0, 200.0, -129.0], [1, -56, 127]),                    # SSHORT
        (np.uint16, [1.0, 70000.0, -1.0], [1, 4464, 65535]),               # UNORM
        (np.int16, [1.0, 40000.0], [1, -25536]),                           # SNORM
        (np.uint32, [1.0, -1.0, 5e9], [1, 4294967295, 705032704]),         # ULONG
    ]
    observed = 0
    for dt, values, wrapped in cases:
        try:
            got = _channel_roundtrip(values, dt)
        except Exception:
            continue  # rejected - fine
        if got.dtype == np.dtype(dt) and list(got) == wrapped:
            observed += 1

    # for contrast: the same kind of value IS refused for SLONG (so the library means to refuse them)
    try:
        _channel_roundtrip([1.0, 3e9], np.int32)
        slong_refused = False
    except ValueError:
        slong_refused = True

    return observed == len(cases) and slong_refused


def finding_3():
    """DTIME: microseconds 999500..999999 are cut down to 999 ms, while all other values are rounded to nearest."""

    from dliswriter.utils.internal.struct_writer import write_struct_dtime

    def decode(b):
        y, tzm, d, h, mn, s, ms = struct.unpack('>BBBBBBH', b)
        return 1900 + y, tzm & 15, d, h, mn, s, ms

    # rounding to nearest is what the encoder does in general ...
    rounds_up = decode(write_struct_dtime(datetime(2020, 1, 1, 12, 0, 0, 1600)))[-1] == 2
    # ... but 12:00:00.999600 comes out as 12:00:00.999 (0.6 ms off) and not as 12:00:01.000 (0.4 ms off)
    clamped = decode(write_struct_dtime(datetime(2020, 1, 1, 12, 0, 0, 999600)))[-2:] == (0, 999)

    # the same through a file and dlisio
    df, lf = _new_file()
    ch = lf.add_channel('IDX', data=np.arange(3, dtype=np.float64))
    lf.add_frame('FRAME', channels=(ch,))
    lf.add_zone('Z1', domain='TIME', minimum=datetime(2020, 1, 1, 12, 0, 0, 1600),
                maximum=datetime(2020, 1, 1, 12, 0, 0, 999999))
    f, raw, fn = _write_and_load(df)
    try:
        z = f.zones[0]
        via_file = (z.minimum == datetime(2020, 1, 1, 12, 0, 0, 2000)          # rounded to nearest
                    and z.maximum == datetime(2020, 1, 1, 12, 0, 0, 999000))   # 0.999 ms off; nearest is 12:00:01
    finally:
        f.close()
        os.remove(fn)

    return rounds_up and clamped and via_file


def finding_4():
    """FDOUBL / UNORM attributes: np.longdouble or Decimal values beyond the range are written as inf / truncated."""

    df, lf = _new_file()
    ch = lf.add_channel('IDX', data=np.arange(3, dtype=np.float64))
    lf.add_frame('FRAME', channels=(ch,))
    try:
        lf.add_equipment('E1', height=np.longdouble('1e400'))            # FDOUBL cannot hold 1e400
        lf.add_equipment('E2', height=Decimal('1e400'))
        lf.add_origin('O2', descent_number=Decimal('3.0000000000000000001'))   # UNORM cannot hold a fraction
        f, raw, fn = _write_and_load(df)
    except Exception:
        return False  # rejected - fine
    try:
        heights = [e.height for e in f.equipments]
        descent = f.origins[1]['DESCENT-NUMBER']
    finally:
        f.close()
        os.remove(fn)

    # an int of the same size is refused (OverflowError), so are 3.5 and 65536 for the UNORM attribute
    try:
        df2, lf2 = _new_file()
        lf2.add_equipment('E3', height=10 ** 400)
        int_refused = False
    except OverflowError:
        int_refused = True

    return all(np.isposinf(h) for h in heights) and list(descent) == [3] and int_refused


FINDINGS = [
    (finding_1, "a float64 sample beyond the float32 range, in a channel cast to float32 (FSINGL), is written as "
                "+/-inf instead of being rejected"),
    (finding_2, "float samples outside the range of a channel cast to uint8/int8/uint16/int16/uint32 "
                "(USHORT/SSHORT/UNORM/SNORM/ULONG) wrap around silently (300.0 -> 44, -1.0 -> 255 / 4294967295, "
                "5e9 -> 705032704), although the same is refused for int32"),
    (finding_3, "DTIME: microseconds 999500..999999 are cut down to 999 ms (up to 0.999 ms off) while every other "
                "microsecond value is rounded to the nearest millisecond"),
    (finding_4, "FDOUBL / UNORM attributes given np.longdouble or Decimal values the code cannot represent "
                "(1e400, 3.0000000000000000001) are written as +inf / truncated to 3 instead of being rejected"),
]


if __name__ == '__main__':
    for n, (func, description) in enumerate(FINDINGS, start=1):
        try:
            violated = bool(func())
        except Exception as exc:  # a reproduction must not break the others
            print(f"FINDING {n}: {description} -> not reproduced ({type(exc).__name__}: {exc})")
            continue
        print(f"FINDING {n}: {description} -> {'VIOLATED' if violated else 'not reproduced'}")
