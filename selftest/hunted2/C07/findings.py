r"""FINDINGS (property C07 - object identity is unique and every reference resolves in its logical file)
=====================================================================================================

(FINDINGS.md could not be created by the tool; its content is this docstring.)

Run:  cd /tmp/hunt2/C07 && PYTHONPATH=/tmp/hunt2/C07/src /venv/bin/python findings.py
Judged with dlisio and with an own minimal reading of the bytes (visible records -> segments -> logical records ->
OBNAME), both below.  Findings 1 and 2 have one root cause (the FILE-HEADER object is outside of every origin check),
finding 3 is the copy-number rule, finding 4 is borderline (needs copy.copy).

Finding 1 - the FILE-HEADER object keeps an origin field that is the reference of no ORIGIN of the logical file
---------------------------------------------------------------------------------------------------------------
Input:
    df = DLISFile(); lf = df.add_logical_file()
    origin = lf.add_origin('O')          # origin reference 0; add_origin also gives 0 to the file header
    origin.origin_reference = 5          # public setter of EFLRItem
    ch = lf.add_channel('A', data=np.arange(5.))     # default origin reference: 5
    lf.add_frame('F', channels=[ch])                 # 5
    df.write(path, output_chunk_size=2**20)          # accepted
Required: every object's origin field equals the origin reference of an ORIGIN object of that logical file.
Observed (dlisio): ORIGIN 5 0 'O', CHANNEL 5 0 'A', FRAME 5 0 'F', but FILE-HEADER 0 0 '0'; own parsing of the first
EFLR: OBNAME of the FILE-HEADER object = (origin 0, copy 0, '0').  The only ORIGIN of the file has reference 5; there
is no origin 0.  The same happens with `lf.file_header.origin_reference = 7` (any integer is accepted), and when the
user re-assigns the origin's reference *and* that of every other object: those are checked, the file header is not.
Responsible code: src/dliswriter/file/file.py
  * LogicalFile.add_origin: `self.file_header_item.origin_reference = o.origin_reference` is done once, when the first
    origin is added; nothing keeps it in step afterwards;
  * LogicalFile._check_references (the check added by "refuse objects whose origin reference is that of no origin of
    their logical file") iterates `own_sets`, i.e. the sets of self._eflr_sets; the FileHeaderSet is deliberately not in
    there (see the FIXME in LogicalFile.__init__), so file_header_item.origin_reference is never compared with
    `origin_references`.

Finding 2 - same gap, no attribute re-assigned: one FileHeaderItem given to two logical files
---------------------------------------------------------------------------------------------
Input:
    fh = FileHeaderItem('HDR', parent=FileHeaderSet())
    df = DLISFile()
    lf1 = df.add_logical_file(file_header=fh)
    lf2 = df.add_logical_file(file_header=fh)
    lf1.add_origin('O1', origin_reference=1)
    c = lf1.add_channel('A', data=np.arange(5.), set_name='S1'); lf1.add_frame('F', channels=[c], set_name='S1')
    lf2.add_origin('O2', origin_reference=2, set_name='S2')      # fh.origin_reference: 1 -> 2
    c = lf2.add_channel('A', data=np.arange(5.), set_name='S2'); lf2.add_frame('F', channels=[c], set_name='S2')
    df.write(path, output_chunk_size=2**20)                       # accepted
(Exactly one FileHeaderItem in one FileHeaderSet, so not the known "several FileHeaderItem objects in one
FileHeaderSet"; the same happens when the item is re-used for a logical file of a second DLISFile.)
Observed: first logical file: ORIGIN 1 0 'O1', CHANNEL 1 0 'A', FRAME 1 0 'F', FILE-HEADER 2 0 '0' (raw OBNAME of the
first FHLR: (2, 0, '0')) - origin 2 exists only in the second logical file.
Responsible code: as for finding 1 (add_origin overwrites the header's origin unconditionally; _check_references does
not look at it; nothing refuses a header item that already heads another logical file).

Finding 3 - a copy number that is already taken is handed out after a rename to an *unused* name
------------------------------------------------------------------------------------------------
(The known issue is a rename *onto a name that is in use*.  Here every rename goes to a fresh name, every intermediate
state is free of duplicates, and it is a later add_* call that creates the duplicate.)
Input:
    lf.add_origin('O')
    a0 = lf.add_channel('A', data=...)     # CHANNEL (0, 0, 'A')
    a1 = lf.add_channel('A', data=...)     # CHANNEL (0, 1, 'A')
    a0.name = 'B'                          # 'B' unused -> (0, 0, 'B'), (0, 1, 'A'): unique
    a2 = lf.add_channel('A', data=...)     # -> copy number 1 again
    lf.add_frame('F', channels=[a0, a1]); lf.add_frame('G', channels=[a2])
    df.write(...)                          # accepted
Mirror image: A(0), A(1); a1.name = 'B' -> (0, 1, 'B'); add_channel('B') -> (0, 1, 'B') a second time.  Any object type
(the fuzzer hit it for TOOL, GROUP, PARAMETER, LONG-NAME as well).
Required: same-named objects of one type get distinct copy numbers; every reference decodes to exactly one object.
Observed: a1.copy_number == a2.copy_number == 1; dlisio lists CHANNEL 0 1 'A' twice (and CHANNEL 0 0 'B'); the object
component 70 00 01 01 41 ('p', origin 0, copy 1, 'A') occurs twice in the file; FRAME 'F' CHANNELS = [(0,0,'B'),
(0,1,'A')] and FRAME 'G' CHANNELS = [(0,1,'A')]: two frames, two different channels passed by the user, one identity.
Responsible code: src/dliswriter/logical_record/core/eflr/eflr_item.py, EFLRItem._compute_copy_number: the copy number
is len(items of the set that currently have the same name), not the first free number (or max + 1) among them; the
number of same-named items can drop through a rename while the higher copy numbers stay in use.

Finding 4 (borderline) - a shallow copy of an item is accepted as a reference target
------------------------------------------------------------------------------------
add_frame's documentation tells the user to make "'copies' of the relevant channels"; a user who takes that literally:
    ch = lf.add_channel('A', data=np.arange(5.)); lf.add_frame('F', channels=[ch])
    ch2 = copy.copy(ch); ch2.name = 'B'
    lf.add_tool('T', channels=[ch2])
    df.write(...)                          # accepted
Observed: the file defines one channel, CHANNEL 0 0 'A'; TOOL 'T' CHANNELS = [(0, 0, 'B')]; dlisio resolves it to
[None].  A frame refuses such a copy ("has not been registered in file's channels"), every other reference attribute
accepts it.
Responsible code: LogicalFile._check_references.belongs_here (file.py): `item.parent is eflr_set` - the copy shares
_parent with the original; whether the item is one of eflr_set.get_all_eflr_items() is not checked.  Borderline because
copy.copy is not part of the library's API.

Tried without finding a violation (verified with dlisio + raw parsing of the FDATA / NOFORMAT OBNAMEs)
-------------------------------------------------------------------------------------------------------
 * random object graphs over all reference attributes (frame->channels; channel->long name/source; parameter and
   computation->zones/long name/source; tool->parts/channels/parameters; process (5 lists); splice; calibration
   (5 lists); calibration-measurement source; path frame/well-reference/value; group object and group lists; no-format
   data), repeated names, 1-3 origins, explicit origin references incl. 200 and 20000, objects created before or after
   the origins, 2 logical files, max_record_length 20/22/64/130/8192, high-compatibility mode: all identities unique,
   all OBNAME / OBJREF references equal to the passed object's identity, all IFLR references right and after the EFLRs;
 * fuzzed call sequences (add_*, rejected add_* of five kinds, renames of uniquely named objects to fresh names,
   origin_reference re-assigned to other origins, origins re-referenced with all objects following, several writes in
   between, 1-3 logical files, own or shared set names): nothing besides findings 1 and 3 (shared set names: refused);
 * origin references 0, 1, 127, 128, 255, 256, 16383, 16384, 65535, 65536, 2**30-1 (right), 2**30 / negative
   (refused), True (written as 1), numpy integers (refused);
 * 257 same-named objects (copy number 256: refused), reference lists of 127/128/300/16383/16384/20000 elements;
 * references to the FILE-HEADER and to ORIGIN objects (channel source, group), same-named origins, names 'A' / 'A ' /
   'a' / '';
 * same-named channels in one frame (refused), in two frames (right data and references);
 * objects of another logical file / DLISFile as targets via add_*, `attr.value = ...`, `attr.value.append(...)`
   (refused at write); same set name in two logical files (refused at add_*);
 * AttrSetup / dict / tuple / empty list / None forms for reference attributes; a list for a single-valued reference;
   non-item values (TypeError, or AttributeError at write for channel `source`, which has no converter);
 * cached OBNAMEs after rename / origin change between two writes; deepcopy of an item (refused); replaced
   file_header_item (refused: no origin reference);
 * rejected add_origin before / after objects, empty origin sets left by rejected calls, defining origin in a named set.
"""

import copy
import logging
import os
import struct
import sys
import tempfile

import numpy as np

logging.disable(logging.CRITICAL)

from dliswriter import DLISFile  # noqa: E402
from dliswriter.logical_record.eflr_types import FileHeaderItem, FileHeaderSet  # noqa: E402
import dlisio  # noqa: E402

TMP = tempfile.mkdtemp(prefix='c07_findings_')


def _write(df, name):
    path = os.path.join(TMP, name)
    if os.path.exists(path):
        os.remove(path)
    # (the progress bar of the writer goes to the stderr of the process: keep the output of this script quiet)
    sys.stderr.flush()
    saved, devnull = os.dup(2), os.open(os.devnull, os.O_WRONLY)
    os.dup2(devnull, 2)
    try:
        df.write(path, output_chunk_size=2 ** 20)
    finally:
        sys.stderr.flush()
        os.dup2(saved, 2)
        os.close(saved)
        os.close(devnull)
    return path


# ---------------------------------------------------------------------------------------------------------------------
# independent, minimal reading of the bytes (no dliswriter, no dlisio)

def _uvari(b, i):
    x = b[i]
    if x < 0x80:
        return x, i + 1
    if x < 0xC0:
        return struct.unpack('>H', b[i:i + 2])[0] & 0x3FFF, i + 2
    return struct.unpack('>I', b[i:i + 4])[0] & 0x3FFFFFFF, i + 4


def _obname(b, i):
    origin, i = _uvari(b, i)
    copy_number = b[i]
    n = b[i + 1]
    return (origin, copy_number, b[i + 2:i + 2 + n].decode('latin1')), i + 2 + n


def _logical_records(path):
    """Yield (is_eflr, lr_type, body) for every logical record of the file (segments re-assembled, padding removed)."""

    b = open(path, 'rb').read()
    i = 80  # storage unit label
    cur = None
    while i < len(b):
        vr_len = struct.unpack('>H', b[i:i + 2])[0]
        assert b[i + 2:i + 4] == b'\xff\x01'
        j, end = i + 4, i + vr_len
        while j < end:
            seg_len, attrs, lr_type = struct.unpack('>HBB', b[j:j + 4])
            body = b[j + 4:j + seg_len]
            if attrs & 0x01:
                body = body[:len(body) - body[-1]]
            if not attrs & 0x40:  # no predecessor
                cur = [bool(attrs & 0x80), lr_type, b'']
            cur[2] += body
            if not attrs & 0x20:  # no successor
                yield tuple(cur)
            j += seg_len
        i = end


def _file_header_obnames(path):
    """OBNAME (origin, copy, name) of the FILE-HEADER object of every logical file, read from the raw bytes."""

    res = []
    for is_eflr, lr_type, body in _logical_records(path):
        if not (is_eflr and lr_type == 0):
            continue
        assert body[0] == 0xF0
        n = body[1]
        assert body[2:2 + n] == b'FILE-HEADER'
        i = 2 + n
        while body[i] != 0x70:  # template: attribute components with label and representation code only (0x34)
            assert body[i] == 0x34
            i += 1 + 1 + body[i + 1] + 1
        res.append(_obname(body, i + 1)[0])
    return res


def _objects(f):
    return [(o.type, o.origin, o.copynumber, o.name) for o in f.find('.*', '.*')]


# ---------------------------------------------------------------------------------------------------------------------

def finding_1():
    """FILE-HEADER keeps the old origin after the origin reference of the (defining) ORIGIN has been re-assigned."""

    df = DLISFile()
    lf = df.add_logical_file()
    origin = lf.add_origin('O')            # origin reference 0; the file header is given 0, too
    origin.origin_reference = 5            # public setter; every object added from now on gets 5 by default
    ch = lf.add_channel('A', data=np.arange(5.))
    lf.add_frame('F', channels=[ch])
    path = _write(df, 'f1.dlis')           # accepted: _check_references does not look at the file header

    with dlisio.dlis.load(path) as (f,):
        origin_refs = {o.origin for o in f.origins}
        fh_origin = f.fileheader.origin
        others = {o[1] for o in _objects(f) if o[0] != 'FILE-HEADER'}
    raw_fh = _file_header_obnames(path)

    return origin_refs == {5} and others == {5} and fh_origin == 0 and raw_fh == [(0, 0, '0')]


def finding_2():
    """Same gap, other trigger: a FileHeaderItem given to two logical files gets the origin of the last one."""

    fh = FileHeaderItem('HDR', parent=FileHeaderSet())
    df = DLISFile()
    lf1 = df.add_logical_file(file_header=fh)
    lf2 = df.add_logical_file(file_header=fh)
    lf1.add_origin('O1', origin_reference=1)
    c = lf1.add_channel('A', data=np.arange(5.), set_name='S1')
    lf1.add_frame('F', channels=[c], set_name='S1')
    lf2.add_origin('O2', origin_reference=2, set_name='S2')   # re-assigns fh.origin_reference to 2
    c = lf2.add_channel('A', data=np.arange(5.), set_name='S2')
    lf2.add_frame('F', channels=[c], set_name='S2')
    path = _write(df, 'f2.dlis')

    with dlisio.dlis.load(path) as files:
        f1 = files[0]
        origin_refs = {o.origin for o in f1.origins}
        fh_origin = f1.fileheader.origin
    raw_fh = _file_header_obnames(path)

    # first logical file: its only ORIGIN has reference 1, its FILE-HEADER says 2
    return origin_refs == {1} and fh_origin == 2 and raw_fh[0] == (2, 0, '0')


def finding_3():
    """Copy number = number of same-named objects: after a rename to an UNUSED name a new object repeats an identity."""

    df = DLISFile()
    lf = df.add_logical_file()
    lf.add_origin('O')
    a0 = lf.add_channel('A', data=np.arange(5.))          # CHANNEL (0, 0, 'A')
    a1 = lf.add_channel('A', data=np.arange(5.) + 10)     # CHANNEL (0, 1, 'A')
    a0.name = 'B'                                         # 'B' is not in use: CHANNEL (0, 0, 'B') - still all unique
    a2 = lf.add_channel('A', data=np.arange(5.) + 20)     # one other 'A' exists -> copy number 1 again
    lf.add_frame('F', channels=[a0, a1])
    lf.add_frame('G', channels=[a2])
    path = _write(df, 'f3.dlis')

    with dlisio.dlis.load(path) as (f,):
        channels = [o for o in _objects(f) if o[0] == 'CHANNEL']
        frame_refs = {fr.name: [(c.origin, c.copynumber, c.id) for c in fr.attic['CHANNELS'].value] for fr in f.frames}
    raw_count = open(path, 'rb').read().count(b'\x70\x00\x01\x01A')  # object component + OBNAME (0, 1, 'A')

    return (a1.copy_number == a2.copy_number == 1
            and channels.count(('CHANNEL', 0, 1, 'A')) == 2
            and frame_refs['F'][1] == frame_refs['G'][0] == (0, 1, 'A')   # two frames, two channels, one identity
            and raw_count == 2)


def finding_4():
    """(borderline) a shallow copy of an item passes the 'same logical file' check although it is written nowhere."""

    df = DLISFile()
    lf = df.add_logical_file()
    lf.add_origin('O')
    ch = lf.add_channel('A', data=np.arange(5.))
    lf.add_frame('F', channels=[ch])
    ch2 = copy.copy(ch)      # "a copy of the channel" - never registered with the CHANNEL set
    ch2.name = 'B'
    lf.add_tool('T', channels=[ch2])
    path = _write(df, 'f4.dlis')      # accepted: belongs_here() only looks at ch2.parent

    with dlisio.dlis.load(path) as (f,):
        channels = [o for o in _objects(f) if o[0] == 'CHANNEL']
        ref = [(c.origin, c.copynumber, c.id) for c in f.object('TOOL', 'T').attic['CHANNELS'].value]
        resolved = f.object('TOOL', 'T').channels

    return channels == [('CHANNEL', 0, 0, 'A')] and ref == [(0, 0, 'B')] and resolved == [None]


FINDINGS = [
    (finding_1, "after origin.origin_reference is re-assigned the FILE-HEADER object keeps an origin field that is the "
                "reference of no ORIGIN of the logical file, and write() accepts it"),
    (finding_2, "a FileHeaderItem given to two logical files is written in the first one with the origin reference of "
                "the second one's ORIGIN (no such ORIGIN in the first logical file)"),
    (finding_3, "after an object is renamed to an unused name, a newly added object of the old name gets a copy number "
                "that is already taken: two CHANNEL objects with identical (origin, copy, name)"),
    (finding_4, "(borderline) copy.copy() of an item is accepted as a reference target and written as a reference to "
                "an object that is defined nowhere in the file"),
]


if __name__ == '__main__':
    for n, (func, description) in enumerate(FINDINGS, start=1):
        try:
            violated = func()
        except Exception as exc:  # a refusal by the library means the violation is not observed
            violated = False
            description += f" [raised {type(exc).__name__}: {exc}]"
        print(f"FINDING {n}: {description} -> {'VIOLATED' if violated else 'not reproduced'}")
