"""FINDINGS for property C08 - a frame's channel descriptors match the layout of its data records
(the tool refused to create FINDINGS.md, so its content lives in this docstring)

Run:  cd /tmp/hunt2/C08 && PYTHONPATH=/tmp/hunt2/C08/src /venv/bin/python findings.py

Worktree /tmp/hunt2/C08 (HEAD f93c01c), sources imported from /tmp/hunt2/C08/src.
Oracle: own byte parser (visible records -> segments -> logical records, padding/trailers stripped; FDATA body =
OBNAME + UVARI frame number + data) combined with dlisio 1.0.4 for the CHANNEL / FRAME objects (harness.py), plus plain
comparison with the numpy arrays that were handed in.

RESULT: ONE candidate, and it is a border case of an item of the 'already known' list. Apart from that the property
held in everything that was tried (list at the end).

=======================================================================================================================
FINDING 1 - rename an object AWAY to a FREE name, then create a new object under the old name:
            two channels (or two frames) with one identity and two different layouts
=======================================================================================================================
Relation to the known list: the list has "renaming an object ONTO a name that is already in use (copy numbers are
assigned at creation)". Here nothing is renamed onto a used name: the new name is free, and the clash is produced by a
perfectly ordinary add_channel that comes AFTER the rename. Same root (count-based copy numbers), different trigger.

Call sequence (finding_1):
    df = DLISFile(); lf = df.add_logical_file(); lf.add_origin('O')
    a0 = lf.add_channel('A', data=np.arange(4, dtype=np.uint8))        # ('A', copy 0)
    a1 = lf.add_channel('A', data=np.arange(4, dtype=np.float64))      # ('A', copy 1)
    a0.name = 'B'                                                      # 'B' is used by nothing
    a2 = lf.add_channel('A', data=np.zeros((4, 3), dtype=np.int16))    # counts ONE 'A' -> ('A', copy 1) again
    lf.add_frame('F', channels=[a0]); lf.add_frame('G', channels=[a1]); lf.add_frame('H', channels=[a2])
    df.write(path, output_chunk_size=2**20)                            # no error, no warning

Statement requires: each channel listed by a frame carries the representation code / DIMENSION of the data written for
it, and the length of every FDATA record equals reference + frame number + sum(code size x prod(dimension)) over the
listed channels, "so a reader knowing only the file can slice every row unambiguously".

Library does instead:
  * a1.copy_number == a2.copy_number == 1 (dataset names differ, 'A__1' / 'A__2', so each gets its own data).
  * CHANNEL set as decoded by dlisio: ('B',0,0) USHORT [1]; ('A',0,1) FDOUBL [1]; ('A',0,1) SNORM [3]
    -> two objects with the identical OBNAME (origin 0, copy 1, 'A') and different descriptors.
  * FRAME G: CHANNELS = [OBNAME(0,1,'A')];  FRAME H: CHANNELS = [OBNAME(0,1,'A')]  (byte-identical references).
  * FDATA (own parsing): every row of G has 8 data bytes, every row of H has 6 data bytes.
  * Whatever object a reader binds OBNAME (0,1,'A') to, the equation fails for G or for H (8 != 2*3, 6 != 8*1).
    dlisio resolves neither: frame.channels == [None] for G and for H.
  * The same sequence on frames (add_frame('F') twice, first.name = 'G', add_frame('F')) gives two FRAME objects
    (0,1,'F') with different channel lists; their FDATA records carry the same reference (rows of 8 B and of 6 B under
    one frame identity), so rows cannot even be attributed to a layout (t7.py).

Code responsible:
  * src/dliswriter/logical_record/core/eflr/eflr_item.py, EFLRItem._compute_copy_number: copy number = number of items
    CURRENTLY bearing the name in the parent set, computed once in __init__.
  * same file, EFLRItem.__setattr__: assigning 'name' validates the string and drops the cached OBNAME, but neither
    re-evaluates copy numbers nor reserves the (name, copy) pair being vacated.
  * src/dliswriter/file/file.py, LogicalFile.check_objects: no check that (origin, copy, name) is unique per set type.

=======================================================================================================================
TRIED WITHOUT FINDING A VIOLATION (judged with harness.py; scripts t1..t7.py, fuzz.py, fuzz_oc.py, fuzz2.py)
=======================================================================================================================
Byte level / sizes
 1. Rows shorter than 12 bytes (single uint8 channel; frame with only a zero-width channel): pad bytes flagged and
    stripped correctly, body length exact.
 2. max_record_length 20, 22, 64, 256, 16384 with rows of 1 B ... 40 kB (width 20000 uint16): segmentation keeps the
    body length; output_chunk_size equal to the record length (int and float).
 3. > 16383 rows (4-byte UVARI frame number); origin reference 130 and 70000 (multi-byte UVARI in the FDATA reference).
 4. 300 channels in one frame (2-byte count of CHANNELS); widths 130 / 1001 / 20000 (2- and 4-byte UVARI DIMENSION).
 5. Width 0 (shape (n,0)): DIMENSION [0], 0 bytes per row - consistent. Width 1 (shape (n,1)): DIMENSION [1].
dtypes / casts
 6. All eight dtypes, big-endian arrays, Fortran-ordered / strided / repeated views, np.matrix, np.recarray.
 7. cast_dtype as type, as np.dtype, as big-endian np.dtype('>u4'); cast equal to the data dtype; cast changed or
    removed between writes; cast on a channel shared by two frames.
 8. Unsupported dtypes (int64, bool, float16, str, object, structured), with and without cast: refused or cast
    consistently, never mis-described.
 9. HDF5: (n,) dataset of HDF5 array type ('<f4',(3,)), enum over uint8, big-endian, chunked/resizable, nested group
    paths with and without leading '/', pathlib.Path.
dimension / element limit
10. dimension / element_limit as int, list, tuple, numpy ints, float 3.0, bool, AttrSetup, {'value': ...}, [].
11. Inconsistent dimension, too small element limit, element limit with more entries than the dimension: refused, or
    (larger limit) kept and bounding.
12. Values assigned, cleared ([]) or mutated in place between writes; data changing dtype and width between writes with
    derived / user-owned dimension, element limit, cast (fuzz2: ~1100 writes, 3 seeds, random mutations incl. failing
    writes in between, renames to free names, frames re-assigned, channels / frames added later).
frames / channels
13. Same channel twice in a frame; two same-named channels (copies 0/1) in ONE frame: refused (name tuple check of
    MultiFrameData).
14. Same-named channels in different frames, same-named frames (copies 0/1) with different layouts: FDATA references
    carry the copy number - consistent.
15. Channel shared by two frames (different order in each), channel absent from all frames, channel removed from a
    frame between writes.
16. Same data set under several channel names (ch.dataset_name = ...), one of them with a cast.
17. Frame channels given as tuple, re-assigned via .value, appended in place.
18. Channels / frames created before the origin exists (origin reference filled in later), two origins, explicit
    origin references.
19. Two logical files (own set names) with same-named channels / frames and a common data=.
data sources
20. Data at add_channel, dict at write (overriding), structured array (identity-mapping shortcut, extra fields,
    reordered fields, aligned/padded dtype, explicit offsets, titles, sub-array fields (1,) and (3,), big-endian
    fields, strided source, recarray), HDF5 path.
21. from_idx / to_idx windows with all sources; input_chunk_size 1..n and > n.
22. Missing data set -> refused after another frame had already been set up, then a successful write with another
    source type (dict -> structured -> HDF5): descriptors re-derived correctly (t6.py).
23. 3-D data (dict and structured sub-array): refused.
24. Different row counts between the data sets of a frame: refused.
other
25. High-compatibility mode (context manager) with unsigned / float channels; enum member vs string index type.
26. Two DLISFile objects in one process written alternately (module-level struct memo, class-level record type bytes).
27. The same DLISFile written repeatedly to the same and to different paths.
28. Empty channel name '' (numpy renames the field to 'f0'): refused by the name check of MultiFrameData.
29. Unlisted channel with dimension=[]: TypeError "object of type 'NoneType' has no len()" in
    ChannelItem._run_checks_and_set_defaults while the CHANNEL set is being written (a crash = refusal; the channel is
    listed by no frame, so outside the statement).
"""
import logging
import os
import struct
import tempfile

import numpy as np
import dlisio

from dliswriter import DLISFile

logging.disable(logging.CRITICAL)
dlisio.common.set_encodings([])

CODE_SIZE = {12: 1, 13: 2, 14: 4, 15: 1, 16: 2, 17: 4, 2: 4, 7: 8}


def _logical_records(path):
    """Own parsing: (is_eflr, type, body) per logical record (visible records, segments, padding removed)."""
    b = open(path, 'rb').read()
    pos, cur, out = 80, None, []
    while pos < len(b):
        vr_len = struct.unpack('>H', b[pos:pos + 2])[0]
        p, end = pos + 4, pos + vr_len
        while p < end:
            seg_len, attrs, lr_type = struct.unpack('>HBB', b[p:p + 4])
            body = b[p + 4:p + seg_len]
            if attrs & 0x02:
                body = body[:-2]
            if attrs & 0x04:
                body = body[:-2]
            if attrs & 0x01:
                body = body[:-body[-1]]
            if not attrs & 0x40:
                cur = [bool(attrs & 0x80), lr_type, b'']
            cur[2] += body
            if not attrs & 0x20:
                out.append(tuple(cur))
            p += seg_len
        pos = end
    return out


def _fdata_rows(path):
    """{(origin, copy, frame name): set of data byte counts of its FDATA records} (origin < 128 assumed)."""
    rows = {}
    for is_eflr, lr_type, body in _logical_records(path):
        if is_eflr or lr_type != 0:
            continue
        origin, copy, n = body[0], body[1], body[2]
        name = body[3:3 + n].decode()
        p = 3 + n
        p += 1 if body[p] < 0x80 else (2 if body[p] < 0xC0 else 4)  # frame number (UVARI)
        rows.setdefault((origin, copy, name), set()).add(len(body) - p)
    return rows


def _write(df):
    path = os.path.join(tempfile.mkdtemp(prefix='c08_'), 'out.dlis')
    df.write(path, output_chunk_size=2 ** 20)
    return path


def finding_1():
    """Rename away to a free name, then create under the old name: two channels with one identity, two layouts."""
    n = 4
    df = DLISFile()
    lf = df.add_logical_file()
    lf.add_origin('O')
    a0 = lf.add_channel('A', data=np.arange(n, dtype=np.uint8))                 # ('A', copy 0)
    a1 = lf.add_channel('A', data=np.arange(n, dtype=np.float64))               # ('A', copy 1)
    a0.name = 'B'                                                               # 'B' is not in use by anything
    a2 = lf.add_channel('A', data=np.zeros((n, 3), dtype=np.int16))             # ('A', copy 1) again
    lf.add_frame('F', channels=[a0])
    lf.add_frame('G', channels=[a1])
    lf.add_frame('H', channels=[a2])
    path = _write(df)

    rows = _fdata_rows(path)   # own parsing of the IFLRs
    with dlisio.dlis.load(path) as (f,):
        idents = [(c.origin, c.copynumber, c.name, c.reprc, list(c.dimension)) for c in f.channels]
        listed = {fr.name: [(o.origin, o.copynumber, o.id) for o in fr.attic['CHANNELS'].value] for fr in f.frames}
        resolved = {fr.name: fr.channels for fr in f.frames}
    same_identity = [i for i in idents if i[:3] == (0, 1, 'A')]
    # two channel objects (0, 1, 'A') with different row layouts; G and H list the same OBNAME but have rows of 8 / 6 B
    two_layouts = len(same_identity) == 2 and len({CODE_SIZE[i[3]] * int(np.prod(i[4])) for i in same_identity}) == 2
    same_ref = listed['G'] == listed['H'] == [(0, 1, 'A')]
    different_rows = rows[(0, 0, 'G')] == {8} and rows[(0, 0, 'H')] == {6}
    unresolved = resolved['G'] == [None] and resolved['H'] == [None]
    return bool(a1.copy_number == a2.copy_number == 1 and two_layouts and same_ref and different_rows and unresolved)


FINDINGS = [
    (finding_1, "renaming a channel away to a free name and then adding a channel under the old name gives two "
                "channels one identity (origin, copy 1, 'A') with different layouts; frames G and H list the same "
                "OBNAME but hold rows of 8 and 6 bytes (border case of the known 'copy numbers are assigned at "
                "creation' issue)"),
]

if __name__ == '__main__':
    import dliswriter
    assert dliswriter.__file__.startswith('/tmp/hunt2/C08/src'), dliswriter.__file__
    for i, (func, description) in enumerate(FINDINGS, start=1):
        try:
            ok = func()
        except Exception as exc:  # noqa
            ok = False
            description += f' [{type(exc).__name__}: {exc}]'
        print(f"FINDING {i}: {description} -> {'VIOLATED' if ok else 'not reproduced'}")
