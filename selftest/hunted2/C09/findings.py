"""Adversarial findings for property C09 (mandated order of a logical file).  (Holds the content of FINDINGS.md.)

Run:  cd /tmp/hunt2/C09 && PYTHONPATH=/tmp/hunt2/C09/src /venv/bin/python findings.py

Judges: own RP66 reader (rp66.py in this directory: visible records -> segments -> logical records -> EFLR components;
rp66.check_c09() implements the statement) and dlisio.

OUTCOME: no clear-cut violation of the literal statement was found.  The order header -> ORIGIN set(s) -> other sets ->
IFLRs, the FILE-HEADER object (one object, SEQUENCE-NUMBER right-justified/10, ID left-justified/65), FILE-ID and
FILE-SET-NUMBER of the defining origin, and "(type, name) at most once, never empty" held in every attack.
One BORDERLINE finding is reported.

=======================================================================================================================
FINDING 1 (BORDERLINE) - rename an object AWAY to a free name, then create a new object under the old name: two objects
of ONE set get the same identity, so the IFLRs of both refer to one identity.

Not the known "rename ONTO a name already in use" (the new name is free) and not the known "same name in two
differently named sets" (one, default set).  Related root cause (copy numbers fixed at creation), different mechanism:
the copy number is the NUMBER of same-named objects currently in the set, not "highest copy number in use + 1".

Call sequence
    df = DLISFile(); lf = df.add_logical_file(); lf.add_origin('O')
    ca, cb, cc = (lf.add_channel(n, data=np.arange(3.) + 10 * i) for i, n in enumerate('ABC'))
    f0 = lf.add_frame('F', channels=(ca,))   # (origin 0, copy 0, 'F')
    f1 = lf.add_frame('F', channels=(cb,))   # (0, 1, 'F')
    f0.name = 'G'                            # 'G' is not in use -> (0, 0, 'G')
    f2 = lf.add_frame('F', channels=(cc,))   # copy number 1 AGAIN -> (0, 1, 'F')
    n0 = lf.add_no_format('N'); n1 = lf.add_no_format('N'); n0.name = 'M'; n2 = lf.add_no_format('N')
    lf.add_no_format_frame_data(n1, 'data of n1'); lf.add_no_format_frame_data(n2, 'data of n2')
    df.write(path, output_chunk_size=2**20)  # no error, no warning

Required: every frame / no-format object precedes the first IFLR *that refers to it* - which presupposes that an IFLR
refers to one object of its logical file.  (The order itself is respected.)

Observed (own reader):
    FILE-HEADER None [(0, 0, '0')]
    ORIGIN      None [(0, 0, 'O')]
    CHANNEL     None [(0, 0, 'A'), (0, 0, 'B'), (0, 0, 'C')]
    FRAME       None [(0, 0, 'G'), (0, 1, 'F'), (0, 1, 'F')]      <- two objects, one identity
    NO-FORMAT   None [(0, 0, 'M'), (0, 1, 'N'), (0, 1, 'N')]      <- two objects, one identity
    IFLR NOFORMAT (0, 1, 'N') x2   (one written for n1, one for n2)
    IFLR FDATA    (0, 0, 'G') x3
    IFLR FDATA    (0, 1, 'F') x6   (3 rows of f1 [channel B] + 3 rows of f2 [channel C])
Observed (dlisio):
    G 0 ['A'] [(1, 0.0), (2, 1.0), (3, 2.0)]
    F 1 ['B'] [(1, 10.0), (2, 11.0), (3, 12.0), (1, 20.0), (2, 21.0), (3, 22.0)]
    F 1 ['C'] [(1, 10.0), (2, 11.0), (3, 12.0), (1, 20.0), (2, 21.0), (3, 22.0)]
  both frames F get 6 rows (3 were written for each); f1.copy_number == f2.copy_number == 1.

Code: src/dliswriter/logical_record/core/eflr/eflr_item.py, EFLRItem._compute_copy_number:
    items_with_the_same_name = filter(lambda o: o.name == self.name and o is not self, self.parent.get_all_eflr_items())
    return len(list(items_with_the_same_name))
a count of the currently same-named objects; after f0.name = 'G' only one 'F' is left (copy 1), so the new one gets 1
too.  max(copy numbers of the same-named objects) + 1, or a uniqueness check of the identities at write time, would
avoid it.  Why only borderline for C09: the mandated ORDER is kept; what breaks is the uniqueness of the identity on
which the "IFLR refers to object" relation of the statement relies.

=======================================================================================================================
TRIED AND HELD (judged with rp66.check_c09, mostly also dlisio).  Scripts: fuzz1.py (400 random API sequences: 1-3
logical files, max_record_length 20/64/200/8192/16384, set names None/''/'A'/'B'/'a'/'A ', 8 kinds of rejected add_*
calls interleaved, intermediate refused and successful writes, no-format data, input chunking), fuzz2.py (600 seeds,
origin sets only; checks that the first object of the first ORIGIN set is the first origin the user successfully
added), t2.py, t3.py, t4.py, t5.py.
 1. Origin added last / first / in the middle; objects created before it receive its reference.
 2. Several origins in one set and in several named sets: first-used set first, defining origin first.
 3. Rejected add_origin (bad file_set_number / origin_reference / duplicate reference / creation_time / programs /
    name) in set X, successful origin in Y, then origin in X: defining origin stays the first successfully added one;
    empty sets give no record (zero-length body -> no segment).
 4. Rejected add_channel / add_frame / add_no_format / add_parameter / add_zone before, between, after successful
    ones: never an empty set, never a duplicate (type, name).
 5. set_name '' vs None, 'A' vs 'a' vs 'A ', 255-character set and object names.
 6. Property look-ups (lf.origins, lf.frames, lf.defining_origin) creating dict keys before anything is added.
 7. Refused writes (no origin / channel / frame) followed by completion and a second write.
 8. Two and three logical files with per-file set names; default names in both (refused at once, then continued).
 9. df.logical_files.reverse(); one LogicalFile appended twice; a LogicalFile of another DLISFile appended; an orphan
    LogicalFile(df) with a rejected call.
10. One user-built FileHeaderItem given to two logical files: each header record holds one object.
11. fh_sequence_number 1, 9999999999, IntEnum member; bool, float, numpy ints, 0, negative, > 10 digits refused.
    (An int subclass overriding __str__ is written with that text - too contrived to count.)
12. fh_id '', 65 characters, NUL / newline / tab / trailing blank inside, lower case; 66 chars, non-str, non-ASCII refused.
13. header_id / sequence_number re-assigned before and after add_origin: consistent output or refusal.
14. origin.file_id.value re-assigned ('A ' vs 'A' refused), = None refused; file_set_number.value re-assignment / None
    refused; file_set_number as AttrSetup with units only (-> random, present), 0, True, 5.0; 2**30 and -1 refused at write.
15. High-compatibility mode: FILE-SET-NUMBER defaults to 1 (present); order unchanged.
16. origin_reference 0, 127, 128, 16383, 16384, 2**30-1 (all UVARI widths in the OBNAMEs of EFLRs and IFLRs).
17. Directly created eflr_types.OriginItem(..., parent=origin.parent) without FILE-ID: never the first object.
18. max_record_length = 20 with output_chunk_size = 20, three logical files with no-format data.
19. output_chunk_size equal to the visible record length; float chunk size.
20. HDF5 source with input_chunk_size and row window, two logical files sharing the source.
21. Second write after adding an origin in a new named set, renaming the origin, changing header ID (+ FILE-ID) and
    sequence number, adding a logical file and reversing the list.
22. Frames in several named FRAME sets, channels in several named CHANNEL sets (distinct names).
23. No-format data as str / bytes / empty bytes; no-format object renamed after its data were added.
24. Same-named channels / frames in one set without renaming: copy numbers 0, 1, ... distinct.
25. Objects of another logical file in channels= / add_no_format_frame_data: refused.
26. frame.channels.value mutated in place with a foreign channel: refused at write.
27. lf.file_header_item replaced after the origin was added: refused at write.
28. add_logical_file('MYID') (the positional argument is file_header): exception, no output.
29. Zero-row data: refused.   30. copy.deepcopy(DLISFile): TypeError, no output.
31. An exception while records are generated leaves a truncated file if output_chunk_size is smaller than what was
    produced so far; write() raises, so this was not counted as output.
32. WELL-REFERENCE sets (same logical record type OLR as ORIGIN) stay among the other sets, after all ORIGIN sets.
"""

import logging
import os
import struct
import tempfile

import numpy as np

logging.disable(logging.CRITICAL)

import dliswriter.file.writer as _w  # noqa: E402
from dliswriter import DLISFile  # noqa: E402

_w.progressbar = lambda it, **kw: it  # no progress bar output


# ------------------------------------------------------------------ a minimal independent reader (records only)
def _uvari(b, p):
    v = b[p]
    if v < 0x80:
        return v, p + 1
    if v < 0xC0:
        return struct.unpack('>H', b[p:p + 2])[0] & 0x3FFF, p + 2
    return struct.unpack('>I', b[p:p + 4])[0] & 0x3FFFFFFF, p + 4


def _obname(b, p):
    o, p = _uvari(b, p)
    c = b[p]
    n = b[p + 1]
    return (o, c, b[p + 2:p + 2 + n].decode('latin1')), p + 2 + n


def _logical_records(path):
    """[(is_eflr, type, body)] of the file; segments re-assembled, padding removed."""
    data = open(path, 'rb').read()
    p, recs, cur = 80, [], None
    while p < len(data):
        vrl = struct.unpack('>H', data[p:p + 2])[0]
        q, end = p + 4, p + vrl
        while q < end:
            ln, attrs, typ = struct.unpack('>HBB', data[q:q + 4])
            seg = data[q + 4:q + ln]
            if attrs & 0x01:
                seg = seg[:-seg[-1]]
            if not attrs & 0x40:
                cur = [bool(attrs & 0x80), typ, bytearray()]
            cur[2] += seg
            if not attrs & 0x20:
                recs.append((cur[0], cur[1], bytes(cur[2])))
            q += ln
        p = end
    return recs


# ------------------------------------------------------------------ findings
def finding_1():
    """Rename away + create: two frames / no-format objects of one set with one identity; IFLRs ambiguous."""

    df = DLISFile()
    lf = df.add_logical_file()
    lf.add_origin('O')
    ca = lf.add_channel('A', data=np.arange(3.))
    cb = lf.add_channel('B', data=np.arange(3.) + 10)
    cc = lf.add_channel('C', data=np.arange(3.) + 20)
    f0 = lf.add_frame('F', channels=(ca,))     # (0, 0, 'F')
    f1 = lf.add_frame('F', channels=(cb,))     # (0, 1, 'F')
    f0.name = 'G'                              # a free name: (0, 0, 'G')
    f2 = lf.add_frame('F', channels=(cc,))     # gets copy number 1 again -> (0, 1, 'F')

    n0 = lf.add_no_format('N')
    n1 = lf.add_no_format('N')
    n0.name = 'M'
    n2 = lf.add_no_format('N')
    lf.add_no_format_frame_data(n1, 'data of n1')
    lf.add_no_format_frame_data(n2, 'data of n2')

    path = os.path.join(tempfile.mkdtemp(), 'f1.dlis')
    df.write(path, output_chunk_size=2 ** 20)

    recs = _logical_records(path)
    frames, noformats, fdata_refs, nf_refs = [], [], [], []
    for is_eflr, typ, body in recs:
        if is_eflr:
            from rp66 import parse_eflr
            s = parse_eflr(body)
            if s['type'] == 'FRAME':
                frames += [o[0] for o in s['objects']]
            if s['type'] == 'NO-FORMAT':
                noformats += [o[0] for o in s['objects']]
        elif typ == 0:
            fdata_refs.append(_obname(body, 0)[0])
        elif typ == 1:
            nf_refs.append(_obname(body, 0)[0])

    dup_frame = len(frames) != len(set(frames))            # [(0,0,'G'), (0,1,'F'), (0,1,'F')]
    dup_nf = len(noformats) != len(set(noformats))         # [(0,0,'M'), (0,1,'N'), (0,1,'N')]
    # 3 rows of f1 and 3 rows of f2 all refer to (0, 1, 'F'); both no-format records refer to (0, 1, 'N')
    ambiguous = fdata_refs.count((0, 1, 'F')) == 6 and nf_refs.count((0, 1, 'N')) == 2

    # independent judge: dlisio gives 6 rows to each of the two frames called F (3 were written for each)
    rows = []
    try:
        import dlisio
        with dlisio.dlis.load(path) as (f, *_):
            rows = [len(fr.curves()) for fr in f.frames if fr.name == 'F']
    except Exception:
        rows = ['dlisio failed']
    return dup_frame and dup_nf and ambiguous and rows != [3, 3] \
        and (f1.copy_number, f2.copy_number) == (1, 1)


FINDINGS = [
    (finding_1, "BORDERLINE - renaming a frame / no-format object away to a free name and creating a new one under "
                "the old name yields two objects of one set with the same identity, so the IFLRs of both refer to "
                "one identity (the object an IFLR refers to is undetermined)"),
]

if __name__ == '__main__':
    for i, (fn, desc) in enumerate(FINDINGS, 1):
        try:
            ok = fn()
        except Exception as exc:  # pragma: no cover
            ok = False
            desc += f' [exception: {type(exc).__name__}: {exc}]'
        print(f"FINDING {i}: {desc} -> {'VIOLATED' if ok else 'not reproduced'}")
