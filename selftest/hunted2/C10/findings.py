"""Reproductions for property C10 (chunk sizes are invisible; the file only grows by whole records).

Run as:  cd /tmp/hunt2/C10 && PYTHONPATH=/tmp/hunt2/C10/src /venv/bin/python findings.py

(FINDINGS.md could not be created by the tool in use; its content follows.)

FINDINGS - C10
==============
Worktree /tmp/hunt2/C10 at f93c01c, numpy 2.5.3 (x86-64 with AVX-512), dlisio 1.0.4. Exploration scripts: scratch/.
Two findings: one genuine (narrow), one borderline. Everything else the statement quantifies over held.

Finding 1 - float -> uint32 cast of an out-of-range value: accepted or refused depending on input_chunk_size
------------------------------------------------------------------------------------------------------------
Input:
    a = np.arange(8, dtype=np.float64); a[0] = 2.0**32 + 5        # not a uint32
    df = DLISFile(); lf = df.add_logical_file()
    lf.add_origin('O', creation_time=datetime(2020,1,1,12), file_set_number=7)
    ch = lf.add_channel('A', data=a, cast_dtype=np.uint32)
    lf.add_frame('F', channels=[ch])                               # a frame of exactly one channel
    df.write(path, input_chunk_size=ICS, output_chunk_size=2**20)
Required: the same specification and data give the identical file for every accepted input_chunk_size (or, since
    d55ee77 "refuse data that a declared cast to an integer type cannot convert", the same refusal for every one).
Observed:
    ICS = 1     file written, 1010 bytes; dlisio reads A[0] == 5 (4294967301 wrapped modulo 2**32)
    ICS = 2     the identical 1010-byte file
    ICS = 8     ValueError: Data set 'A' has values which cannot be cast to uint32 (not-a-number, infinite, or
                outside of the range of that type)
    ICS = None  (the default) the same ValueError
    With 40 rows and the value at row p the outcome also depends on where the row falls inside its chunk
    (scratch/t1.py): input_chunk_size=7 is refused for p = 0 or 17 but written for p = 5 or 39; input_chunk_size=33 is
    refused for p = 0, 5, 17 and written for p = 39. Affected: float32 / float64 / complex -> uint32 with v >= 2**32 or
    v < -2**31 (1e10, -1e10, 2**32, -2147483649.0, ...). In every affected case one chunking gives a file and another
    one raises; no case found in which two chunkings give two different files (scratch/t9.py: chunk lengths 1..64 x all
    positions x all float sources x all integer targets).
Cause: src/dliswriter/utils/source_data_wrappers.py, SourceDataWrapper.load_chunk (l. 178-187):
        chunk = np.zeros(n_rows, dtype=self._dtype)
        with np.errstate(invalid='raise'):
            chunk[key] = self._data_source[loc][idx]
    The refusal relies on numpy raising the "invalid" floating-point flag. For a frame with a single channel the
    destination field is contiguous; numpy takes its SIMD float->uint32 loop for runs of >= 4 elements (flag raised ->
    refused) and the plain C cast for shorter runs and for the tail of a run (no flag -> value wraps, written). The
    number of rows cast at once is the input chunk size. (With two or more channels in the frame the destination is
    strided, the flag is never raised for these values and the value is silently wrapped for every chunk size -
    consistent, hence not part of this finding, though contrary to the intention of d55ee77. frame.py l. 115 casts the
    whole index column without the errstate guard.)

Finding 2 (borderline) - a write refused because of its output_chunk_size has already replaced the target
----------------------------------------------------------------------------------------------------------
Borderline because the statement quantifies over *accepted* values; reported because the statement's "a pre-existing
file at the target path is replaced" / "on-disk content is a prefix of the final file" are about what chunk sizes may do
to the disk, because one of the values below *is* accepted by the documented check, and because the two chunk-size
arguments behave differently.
Input:
    df = <any complete DLISFile, max_record_length 8192>
    open(path,'wb').write(b'PRECIOUS'*1000)          # pre-existing content, 8000 bytes
    df.write(path, output_chunk_size=X)
Observed:
    X = 100 (below the record length)          ValueError "cannot be smaller than ..."   target: 80 bytes (label only)
    X = 8192.5                                 ValueError "must be an integer"           target: 80 bytes
    X = np.int64(2**20), np.float32(2**20), '1000000'   TypeError "must be a number"     target: 80 bytes
    X = 2.0**70, 2**63 (pass _check_output_chunk_size: number, integral, >= record length)
                                               OverflowError from bytearray(size)        target: 80 bytes
    for comparison input_chunk_size=0, 1.0, np.int64(2): ValueError / TypeError          target: 8000 bytes, untouched
    A call rejected purely for its chunk-size argument destroys the prior content and leaves a file that is no DLIS
    file (label without records); there is no final file it could be a prefix of. 2.0**70 is an accepted value for
    which the same specification and data do not give the identical file (they give none).
Cause: src/dliswriter/file/file.py l. 219-226 and src/dliswriter/file/writer.py l. 204-234: DLISFile.write calls
    writer.write_storage_unit_label(...) - which opens the target with 'wb' and writes the 80 label bytes at once,
    un-buffered (ByteWriter.write_bytes) - before write_logical_records validates output_chunk_size
    (_check_output_chunk_size) and allocates BufferedOutput(int(output_chunk_size), ...). input_chunk_size is validated
    in MultiFrameData.__init__, i.e. in generate_logical_records, before the DLISWriter exists.

Tried and held (byte-for-byte against a reference write; structure checked with an own visible-record walker - length
and FF 01 at every record start, last record ends at EOF; content spot-checked with dlisio)
-----------------------------------------------------------------------------------------------------------------------
 1. input_chunk_size in {None, 1, 2, 3, 5, n, n+1, n+3, 1000, 10**9, True} x n in {1, 7, 12, 23} rows (t4, t7).
 2. output_chunk_size in {vrl, vrl+1, float(vrl), 2*vrl-1, 3000.0, 2**16, file size, size-1, size+1, 2**20}
    x vrl in {20, 26, 100, 256, 8192} (t4).
 3. All combinations of 1 and 2 with two logical files, two frames each (different row counts), 1-D and 2-D channels,
    a declared cast, index_type None and TIME.
 4. Pre-existing target of random length 0..200000 bytes (longer and shorter than the result): always fully replaced.
 5. Flush points observed through the public API: an ndarray subclass as channel data which reads the output file each
    time rows are taken from it (input_chunk_size 1 -> a look between any two records). Every state was a prefix of the
    final file ending on a visible-record boundary; the first flush is the bare 80-byte label (t4, t11).
 6. Reported total (log line "Total file size is N bytes") == size on disk, multi-flush, float output_chunk_size (t11).
 7. Data as dict / structured ndarray (fast path: views of the source) / HDF5 path, with from_idx / to_idx windows
    (0..None, 3..None, 0..10, 5..6, 22..23, 1..22): identical across sources and chunk sizes (t7).
 8. Big-endian source columns ('>f8', '>i2'), with and without cast.
 9. Declared casts int32->float64, float32->float64, uint8->int16, float64->float32 across chunkings.
10. float16/float32/float64/longdouble/complex/object sources -> every supported target, 29 boundary values, chunk
    lengths 1..64, every position (t1, t2, t9): only the uint32 case of Finding 1 depends on the chunking.
11. NaN, +-inf and signalling NaN cast to every target, single- and multi-channel frames (t5): consistent for every
    chunk size (sNaN float32<->float64 is refused - a false positive, but chunk-independent).
12. Strided (a[::2]) and 2-D (width 3, 4, 8) sources, contiguous vs strided destinations (t2).
13. Unaligned destination fields (uint8 / int16 channel before the uint32 channel) (t8).
14. Several writes of one DLISFile object with (input, output) chunk sizes (1, vrl), (7, vrl+3), (None, 2**20),
    (1000, float(size)), (33, size-1) on the library's "all object types" example, vrl in {20, 64, 300, 8192} (t6).
15. Rejected calls interleaved between those writes (input_chunk_size 0 / 1.0, output_chunk_size vrl-1 / vrl+0.5,
    from_idx beyond the data): following writes still identical.
16. output_chunk_size as bool, negative, NaN, inf, fractional, str, tuple, numpy scalar: rejected (side effect: Finding
    2); np.float64 (a float subclass) accepted and identical.
17. output_chunk_size 0 / 0.0 / None: silently the default 2**32 (`or`); file identical (only slow).
18. input_chunk_size as float, str, numpy integer, 0, negative: rejected before the target is touched.
19. Records longer than an output chunk's worth (rows of 30 float64 with vrl 128 and output_chunk_size 300.0; 46-byte
    rows with vrl 20): each segment is its own visible record, flushes stay on record boundaries.
20. output_chunk_size exactly the record length with records filling the buffer exactly (no early / late flush).
21. Segment size passed alongside the bytes == len(bytes) in all branches of make_segment (padding included), so the
    slice assignment in BufferedOutput never resizes the buffer.
22. Time- and random-dependent defaults (origin creation_time, file_set_number) are fixed at creation, not at write.
23. Record count announced to the progress bar vs records yielded (several frames / logical files / no-format data).
24. Errors in the middle of a write with small output chunks: the partial file ends on a record boundary.
25. Frame with a single row; input chunk larger than one frame but smaller than another frame of the same file.
26. Path forms: str, pathlib.Path, relative path, symlink to an existing file (replaced through the link) (t12).
27. high-compatibility mode does not enter any chunk-dependent code path (code reading).
28. HDF5 source: '/'-prefixed and bare dataset names, groups, 2-D datasets, chunked reading with windows.
"""

import io
import logging
import os
import sys
import tempfile
import warnings
from contextlib import redirect_stderr
from datetime import datetime

import numpy as np

from dliswriter import DLISFile

logging.disable(logging.CRITICAL)
warnings.simplefilter('ignore')

TMP = tempfile.mkdtemp(prefix='c10_')


def _quiet_write(df, path, **kwargs):
    """DLISFile.write without the progress bar on the terminal. Always with a small output chunk (unless given)."""

    kwargs.setdefault('output_chunk_size', 2 ** 20)
    sys.stderr.flush()
    saved = os.dup(2)
    devnull = os.open(os.devnull, os.O_WRONLY)
    try:
        os.dup2(devnull, 2)  # (the progress bar keeps the stderr it found at import time)
        with redirect_stderr(io.StringIO()):
            df.write(path, **kwargs)
    finally:
        sys.stderr.flush()
        os.dup2(saved, 2)
        os.close(saved)
        os.close(devnull)


def _single_channel_file(data, cast_dtype=None):
    df = DLISFile()
    lf = df.add_logical_file()
    lf.add_origin('O', creation_time=datetime(2020, 1, 1, 12), file_set_number=7)
    ch = lf.add_channel('A', data=data, cast_dtype=cast_dtype)
    lf.add_frame('F', channels=[ch])  # index_type None: rows are indexed by their number
    return df


def finding_1():
    """Whether a float -> uint32 cast of an out-of-range value is refused depends on input_chunk_size.

    One specification, one data set, three input chunk sizes: two of them give a (mutually identical) file, which holds
    the wrapped value, the third one - and the default, None - is refused with a ValueError.
    """

    a = np.arange(8, dtype=np.float64)
    a[0] = 2.0 ** 32 + 5  # not representable as uint32

    outcomes = {}
    for ics in (1, 2, 8, None):
        path = os.path.join(TMP, f'f1_{ics}.dlis')
        df = _single_channel_file(a.copy(), cast_dtype=np.uint32)
        try:
            _quiet_write(df, path, input_chunk_size=ics)
        except ValueError as exc:
            outcomes[ics] = f'ValueError: {exc}'
        else:
            with open(path, 'rb') as f:
                outcomes[ics] = f.read()

    written = [v for v in outcomes.values() if isinstance(v, bytes)]
    refused = [v for v in outcomes.values() if isinstance(v, str)]

    if written:
        # independent look at what the accepted variant holds
        import dlisio
        ics_ok = next(k for k, v in outcomes.items() if isinstance(v, bytes))
        with dlisio.dlis.load(os.path.join(TMP, f'f1_{ics_ok}.dlis')) as (lf, *_):
            stored = lf.frames[0].curves()['A']
        finding_1.evidence = (f"input_chunk_size={ics_ok}: file of {len(written[0])} bytes, A[0] read back as "
                              f"{stored[0]} (source value {a[0]}); "
                              f"refused for input_chunk_size in "
                              f"{[k for k, v in outcomes.items() if isinstance(v, str)]}: {refused[0] if refused else None}")

    # violated if the outcome is not the same for all the (accepted) input chunk sizes
    return bool(written) and bool(refused)


def finding_2():
    """A write which is refused because of its output_chunk_size has already replaced the target by an 80-byte stub.

    (A write refused because of its input_chunk_size leaves the target alone.)
    Includes a value which passes the documented check (integral float >= record length) and still gives no file.
    """

    df = _single_channel_file(np.arange(10.0))
    path = os.path.join(TMP, 'f2.dlis')
    prior = b'PRECIOUS' * 1000

    results = {}
    for label, kwargs in (
            ('ocs=100 (< record length)', dict(output_chunk_size=100)),
            ('ocs=np.int64(2**20)', dict(output_chunk_size=np.int64(2 ** 20))),
            ('ocs=8192.5', dict(output_chunk_size=8192.5)),
            ('ocs=2.0**70 (passes the check)', dict(output_chunk_size=2.0 ** 70)),
            ('ics=0 (for comparison)', dict(input_chunk_size=0)),
    ):
        with open(path, 'wb') as f:
            f.write(prior)
        try:
            _quiet_write(df, path, **kwargs)
        except Exception as exc:
            with open(path, 'rb') as f:
                now = f.read()
            results[label] = (type(exc).__name__, len(now), now == prior)
        else:
            results[label] = ('accepted', None, None)

    finding_2.evidence = '; '.join(f"{k}: {v[0]}, target now {v[1]} bytes, prior content kept: {v[2]}"
                                   for k, v in results.items())

    refused_ocs = [v for k, v in results.items() if k.startswith('ocs') and v[0] != 'accepted']
    return bool(refused_ocs) and all(v[1] == 80 and not v[2] for v in refused_ocs)


FINDINGS = [
    (finding_1, "a frame of one channel cast float->uint32 with a value outside of uint32: written (wrapped) for "
                "input_chunk_size 1 or 2, refused with ValueError for 8 or None"),
    (finding_2, "(borderline) a write refused for its output_chunk_size (too small, numpy integer, fractional, or an "
                "integral float too large to allocate) has already truncated the pre-existing target to the 80-byte label"),
]


if __name__ == '__main__':
    for i, (func, description) in enumerate(FINDINGS, start=1):
        try:
            violated = func()
        except Exception as exc:  # a reproduction must not take the others down
            violated = False
            print(f"(finding {i} raised {type(exc).__name__}: {exc})", file=sys.stderr)
        print(f"FINDING {i}: {description} -> {'VIOLATED' if violated else 'not reproduced'}")
        if getattr(func, 'evidence', None):
            print(f"    evidence: {func.evidence}")
