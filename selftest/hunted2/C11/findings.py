r"""C11 findings ("All data sources are equivalent and the row window selects exactly its rows").

(FINDINGS.md could not be created by the tool in use; its content is this docstring.)

Run:  cd /tmp/hunt2/C11 && PYTHONPATH=/tmp/hunt2/C11/src /venv/bin/python findings.py [-v]
Environment: numpy 2.5.3, h5py 3.16.0, dlisio 1.0.4, x86-64 with AVX-512, worktree at f93c01c.

Common root: the library applies numpy operations whose RESULT DEPENDS ON THE MEMORY LAYOUT AND LENGTH OF THE ARRAY
(contiguous vs. strided, >= 4 elements vs. fewer) to arrays whose layout is dictated by the KIND OF SOURCE
(dict / inline / HDF5: contiguous; a field of a structured array: strided) and by the INPUT CHUNK SIZE.

=====================================================================================================================
FINDING 1 - out-of-range float -> cast_dtype=uint32: refused or written depending on chunk size and source kind

Input (one logical file, one origin, frame F without index type, ONE channel):
    x = np.array([1e10, 1., 2., 3., 4., 5., 6., 7.])          # float64; 1e10 > 2**32-1
    ch = lf.add_channel('X', cast_dtype=np.uint32); lf.add_frame('F', channels=[ch])
    (a) df.write(fn, data={'X': x}, output_chunk_size=2**20)
    (b) df.write(fn, data={'X': x}, input_chunk_size=3, output_chunk_size=2**20)
    (c) df.write(fn, data='f1.h5')            # data set /X = x
    (d) df.write(fn, data=<structured array with fields X (= x) and UNUSED (float32)>)
Required: the same file for every source kind and every input chunk size (or the same refusal: commit d55ee77 means to
"refuse data that a declared cast to an integer type cannot convert (NaN, infinities, out-of-range floats)").
Observed:
    (a) dict, one chunk          ValueError: Data set 'X' has values which cannot be cast to uint32 (not-a-number,
                                 infinite, or outside of the range of that type)
    (b) dict, chunks of 3 (1, 2) file written; dlisio reads X = [1410065408, 1, 2, 3, 4, 5, 6, 7]  (1e10 mod 2**32)
    (c) HDF5                     ValueError as in (a)
    (d) struct + unused field    file written, X[0] = 1410065408
        struct with field X only ValueError
        dict with a strided array (np.repeat(x, 2)[::2])   file written
Code: src/dliswriter/utils/source_data_wrappers.py, SourceDataWrapper.load_chunk, lines 178-187:
    with np.errstate(invalid='raise'): chunk[key] = self._data_source[loc][idx]
The refusal relies on the hardware "invalid" flag. For float -> uint32 numpy converts through int64 in its scalar /
strided loop (no flag for |v| < 2**63: the value wraps) and only its contiguous SIMD loop (>= 4 elements, source AND
destination contiguous) raises the flag. chunk[key] is contiguous only if the frame has a single channel; the source
is contiguous for dict / HDF5, strided for a field of a structured array; a chunk of < 4 rows never takes the SIMD
loop. Affected: finite float32 / float64 values in (-2**63, -2**31] and [2**32, 2**63), e.g. 4294967296.0 -> 0,
-1e10 -> 2884901888. In frames with >= 2 channels such values are never refused (always wrapped), in spite of the
error message - the slots are then the same for all sources, but see finding 2.

=====================================================================================================================
FINDING 2 - same data, every source accepted, different files: INDEX-MIN / INDEX-MAX of an index cast to uint32

Input: frame F, index_type='TIME', channels X (cast_dtype=np.uint32, the index) and Y:
    x = np.array([1e10, 1., 2., 3., 4., 5., 6., 7.]); y = np.arange(8, dtype=np.float32)
    write(data={'X': x, 'Y': y}) / write(data='f2.h5') / write(data=structured array (X: f8, Y: f4))
Required: byte-identical files.
Observed (decoded with dlisio):
    dict              INDEX-MIN 0.0  INDEX-MAX 7.0            X = [1410065408, 1, 2, 3, 4, 5, 6, 7]
    HDF5              INDEX-MIN 0.0  INDEX-MAX 7.0            same slots   (file == dict file)
    structured array  INDEX-MIN 1.0  INDEX-MAX 1410065408.0   same slots   (file != dict file)
Also with a window: x = [0, 1, 2, 3, 1e10], from_idx=1: dict -> min 0.0 / max 3.0 (0 is not even in the window),
structured array -> min 1.0 / max 1410065408.0.
Code: src/dliswriter/logical_record/eflr_types/frame.py, _setup_frame_params_from_data, lines 112-115 and 127-128:
index_data = data[index_channel.name][:] keeps the layout of the source; index_data.astype(index_channel.cast_dtype)
is done by numpy's contiguous SIMD loop (1e10 -> 0, "invalid" only warned about) for dict / HDF5 and by the strided
scalar loop (1e10 -> 1410065408) for a field of a structured array. The slots are cast in load_chunk into a strided
field (always 1410065408), so for dict / HDF5 the index bounds do not even describe the slots.

=====================================================================================================================
FINDING 3 - index holding both 0.0 and -0.0: the sign of INDEX-MIN / INDEX-MAX depends on the source kind

Input: no cast, ordinary values; frame F, index_type='BOREHOLE-DEPTH', channels DEPTH, Y:
    depth = np.round(np.linspace(-0.4, 0.4, 9))   # [-0. -0. -0. -0.  0.  0.  0.  0.  0.]   (a rounded index)
    y = np.arange(9, dtype=np.float64)
Required: byte-identical files for inline / dict / structured array / HDF5.
Observed: inline, dict, HDF5 (and a structured array with a third, float32 field): INDEX-MIN = -0.0, INDEX-MAX = -0.0;
structured array with exactly the fields (DEPTH: f8, Y: f8): INDEX-MIN = 0.0, INDEX-MAX = 0.0. All slots identical;
the files differ in the sign bits of the two FDOUBL values (write_struct deliberately encodes -0.0 and 0.0
differently). With 17 rows all sources agree again: it depends on the length, too.
Code: frame.py lines 127-128: assign_if_none(self.index_min, index_data.min()) / .max() on an array which has the
layout of the source. numpy reduces contiguous and aligned-strided arrays in a different order, and 0.0 == -0.0, so
which one "wins" depends on the layout (also: dict of columns of a 2-D table, table[:, 0], vs. copies of them).
Possible fix for 2 and 3: np.ascontiguousarray (native byte order) of the index data before cast / min / max;
for 1: an explicit range check instead of the FP flag.

=====================================================================================================================
NOT COUNTED (borderline / outside the statement)
* Data sets of different length with a window inside all of them ({'A': 12 rows, 'B': 5 rows}, to_idx=5): refused
  ("All data sets must have the same number of rows") although the pre-sliced arrays are fine; I read "rows" in the
  statement as one common row count.
* Inline data are kept by reference (_data_dict[ch.dataset_name] = data): an array changed in place after add_channel
  is written with its new contents. Probably intended (no copy of big arrays).
* A dict with an extra, unused entry which is not an ndarray is refused (_check_source_dict checks all values), whereas
  unused HDF5 data sets / structured fields of any type are fine. A refusal only.
* A declared float32 <-> float64 cast of a signalling NaN is refused as "cannot be cast" (the FP flag again) - but
  consistently for every source, layout and chunk size.
* float -> uint8/int8/uint16/int16 out of range (300.0 -> uint8 = 44) and small negative floats -> uint32 are never
  refused in spite of the message - but consistently so.

WHAT ELSE WAS TRIED (all byte-identical / equally refused)
 1. inline vs dict vs dict in reversed key order vs structured (same order, reversed order, extra fields) vs HDF5;
    windows (0,None) (3,None) (3,10) (0,1) (last row only) x chunk sizes None, 1, 5, =rows, >rows; vs pre-sliced data.
 2. Big-endian arrays in dict / inline / structured / HDF5.
 3. Non-contiguous arrays: strided views, negative strides, Fortran-order 2-D.
 4. (n,1)- and (n,0)-shaped channels in all four kinds.
 5. np.recarray, align=True dtypes, dtypes with titles, dtypes with explicit (permuted, padded) offsets; with windows.
 6. Declared casts (float64->float32, int32->uint8, int64->int32, float16->float32, bool->uint8) in all kinds, vs
    pre-cast data (which takes the structured fast path).
 7. Sequences of writes of one DLISFile: other data then data; window then full; full then window; dict then HDF5
    then structured; each compared with a fresh object.
 8. A refused write (unequal lengths) followed by a good one.
 9. HDF5: gzip / chunked / shuffled / resizable data sets, nested groups, names with and without leading '/', soft
    links, unused string data sets, .H5 / .hdf5 extensions, pathlib.Path, array-typed ('(3,)f8') data sets.
10. Two logical files x two frames each (one indexed, one not), channels from two channel sets, the same channel name
    twice (data set A__1), with and without window, vs pre-sliced.
11. Crosswise / partial / random dataset_name mappings, data set names equal to other channels' names.
12. NaN payloads, signalling NaNs, infinities, denormals, -0.0 in non-index channels: bits preserved in all kinds.
13. Randomised differential fuzz (300 cases): 1-4 channels, all 8 dtypes, widths, safe casts, random layouts
    (contiguous / strided / big-endian / Fortran), random windows and chunk sizes, 6 ways of supplying the data.
14. numpy-level scan of all source dtypes (f2, f4, f8, longdouble, c8, c16, i8, u8, bool) x the 8 target dtypes x
    layouts x lengths for layout-dependent cast results: only float/complex -> uint32 (findings 1, 2).
15. Alignment dependence of min / max (window slice vs copy of it): none.
16. from_idx / to_idx as numpy integers, bools; to_idx = 0, negative, None; chunk size 0 / numpy int / float (refused).
17. Empty channel name (numpy renames '' to 'f0': refused equally for all kinds); the same channel twice in a frame.
18. Float -> float casts of signalling NaNs over layouts and lengths (consistent).
"""
import contextlib
import logging
import os
import tempfile
from datetime import datetime

import numpy as np
import h5py
import dlisio

from dliswriter import DLISFile

logging.getLogger('dliswriter').setLevel(logging.CRITICAL)
dlisio.common.set_encodings(['latin1'])
TMP = tempfile.mkdtemp(prefix='c11_findings_')


@contextlib.contextmanager
def _quiet():
    """Silence the progress bar (it writes to the stderr file descriptor)."""
    saved = os.dup(2)
    devnull = os.open(os.devnull, os.O_WRONLY)
    try:
        os.dup2(devnull, 2)
        yield
    finally:
        os.dup2(saved, 2)
        os.close(saved)
        os.close(devnull)


def _make_file(channel_specs, index_type):
    """channel_specs: list of (name, cast_dtype). One logical file, one frame 'F' with these channels."""
    df = DLISFile()
    lf = df.add_logical_file()
    lf.add_origin('O', creation_time=datetime(2020, 1, 1), file_set_number=1)
    chans = [lf.add_channel(name, cast_dtype=cast) for name, cast in channel_specs]
    lf.add_frame('F', channels=chans, index_type=index_type)
    return df


_counter = [0]


def _write(channel_specs, index_type, data, **kw):
    """Write a fresh DLISFile with the given data; return the bytes of the file (or the exception)."""
    _counter[0] += 1
    fn = os.path.join(TMP, f'out{_counter[0]}.dlis')
    df = _make_file(channel_specs, index_type)
    try:
        with _quiet():
            df.write(fn, data=data, output_chunk_size=2 ** 20, **kw)
    except Exception as exc:  # noqa
        return exc
    with open(fn, 'rb') as f:
        return f.read()


def _decode(file_bytes):
    """Independent judge: what dlisio reads back (index_min, index_max, curves) from frame F."""
    fn = os.path.join(TMP, 'decode.dlis')
    with open(fn, 'wb') as f:
        f.write(file_bytes)
    with dlisio.dlis.load(fn) as (lf,):
        fr = lf.frames[0]
        curves = fr.curves()
        return fr.index_min, fr.index_max, {n: curves[n].tolist() for n in curves.dtype.names if n != 'FRAMENO'}


def _struct(d):
    dt = [(k, v.dtype, v.shape[1:]) if v.ndim > 1 else (k, v.dtype) for k, v in d.items()]
    arr = np.zeros(len(next(iter(d.values()))), dtype=dt)
    for k, v in d.items():
        arr[k] = v
    return arr


def _h5(d, name):
    fn = os.path.join(TMP, name)
    with h5py.File(fn, 'w') as f:
        for k, v in d.items():
            f.create_dataset(k, data=v)
    return fn


def finding_1(verbose=False):
    """Same data, same (dict) source: whether the file is written at all depends on input_chunk_size - and on the
    kind of source (dict / HDF5 refused, structured array with one more field accepted).

    One-channel frame, channel X declared cast_dtype=uint32, float64 data containing 1e10 (not representable).
    """

    x = np.array([1e10, 1., 2., 3., 4., 5., 6., 7.])
    specs = [('X', np.uint32)]

    whole = _write(specs, None, {'X': x})                                  # input_chunk_size=None
    chunked = _write(specs, None, {'X': x}, input_chunk_size=3)
    h5 = _write(specs, None, _h5({'X': x}, 'f1.h5'))
    struct_extra = _write(specs, None, _struct({'X': x, 'UNUSED': np.zeros(8, np.float32)}))
    if verbose:
        for label, r in (('dict, one chunk', whole), ('dict, chunks of 3', chunked), ('hdf5', h5),
                         ('struct + unused field', struct_extra)):
            print('   ', label, '->', repr(r)[:110] if isinstance(r, Exception) else _decode(r))

    refused = isinstance(whole, Exception) and isinstance(h5, Exception)
    written = isinstance(chunked, bytes) and isinstance(struct_extra, bytes)
    return refused and written and _decode(chunked)[2]['X'][0] == 1410065408


def finding_2(verbose=False):
    """Same data, every source accepted - but dict / HDF5 and structured array give different files.

    Two-channel indexed frame; index channel X declared cast_dtype=uint32, float64 data containing 1e10.
    The slots are the same (1e10 -> 1410065408), the frame's INDEX-MIN / INDEX-MAX are not.
    """

    x = np.array([1e10, 1., 2., 3., 4., 5., 6., 7.])
    y = np.arange(8, dtype=np.float32)
    specs = [('X', np.uint32), ('Y', None)]

    from_dict = _write(specs, 'TIME', {'X': x, 'Y': y})
    from_h5 = _write(specs, 'TIME', _h5({'X': x, 'Y': y}, 'f2.h5'))
    from_struct = _write(specs, 'TIME', _struct({'X': x, 'Y': y}))
    if not all(isinstance(r, bytes) for r in (from_dict, from_h5, from_struct)):
        return False
    if verbose:
        for label, r in (('dict', from_dict), ('hdf5', from_h5), ('struct', from_struct)):
            print('   ', label, '->', _decode(r))

    return from_dict == from_h5 and from_dict != from_struct and _decode(from_dict)[:2] != _decode(from_struct)[:2]


def finding_3(verbose=False):
    """Same data, all in range, no cast: dict / HDF5 / inline vs. structured array differ in the sign bit of
    INDEX-MIN and INDEX-MAX when the index channel holds both 0.0 and -0.0 (e.g. a rounded index)."""

    depth = np.round(np.linspace(-0.4, 0.4, 9))     # [-0. -0. -0. -0.  0.  0.  0.  0.  0.]
    y = np.arange(9, dtype=np.float64)
    specs = [('DEPTH', None), ('Y', None)]

    from_dict = _write(specs, 'BOREHOLE-DEPTH', {'DEPTH': depth, 'Y': y})
    from_h5 = _write(specs, 'BOREHOLE-DEPTH', _h5({'DEPTH': depth, 'Y': y}, 'f3.h5'))
    from_struct = _write(specs, 'BOREHOLE-DEPTH', _struct({'DEPTH': depth, 'Y': y}))
    if not all(isinstance(r, bytes) for r in (from_dict, from_h5, from_struct)):
        return False
    a, b = _decode(from_dict), _decode(from_struct)
    if verbose:
        print('    dict   ->', a[:2])
        print('    struct ->', b[:2])

    return (from_dict == from_h5 and from_dict != from_struct and a[2] == b[2]
            and (np.signbit(a[0]) != np.signbit(b[0]) or np.signbit(a[1]) != np.signbit(b[1])))


FINDINGS = [
    (finding_1, "float data out of the range of a declared cast_dtype=uint32: the write is refused or carried out "
                "(with a wrapped value) depending on input_chunk_size and on the kind of source"),
    (finding_2, "index channel cast to uint32 with an out-of-range float: dict/HDF5 and structured-array sources give "
                "different INDEX-MIN/INDEX-MAX, hence different files"),
    (finding_3, "index channel holding both 0.0 and -0.0: structured-array source gives INDEX-MIN/MAX of the other "
                "sign than dict/HDF5/inline, hence different files"),
]


if __name__ == '__main__':
    import sys
    import warnings
    warnings.simplefilter('ignore')
    verbose = '-v' in sys.argv
    for i, (func, description) in enumerate(FINDINGS, start=1):
        try:
            violated = func(verbose)
        except Exception as exc:  # noqa
            print(f"   (finding_{i} raised {type(exc).__name__}: {exc})")
            violated = False
        print(f"FINDING {i}: {description} -> {'VIOLATED' if violated else 'not reproduced'}")
