"""Reproductions of violations of property C12 (fail-closed write) in dliswriter, as found in this worktree.

Run as:  cd /tmp/hunt2/C12 && PYTHONPATH=/tmp/hunt2/C12/src /venv/bin/python findings.py

Every function builds a small DLIS specification through the public API, writes it (the write returns normally),
reads the result back with dlisio (all dlisio error levels escalated to exceptions) and returns True if the decoded
content differs from what was specified / should have been refused.

(FINDINGS.md could not be created by the tooling; its content follows.)

=====================================================================================================================
C12 (fail-closed write) - findings
=====================================================================================================================
Worktree /tmp/hunt2/C12 (HEAD f93c01c), numpy 2.5.3; judged with dlisio (all error levels escalated to exceptions) and
an own structural parser of SUL / visible records / segments. Ordered by strength. 1 is a clear hole in an earlier fix
(d55ee77); 2-3 are the same code path with weaker arguments; 4 is a hole in another earlier fix (18ee7a4); 5-6 are
low-severity.

---------------------------------------------------------------------------------------------------------------------
1. Out-of-range floats under a declared cast to uint8 / int8 / int16 / uint16 / uint32 are written wrapped around
---------------------------------------------------------------------------------------------------------------------
Input:
    df = DLISFile(); lf = df.add_logical_file(); lf.add_origin('ORIGIN')
    c1 = lf.add_channel('DEPTH', data=np.arange(3.))
    c2 = lf.add_channel('X', data=np.array([1., 300., -1.]), cast_dtype=np.uint8)
    lf.add_frame('MAIN', channels=(c1, c2))
    df.write(path, output_chunk_size=2**20)          # returns normally

Required: 300.0 and -1.0 are outside the range of USHORT -> exception ("integers outside their code's range ... raise";
the library itself does so for int32: np.array([1., 3e9]) with cast_dtype=np.int32 gives "ValueError: Data set 'X' has
values which cannot be cast to int32 (not-a-number, infinite, or outside of the range of that type)").

Observed (dlisio frame.curves()['X']; REPRESENTATION-CODE as declared):
    source (float64)          cast_dtype   decoded
    [1, 300, -1]              uint8        [1, 44, 255]
    [1, 300]                  int8         [1, 44]
    [1, 40000, 70000]         int16        [1, -25536, 4464]
    [1, 70000, -1]            uint16       [1, 4464, 65535]
    [1, 5e9, 2**32, -1]       uint32       [1, 705032704, 0, 4294967295]
    [1, 3e9] / [1, 2**31]     int32        ValueError (refused, as intended)
    [1, 1e19]                 uint8        ValueError (refused)
Same with a float32 source, with input_chunk_size=1, and for an index channel - there the frame metadata describe the
wrapped numbers too: index [0., 100., 200., 300.], cast_dtype=np.uint8, index_type='BOREHOLE-DEPTH' decodes to
[0, 100, 200, 44], INDEX-MAX 200, no SPACING.

Cause: src/dliswriter/utils/source_data_wrappers.py:183 (SourceDataWrapper.load_chunk) detects unconvertible values
with np.errstate(invalid='raise'). The FP 'invalid' flag is only raised by the hardware conversion when the value does
not fit the *intermediate* int32 / int64 the conversion goes through; a value that fits that intermediate but not the
(narrower or unsigned) target is truncated afterwards without any flag. So the check covers int32 targets (and
absurdly large values), not int8/uint8/int16/uint16, and for uint32 only values beyond the int64 range.
(logical_record/eflr_types/frame.py:115 casts the index the same way for INDEX-MIN/MAX.) The result of such a C
conversion is undefined behaviour and platform dependent (x86 wraps, ARM saturates), i.e. exactly what commit d55ee77
meant to refuse.

---------------------------------------------------------------------------------------------------------------------
2. float64 data beyond the float32 range under cast_dtype=np.float32 are written as +-inf
---------------------------------------------------------------------------------------------------------------------
Input: as in 1, with data=np.array([1., 1e300, -3.5e38]), cast_dtype=np.float32.
Required: the values cannot be represented in FSINGL -> exception (or faithful encoding).
Observed: write returns normally; channel X has REPRESENTATION-CODE 2 and decodes to [1.0, inf, -inf].
Cause: same statement, source_data_wrappers.py:183: only 'invalid' is escalated; the float->float overflow raises the
'over' flag ("overflow encountered in cast"), which stays a warning. (Weaker than 1 in that IEEE defines the result;
still the file holds infinities nobody specified, next to a check whose message promises to refuse values "outside of
the range of that type".)

---------------------------------------------------------------------------------------------------------------------
3. An unsupported source dtype is accepted as soon as a cast is declared; complex data lose their imaginary part
---------------------------------------------------------------------------------------------------------------------
Input: as in 1, with data=np.array([1+2j, 3-1j]), cast_dtype=np.float64 (or np.int32).
Required: "unsupported dtypes ... raise". Without cast_dtype the same array is refused:
"ValueError: Dtype complex128 is not supported; allowed dtypes are: int8, ...".
Observed: write returns normally; X decodes to [1.0, 3.0] ([1, 3] for int32): half of the specified content is gone
(numpy only emits a ComplexWarning). In the same way object arrays ([1, None] -> [1.0, nan]), datetime64
('2020-01-01' -> 18262), timedelta64, bytes_/str_ arrays are accepted and converted by whatever numpy's assignment
does.
Cause: source_data_wrappers.py:114-115 (determine_dtypes): number_type = known_dtypes.get(dtype_name, dset_row0.dtype)
- when the channel has a declared cast, only the *target* dtype is validated, the dtype of the data never is;
load_chunk then assigns chunk[key] = self._data_source[loc][idx] with numpy's permissive assignment casting.

---------------------------------------------------------------------------------------------------------------------
4. The origin reference of the FILE-HEADER object is never checked (a dangling reference is written)
---------------------------------------------------------------------------------------------------------------------
Input (natural route: the user re-numbers the origin and the objects):
    df = DLISFile(); lf = df.add_logical_file(); o = lf.add_origin('ORIGIN')
    c = lf.add_channel('DEPTH', data=np.arange(3.)); fr = lf.add_frame('MAIN', channels=(c,))
    for item in (o, c, fr):
        item.origin_reference = 5
    df.write(path, output_chunk_size=2**20)          # returns normally
(or simply lf.file_header.origin_reference = 9.)
Required: "origin references of no origin" are refused - and they are for every other object:
c.origin_reference = 9 -> "RuntimeError: Origin reference 9 of ChannelItem 'DEPTH' is not that of any origin of the
logical file (references of the origins: [0])".
Observed: file is written; dlisio: FILE-HEADER '0' origin 0, ORIGIN 'ORIGIN' origin 5, FRAME/CHANNEL origin 5 - the
file header's name refers to an origin that does not exist in the logical file.
Cause: src/dliswriter/file/file.py:2132 (LogicalFile._check_references) walks own_sets, built from self._eflr_sets;
the FileHeaderSet is deliberately not kept there (file.py:272-276), so its item is skipped. Its reference is assigned
once, when the first origin is added (file.py:1590), and never looked at again.

---------------------------------------------------------------------------------------------------------------------
5. IDENT attributes without a converter write str() of any object; the struct memo then mixes up equal objects
---------------------------------------------------------------------------------------------------------------------
Affected: Origin.file_set_name / file_type / name_space_name, Frame.direction, Message.type, Calibration.method,
NoFormat.consumer_name (all IdentAttribute(...) without converter).
Input:
    lf.add_origin('O2', file_type='caf\\u00e9'.encode('utf8'), name_space_name=frozenset({'a'}))
    lf.add_origin('O3', file_set_name=Decimal('1.00'), file_type=Decimal('1.0'))
    lf.add_frame('MAIN', channels=(c,), direction=datetime(2020, 1, 1))
Required: non-text / non-ASCII input that cannot be represented as an IDENT -> exception (the str 'caf\\u00e9' *is*
refused with UnicodeEncodeError; every TextAttribute refuses non-str with TypeError).
Observed: write returns normally; decoded FILE-TYPE = "b'caf\\\\xc3\\\\xa9'", NAME-SPACE-NAME = "frozenset({'a'})",
DIRECTION = "2020-01-01 00:00:00"; and O3's FILE-TYPE Decimal('1.0') decodes as '1.00', because
Decimal('1.0') == Decimal('1.00') with equal hash and type, so the memoised bytes of the first one are re-used.
Cause: logical_record/core/attribute/subtypes.py:346 (IdentAttribute has no default converter, unlike
TextAttribute._check_string); utils/internal/struct_writer.py:88 write_struct_ident: value_str = str(value);
struct_writer.py:179 lru_cache(typed=True) keys on value equality, which for non-str objects does not imply equal
str(). (Distinct from the known "(str, Enum) members passed as text": no str subclass involved.)

---------------------------------------------------------------------------------------------------------------------
6. Units given without a value (or with an empty value list) are silently dropped
---------------------------------------------------------------------------------------------------------------------
Input: lf.add_axis('AX', spacing=AttrSetup(units='m'), coordinates=AttrSetup(value=[], units='ft'))
Required: a degenerate but representable input (RP66 allows an attribute component with units and no value) is
"either rejected or encoded faithfully".
Observed: write returns normally; the AXIS object decodes with neither SPACING nor COORDINATES - the units are gone.
Cause: logical_record/core/eflr/eflr_item.py:185 (_make_attrs_bytes): "if attr.value is None or attr.count == 0:"
-> absent attribute (b'\\x00'), whatever attr.units holds.

---------------------------------------------------------------------------------------------------------------------
Tried without finding a violation (all either raised or round-tripped faithfully under strict dlisio + own parser)
---------------------------------------------------------------------------------------------------------------------
segmentation for every body size 1..260 x segment capacity 12..68 and whole files for max_record_length 20..80, 100,
128, 254-258, 16384 (EFLR, FDATA, no-format of capacity-1/0/+1 bytes); uvari boundaries of text lengths (0, 127, 128,
16383, 16384, 70000) and value counts (127, 128, 16383, 16384); all 22 object types in one file; zero-width (n,0),
(n,1), 0-row, 3-D, 0-d data; strided / Fortran / negative-stride / broadcast / big-endian arrays; np.matrix, ndarray
subclasses, recarray, aligned / titled / multi-field-view / big-endian structured arrays, sub-array fields; HDF5
(big-endian, chunked+gzip, nested groups, soft links, scalar, group instead of dataset, missing, short, int64, bool,
pathlib); row windows + chunk sizes; several writes with changed data / dtypes / shapes / units, failed write followed
by a good one; items added before the origin, explicit origin references, 3 logical files; same channel twice / two
same-named channels / ''-named channel in a frame (refused); DTIME range 1900..2155, zones, sub-ms; integer attribute
ranges (UNORM, UVARI 2**30), bool / Decimal / Fraction / numpy scalars as numbers; empty names, empty index type,
empty strings, NUL characters; non-ASCII in every text position; SUL / file-header sequence numbers and lengths;
high-compatibility mode; 150 random specifications (1-3 logical files, 1-3 frames, all 8 dtypes, random widths incl.
0, record lengths 20..16384, windows, chunking, no-format data).
"""

import contextlib
import logging
import os
import sys
import warnings
from datetime import datetime
from decimal import Decimal

import numpy as np

logging.disable(logging.CRITICAL)
warnings.simplefilter('ignore')

from dliswriter import DLISFile, AttrSetup  # noqa: E402
from dlisio import dlis  # noqa: E402
from dlisio.common import ErrorHandler, Actions  # noqa: E402

TMP = os.path.join(os.path.dirname(os.path.abspath(__file__)), '_findings_tmp')
os.makedirs(TMP, exist_ok=True)
STRICT = ErrorHandler(info=Actions.RAISE, minor=Actions.RAISE, major=Actions.RAISE, critical=Actions.RAISE)


@contextlib.contextmanager
def _quiet():
    """Silence the progress bar of the writer (it holds on to the original stderr): redirect the descriptor itself."""

    sys.stderr.flush()
    saved = os.dup(2)
    devnull = os.open(os.devnull, os.O_WRONLY)
    try:
        os.dup2(devnull, 2)
        yield
    finally:
        sys.stderr.flush()
        os.dup2(saved, 2)
        os.close(saved)
        os.close(devnull)


def _write(df: DLISFile, name: str, **kwargs) -> str:
    path = os.path.join(TMP, name)
    if os.path.exists(path):
        os.remove(path)
    with _quiet():
        df.write(path, output_chunk_size=2 ** 20, **kwargs)   # must return normally for a finding to count
    return path


def _base():
    df = DLISFile()
    lf = df.add_logical_file()
    lf.add_origin('ORIGIN')
    return df, lf


def _write_cast(src: np.ndarray, cast, name: str):
    """One frame: float64 index + channel X holding 'src', declared to be cast to 'cast'. Returns decoded X, reprc."""

    df, lf = _base()
    c1 = lf.add_channel('DEPTH', data=np.arange(len(src), dtype=np.float64))
    c2 = lf.add_channel('X', data=src, cast_dtype=cast)
    lf.add_frame('MAIN', channels=(c1, c2))
    path = _write(df, name)
    with dlis.load(path, error_handler=STRICT) as (f,):
        x = f.frames[0].curves(strict=True)['X'].tolist()
        reprc = f.object('CHANNEL', 'X').reprc
    return x, reprc


def finding_1() -> bool:
    """Out-of-range floats cast to uint8/int8/int16/uint16/uint32 are written wrapped around (300.0 -> 44)."""

    observed = []
    for values, cast in (
        ([1., 300., -1.], np.uint8),        # -> [1, 44, 255]
        ([1., 300.], np.int8),              # -> [1, 44]
        ([1., 40000., 70000.], np.int16),   # -> [1, -25536, 4464]
        ([1., 70000., -1.], np.uint16),     # -> [1, 4464, 65535]
        ([1., 5e9, 2. ** 32, -1.], np.uint32),  # -> [1, 705032704, 0, 4294967295]
    ):
        try:
            x, _ = _write_cast(np.array(values), cast, 'f1.dlis')
        except Exception:
            observed.append(False)  # refused: fine
            continue
        observed.append(x != values)    # written, and what is decoded is not what was specified
    # (the same kind of input IS refused when the target is int32: that is what the library intends)
    try:
        _write_cast(np.array([1., 3e9]), np.int32, 'f1.dlis')
        refused_for_int32 = False
    except ValueError:
        refused_for_int32 = True
    return all(observed) and refused_for_int32


def finding_2() -> bool:
    """float64 values beyond the float32 range, with cast_dtype=float32, are written as +-inf."""

    values = [1., 1e300, -3.5e38]
    try:
        x, reprc = _write_cast(np.array(values), np.float32, 'f2.dlis')
    except Exception:
        return False
    return reprc == 2 and x[1] == float('inf') and x[2] == float('-inf')


def finding_3() -> bool:
    """Unsupported source dtype (complex128) is accepted once a cast is declared; imaginary parts silently vanish."""

    src = np.array([1 + 2j, 3 - 1j])
    try:
        x, _ = _write_cast(src, np.float64, 'f3.dlis')
    except Exception:
        return False
    # without the declared cast the very same data are (rightly) refused as an unsupported dtype
    try:
        _write_cast(src, None, 'f3.dlis')
        refused_without_cast = False
    except ValueError:
        refused_without_cast = True
    return x == [1.0, 3.0] and refused_without_cast


def finding_4() -> bool:
    """Origin reference of the FILE-HEADER object is never checked: it may be the reference of no origin."""

    # (a) natural route: the origin and all objects are re-numbered; the header silently keeps the old reference
    df, lf = _base()
    c = lf.add_channel('DEPTH', data=np.arange(3.))
    fr = lf.add_frame('MAIN', channels=(c,))
    for item in (lf.origins[0], c, fr):
        item.origin_reference = 5
    path = _write(df, 'f4.dlis')
    with dlis.load(path, error_handler=STRICT) as (f,):
        origins = [o.origin for o in f.origins]
        header_origin = f.fileheader.origin
    dangling = header_origin not in origins       # header: 0, only origin: 5

    # (b) the same dangling reference on any other object is refused
    df, lf = _base()
    c = lf.add_channel('DEPTH', data=np.arange(3.))
    lf.add_frame('MAIN', channels=(c,))
    c.origin_reference = 9
    try:
        _write(df, 'f4.dlis')
        refused_for_channel = False
    except RuntimeError:
        refused_for_channel = True
    return dangling and refused_for_channel


def finding_5() -> bool:
    """IDENT attributes without a converter write str(<anything>): non-ASCII bytes, sets, ...; memo mixes Decimals."""

    df, lf = _base()
    lf.add_origin('O2', file_type='café'.encode('utf8'), name_space_name=frozenset({'a'}))
    lf.add_origin('O3', file_set_name=Decimal('1.00'), file_type=Decimal('1.0'))
    c = lf.add_channel('DEPTH', data=np.arange(3.))
    lf.add_frame('MAIN', channels=(c,), direction=datetime(2020, 1, 1))
    try:
        path = _write(df, 'f5.dlis')
    except Exception:
        return False
    with dlis.load(path, error_handler=STRICT) as (f,):
        o2, o3 = f.origins[1], f.origins[2]
        file_type = o2.attic['FILE-TYPE'].value[0]
        nsn = o2.attic['NAME-SPACE-NAME'].value[0]
        direction = f.frames[0].attic['DIRECTION'].value[0]
        dec = o3.attic['FILE-TYPE'].value[0]
    return (file_type == "b'caf\\xc3\\xa9'" and nsn == "frozenset({'a'})" and direction == '2020-01-01 00:00:00'
            and dec == '1.00')   # Decimal('1.0') written with the memoised bytes of the equal Decimal('1.00')


def finding_6() -> bool:
    """Units given for an attribute without a value (or with an empty value list) are silently dropped."""

    df, lf = _base()
    c = lf.add_channel('DEPTH', data=np.arange(3.))
    lf.add_frame('MAIN', channels=(c,))
    lf.add_axis('AX', spacing=AttrSetup(units='m'), coordinates=AttrSetup(value=[], units='ft'))
    try:
        path = _write(df, 'f6.dlis')
    except Exception:
        return False
    with dlis.load(path, error_handler=STRICT) as (f,):
        labels = list(f.axes[0].attic.keys())
    return 'SPACING' not in labels and 'COORDINATES' not in labels


FINDINGS = [
    (finding_1, "floats outside the range of a declared uint8/int8/int16/uint16/uint32 cast are written wrapped around "
                "(300.0 -> 44) instead of being refused like they are for int32"),
    (finding_2, "float64 data beyond the float32 range with cast_dtype=float32 are written as +-inf"),
    (finding_3, "complex (unsupported) source data pass once a cast is declared; the imaginary parts are dropped"),
    (finding_4, "the FILE-HEADER object's origin reference is not checked and can be that of no origin"),
    (finding_5, "IDENT attributes without converter write str() of any object (non-ASCII bytes as \"b'caf\\xc3\\xa9'\"), "
                "and the struct memo writes Decimal('1.0') as '1.00'"),
    (finding_6, "units given without a value (or with an empty value list) are silently dropped"),
]


if __name__ == '__main__':
    for i, (func, description) in enumerate(FINDINGS, start=1):
        try:
            violated = bool(func())
        except Exception as exc:  # a reproduction that breaks is not a reproduction
            violated = False
            description += f" [reproduction raised {type(exc).__name__}: {exc}]"
        print(f"FINDING {i}: {description} -> {'VIOLATED' if violated else 'not reproduced'}")
