"""Adversarial reproductions for property C13 (frame index metadata is truthful for the rows written).

Run as:  cd /tmp/hunt2/C13 && PYTHONPATH=/tmp/hunt2/C13/src /venv/bin/python findings.py

Every finding writes a small DLIS file through the public API, reads it back with dlisio (independent of the
library) and compares INDEX-MIN / INDEX-MAX / SPACING of the FRAME object with the index column dlisio decodes from
the frame data that was actually written.

(The tool refused to create FINDINGS.md, so its content follows here.)

==========================================================================================================
FINDINGS (worktree /tmp/hunt2/C13, HEAD f93c01c, numpy 2.5.3, x86-64; oracle: dlisio)
==========================================================================================================

Finding 1 - float index cast to uint32 with a finite out-of-range value: metadata and rows are converted
            differently
----------------------------------------------------------------------------------------------------------
Input / calls:
    df = DLISFile(); lf = df.add_logical_file(); lf.add_origin('ORIGIN')
    c0 = lf.add_channel('IDX', data=np.array([1e10, 1., 2., 3., 4.]), cast_dtype=np.uint32)   # float64 source
    c1 = lf.add_channel('B',   data=np.arange(5.))
    lf.add_frame('FR', channels=(c0, c1), index_type='BOREHOLE-DEPTH')
    df.write(path, output_chunk_size=2**20)   # accepted; only a RuntimeWarning "invalid value encountered in cast"

Required: INDEX-MIN / INDEX-MAX are the min / max of the index channel over the rows actually written; SPACING is
present only if the written index is equally spaced. (The out-of-range value is supposed to be refused altogether
since commit d55ee77; if it is accepted, the metadata must at least describe what is written.)

Observed (dlisio):
    rows of IDX (ULONG) : [1410065408, 1, 2, 3, 4]      (1e10 mod 2**32)
    INDEX-MIN           : 0.0      (min of the rows is 1)
    INDEX-MAX           : 4.0      (max of the rows is 1410065408)
    SPACING             : 1.0      (rows are not equally spaced: differences -1410065407, 1, 1, 1)
    DIRECTION           : absent
The file advertises a perfectly regular index 0,1,2,3,4 which is not in it. Same with input_chunk_size=1, with other
values (-4e9: INDEX-MAX 2147483648 vs. written 294967296), with a float32 source, with from_idx/to_idx windows and
with HDF5 / structured-array sources (same code path). Any finite float in (-2**63, -2**31) or [2**32, 2**63) in a
column of >= 4 rows triggers it; only uint32 is affected (the other integer targets either raise or convert the same
way in both paths).

Cause: the two places convert the same data through different numpy code paths whose results for an out-of-range
float -> uint32 conversion differ (the conversion is undefined behaviour):
  * src/dliswriter/logical_record/eflr_types/frame.py:113-115 - index_data.astype(index_channel.cast_dtype) on the
    whole contiguous column: numpy's SIMD loop, yields 0 for 1e10 (and only warns; it is not run under
    np.errstate(invalid='raise')). INDEX-MIN/MAX/SPACING/DIRECTION are derived from this array.
  * src/dliswriter/utils/source_data_wrappers.py:183-184 - chunk[key] = self._data_source[loc][idx] into a field of a
    structured array (strided destination): numpy's scalar loop converts through int64 and truncates,
    1e10 -> 1410065408, and raises no floating-point 'invalid' flag, so the FloatingPointError guard which should
    refuse out-of-range floats (d55ee77) does not fire. These are the rows that get written.

Finding 2 (low severity) - SPACING of a float32 index is computed in float32 arithmetic
----------------------------------------------------------------------------------------------------------
Input: same set-up, index channel np.array([-3e38, 3e38], dtype=np.float32) (also a float64 source with
cast_dtype=np.float32), 2 rows.

Required: one difference, hence uniform, so SPACING equals that signed difference:
float(3e38f) - float(-3e38f) = 6.0000000109955115e+38, finite and representable in the FDOUBL the attribute is
written in.

Observed: SPACING = inf (-inf for the reversed column); rows written [-3e38, 3e38]; numpy reports "overflow
encountered in subtract". Milder, everyday form: np.array([0.1, 1.0], dtype=np.float32) gives
SPACING = 0.8999999761581421 while the difference of the two written values is 0.8999999985098839
(INDEX-MIN + SPACING = 0.99999997765 != INDEX-MAX = 1.0, all three being FDOUBL in the file). It happens whenever two
neighbouring float32 index values differ by more than a factor of 2 (otherwise the float32 subtraction is exact).

Cause: frame.py:160-164 promotes integer columns to int64 before np.diff ("differences ... must not wrap around") but
leaves float32 columns in float32, so the differences (and np.median of them, line 188) are rounded to / overflow in
float32 although the result is stored as a 64-bit float (NumericAttribute._float_parser -> FDOUBL).

Tried without finding a violation (all judged with dlisio against the decoded index column)
----------------------------------------------------------------------------------------------------------
 1. all 8 supported dtypes x {increasing, decreasing, constant, random, type extremes, nearly uniform, plateaus}
    x 1/2/3/10 rows x windows x input chunk sizes (1920 files);
 2. 200 000 direct random calls of the spacing/direction routine against an exact-arithmetic oracle;
 3. sequences of 4 writes of one specification mixing: other data via write(data=...), other windows, explicit
    re-assignment of index_min/index_max/spacing/direction, rejected writes in between (window outside the data,
    high-compat refusal), cast_dtype changed / removed, index_type changed or set after an index-less write;
 4. dict, structured array (also crosswise dataset names), HDF5 (str and pathlib) sources with big-/little-endian
    index, 2-D second channel, windows, chunk sizes 1..100, two writes each;
 5. explicit values in every form: kwargs, AttrSetup(value/units), dict, units-only AttrSetup, zeros (0 is kept),
    .value = after a write, numpy scalars;
 6. index_type='' / enum members / non-standard strings / AttrSetup(value=None);
 7. negative-stride, strided, Fortran, big-endian arrays; object, str, datetime64, bool, complex, float16, int64,
    uint64 sources with a declared cast; int64 -> int32/uint32 wrap (consistent);
 8. index of shape (n,1) (refused); index-less frame whose first channel is 2-D (INDEX-MAX = rows of the window);
 9. several frames per set, two frame sets, two logical files, two same-named channels (copy 0/1) as index of
    different frames, a channel shared by two frames, constant uint16 index;
10. high-compatibility mode (uniform accepted; single row / non-uniform refused; state clean afterwards);
11. max_record_length 20..16384 (frame EFLR split over many segments);
12. NaN / inf positions, -0.0, overflow of float64 differences, subnormals.
"""

import io
import logging
import os
import tempfile
import warnings
import contextlib

import numpy as np
import dlisio

from dliswriter import DLISFile

logging.disable(logging.CRITICAL)
dlisio.common.set_encodings(['latin1'])


def _write_and_read(index, cast_dtype=None, index_type='BOREHOLE-DEPTH', **write_kwargs):
    """One logical file, one frame (index channel 'IDX' + a second channel 'B'); returns what dlisio sees."""

    df = DLISFile()
    lf = df.add_logical_file()
    lf.add_origin('ORIGIN')
    c0 = lf.add_channel('IDX', data=index, cast_dtype=cast_dtype)
    c1 = lf.add_channel('B', data=np.arange(len(index), dtype=np.float64))
    lf.add_frame('FR', channels=(c0, c1), index_type=index_type)

    path = os.path.join(tempfile.mkdtemp(prefix='c13_'), 'out.dlis')
    with warnings.catch_warnings(), contextlib.redirect_stderr(io.StringIO()):
        warnings.simplefilter('ignore')
        df.write(path, output_chunk_size=2 ** 20, **write_kwargs)

    with dlisio.dlis.load(path) as (f, *_):
        fr = f.frames[0]
        rows = fr.curves()['IDX'].copy()
        return dict(index_min=fr.index_min, index_max=fr.index_max, spacing=fr.spacing, direction=fr.direction,
                    rows=rows)


def finding_1():
    """float index with a declared cast to uint32 and a finite value outside the uint32 range.

    The write is not refused; the rows are written with the value wrapped modulo 2**32 (1e10 -> 1410065408), but
    INDEX-MIN / INDEX-MAX / SPACING are derived from a different conversion of the same data (1e10 -> 0).
    """

    index = np.array([1e10, 1., 2., 3., 4.])                # float64, 1e10 does not fit uint32
    r = _write_and_read(index, cast_dtype=np.uint32)
    rows = r['rows'].astype(np.int64)                       # what was actually written: [1410065408 1 2 3 4]

    wrong_min = r['index_min'] != rows.min()                # file says 0, rows say 1
    wrong_max = r['index_max'] != rows.max()                # file says 4, rows say 1410065408
    uniform = len(set(np.diff(rows).tolist())) == 1
    wrong_spacing = r['spacing'] is not None and not uniform  # file says SPACING=1, rows are not equally spaced
    return bool(wrong_min or wrong_max or wrong_spacing)


def finding_2():
    """SPACING of a float32 index is computed in float32 arithmetic: it is not the difference of the written values.

    Two rows [-3e38, 3e38] (float32): SPACING is written as +inf (FDOUBL), the difference of the two written values
    is 6.0000000109955115e+38 (finite, representable in FDOUBL).  Milder form: [0.1, 1.0] (float32) gives
    SPACING 0.8999999761581421, the difference of the written values is 0.8999999985098839.
    """

    r = _write_and_read(np.array([-3e38, 3e38], dtype=np.float32))
    true_diff = float(r['rows'][1]) - float(r['rows'][0])   # exact in double precision
    overflow = r['spacing'] is not None and np.isinf(r['spacing']) and np.isfinite(true_diff)

    r = _write_and_read(np.array([0.1, 1.0], dtype=np.float32))
    true_diff = float(r['rows'][1]) - float(r['rows'][0])
    inexact = r['spacing'] is not None and r['spacing'] != true_diff

    return bool(overflow and inexact)


FINDINGS = [
    (finding_1, "float index cast to uint32 with a finite out-of-range value: write accepted, rows hold the wrapped "
                "value but INDEX-MIN/INDEX-MAX/SPACING describe a differently converted column"),
    (finding_2, "SPACING of a float32 index is computed in float32 arithmetic (inf for [-3e38, 3e38], rounded for "
                "[0.1, 1.0]) and so differs from the difference of the written values"),
]


if __name__ == '__main__':
    for n, (func, description) in enumerate(FINDINGS, start=1):
        try:
            violated = func()
        except Exception as exc:  # a reproduction must not take the others down
            violated = False
            description += f" [raised {exc!r}]"
        print(f"FINDING {n}: {description} -> {'VIOLATED' if violated else 'not reproduced'}")
