"""Reproductions of violations of property C14 (output depends only on the current specification).

Run:  cd /tmp/hunt2/C14 && PYTHONPATH=/tmp/hunt2/C14/src /venv/bin/python findings.py

Every finding has a `_spec_<n>(history)` function. With history=True it performs the call sequence with the
history (earlier write / earlier file / earlier call) in THIS process; with history=False it builds the final
specification alone. The reference bytes (history=False) are produced in a genuinely fresh interpreter
(`findings.py --ref`, one subprocess for all findings), and the decoded values are judged with dlisio.

(The tool refused to create FINDINGS.md; its content follows.)

=====================================================================================================================
FINDINGS - C14: output depends only on the current specification, not on process history
=====================================================================================================================
Worktree /tmp/hunt2/C14 (HEAD f93c01c). Findings 1 and 2 are the strong ones (plain public API; silent difference
in the file, or refusal of a valid specification). 3 needs a user-made FileHeaderItem shared by two files. 4 and 5
use an in-place list edit / the public `logical_files` list and are of lower weight.

---------------------------------------------------------------------------------------------------------------------
Finding 1 - a channel taken out of its frame keeps what an earlier write derived from the data   (_spec_1)

    df = DLISFile(); lf = df.add_logical_file()
    lf.add_origin('ORG', file_set_number=1, creation_time=datetime(2020, 1, 2, 3, 4, 5))
    idx = lf.add_channel('IDX', data=np.arange(5.))
    x   = lf.add_channel('X', data=np.arange(10, dtype=np.int16).reshape(5, 2))
    fr  = lf.add_frame('FR', channels=[idx, x])
    df.write(p1, output_chunk_size=2**20)        # write no. 1
    fr.channels.value = [idx]                    # X leaves the frame
    df.write(p2, output_chunk_size=2**20)        # write no. 2

Final specification = IDX, X (nothing specified for X but its name), frame FR = [IDX].
Required: write no. 2 byte-identical to a fresh process in which FR is created with channels=[idx].
Observed: 994 bytes vs 988 bytes; first difference at offset 543 (length of the CHANNEL record:
  `be ff 01 00 ba 80 03` vs `b8 ff 01 00 b4 80 03`). dlisio, channel X (dimension, element_limit, reprc):
  history ([2], [2], 13); fresh process ([], [], None). DIMENSION, ELEMENT-LIMIT and REPRESENTATION-CODE
  (13 = SNORM, from the int16 data of write no. 1) of an object for which the current specification says nothing
  are leftovers of the earlier write. Same when the data of write no. 1 were only passed as write(data=...).
Code: ChannelItem.set_dimension_and_repr_code_from_data (logical_record/eflr_types/channel.py, lines 118-135) is the
  only place where what is recorded in ChannelItem._derived_from_data is taken back, and it is only called through
  FrameItem.setup_from_data (frame.py lines 71-80) for channels that are *currently* in a frame. A channel in no
  frame (allowed outside high-compatibility mode: LogicalFile._check_channels_assigned_to_frames only warns) is never
  reset; ChannelItem._run_checks_and_set_defaults ignores _derived_from_data for dimension/element limit/cast dtype.

---------------------------------------------------------------------------------------------------------------------
Finding 2 - ELEMENT-LIMIT (DIMENSION) defaulted from DIMENSION (ELEMENT-LIMIT) at a write is kept

ChannelItem._run_checks_and_set_defaults (channel.py lines 197-209) copies `dimension` into an unset `element_limit`
(and the other way round) while the CHANNEL set is serialised. Unlike values derived from the data, these defaults
are not recorded in _derived_from_data, so they stay when the user changes the value they were copied from. Reachable
for channels that are in no frame at that write (for framed channels both are set from the data before).

a) stale value written (_spec_2):
    idx = lf.add_channel('IDX', data=np.arange(5.)); lf.add_frame('FR', channels=[idx])
    x = lf.add_channel('X', dimension=[5])       # in no frame; no element limit given
    df.write(p1, ...); x.dimension.value = [2]; df.write(p2, ...)
   Required: as a fresh process with add_channel('X', dimension=[2]): DIMENSION [2], ELEMENT-LIMIT [2].
   Observed: 992 bytes both, difference at offset 726: `25 12 02 00 25 12 05` vs `25 12 02 00 25 12 02`;
   dlisio: history dimension=[2], element_limit=[5]; fresh dimension=[2], element_limit=[2].
b) valid specification refused (_spec_2b): dimension=[2] first, x.dimension.value = [5] after write no. 1.
   History: RuntimeError "For channel 'X', dimension is [5] and element limit is [2]"; fresh (dimension=[5]): 992 bytes.
c) other direction + channel framed later (_spec_2c):
    x = lf.add_channel('X', data=np.arange(10.).reshape(5, 2), element_limit=[3])
    fr = lf.add_frame('FR', channels=[idx]); df.write(p1, ...)   # X not framed: DIMENSION := [3]
    fr.channels.value = [idx, x]; df.write(p2, ...)
   History: RuntimeError "Previously defined dimension of ChannelItem 'X': [3] does not match the dimension from
   data: [2]"; fresh process (frame [idx, x] from the start; element limit [3] >= dimension [2] is legal): 1078 bytes.
(Related to, but not the same as, the known "DIMENSION derived for Parameter / Computation / Calibration-Measurement
values at the first write is kept": this is the Channel's own default copy between DIMENSION and ELEMENT-LIMIT.)

---------------------------------------------------------------------------------------------------------------------
Finding 3 - a FileHeaderItem given to two DLISFile objects: the second file changes the first one's output (_spec_3)

    fh = FileHeaderItem('HDR', parent=FileHeaderSet())
    def make(origin_reference):
        df = DLISFile(); lf = df.add_logical_file(file_header=fh)
        lf.add_origin('ORG', file_set_number=1, creation_time=T0, origin_reference=origin_reference)
        idx = lf.add_channel('IDX', data=np.arange(5.)); lf.add_frame('FR', channels=[idx]); return df
    df_a = make(3)
    df_b = make(9); df_b.write(pb, output_chunk_size=2**20)      # another file, built later
    df_a.write(pa, output_chunk_size=2**20)

Required: pa identical to what a fresh process writes for df_a alone (the user touched nothing of df_a).
Observed: 962 bytes both, difference at offset 125 (OBNAME of the FILE-HEADER object): `70 09 00 01 30` vs
  `70 03 00 01 30`. dlisio fileheader.origin: 9 after the history, 3 fresh; 9 is the reference of no origin of file A.
  Same within one DLISFile when two logical files are given the same header item.
Code: LogicalFile.add_origin, file/file.py line 1590: `self.file_header_item.origin_reference = o.origin_reference`
  overwrites the origin reference of the user's header object whenever the first origin of any logical file using
  it is added; _check_references (lines 2125-2161) checks the items of own_sets only, not the header.

---------------------------------------------------------------------------------------------------------------------
Finding 4 - in-place edit of a list value that an earlier write derived is shown, but not written (_spec_4)

    x = lf.add_channel('X', data=np.arange(10.).reshape(5, 2)); lf.add_frame('FR', channels=[idx, x])
    df.write(p1, ...)                       # ELEMENT-LIMIT derived: [2]
    x.element_limit.value[0] = 10           # same idiom as frame.channels.value.append(ch), which does work
    assert x.element_limit.value == [10]    # the specification the user sees before writing
    df.write(p2, ...)

Required: bytes follow the current specification (element_limit == [10], legal for dimension [2]) = fresh-process
  output of add_channel('X', ..., element_limit=[10]).
Observed: offset 728 `25 12 02 00 25 12 02` vs `25 12 02 00 25 12 0a`; dlisio element_limit [2] vs [10]; after the
  write x.element_limit.value is [2] again.
Code: whether a value is "the user's" is decided by the hidden counter Attribute._assignments (attribute.py lines 63,
  100-101; channel.py lines 121-130), not by the value; Attribute.value hands out the internal list, so an in-place
  edit is not an assignment and is thrown away with the derived value. Same for `dimension`.

---------------------------------------------------------------------------------------------------------------------
Finding 5 - a logical file removed from DLISFile.logical_files leaves its sets in the DLISFile (_spec_5)

    df = DLISFile()
    lf0 = df.add_logical_file(); lf0.add_origin('ORG', file_set_number=1, creation_time=T0)
    df.logical_files.remove(lf0)                      # the user drops it again
    lf = df.add_logical_file(); lf.add_origin('ORG', file_set_number=1, creation_time=T0)   # <- raises

Required: as a fresh process building the one remaining logical file (970 bytes written).
Observed: RuntimeError "OriginSet None already holds objects of another logical file; please specify a different
  'set_name' for the objects of each logical file" - that other logical file is no part of the specification.
Code: sets live in DLISFile._eflr_sets (every add_*: self.physical_file._eflr_sets.get_or_make_set(...));
  EFLRSetsDict.try_add_set (file/eflr_sets_dict.py lines 55-59) refuses a non-empty set that is new to the logical
  file; nothing ever removes a set from DLISFile._eflr_sets.

---------------------------------------------------------------------------------------------------------------------
Tried without finding a violation (scripts in scratch/): fuzz1.py - 1500 random sequences of writes / attribute
assignments / frame membership changes / data changes / renames on channels and frames vs a fresh build of the final
explicit values (only mismatches: instances of findings 1 and 2); fuzz2.py, fuzz3.py - 900 random sequences of
accepted and rejected add_* calls, property look-ups and intermediate writes over two logical files and several set
names vs a replay of the accepted calls only; t5.py - a file with every object type written after six other such
files with the same names but other origins, copy counts, types, values, record lengths and a high-compatibility
attempt, compared by hash with a fresh interpreter; t6.py - a written file whose every name, origin reference,
attribute value/unit, cast dtype, header and SUL field is re-assigned to those of another specification vs that
specification built fresh; t9.py - repeated writes with different chunk sizes and a refused high-compat write.
Attack ideas covered: (1) struct memo: 0.0/-0.0, numpy vs python floats, 1/True/1.0, same value under different
codes; (2) OBNAME/OBJREF caches after renames / new origin references; (3) date-times in several zones; (4) record
type bytes of all set types in any order of first use; (5) segment-attribute cache; (6) copy numbers after rejected
calls; (7) position of set types / sets after rejected calls and look-ups; (8) index min/max/spacing/direction/units
after other data, row window, index channel, channel units, index type or explicit values assigned after a write;
(9) channel dimension/element limit/cast dtype after other width/dtype, explicit assignment, cast_dtype=None, channel
in two frames or moved between frames; (10) default LONG-NAME after renames; (11) write(data=...) not kept, HDF5 not
left open; (12) write(data=...) overriding stored data for one write only; (13) writes refused in check_objects /
frame set-up / serialisation, then repaired; (14) high-compat context restored after exceptions, nested; (15) refused
high-compat write then normal write; (16) different input_chunk_size / from_idx / to_idx / record lengths;
(17) logical file or objects added after a write; (18) origin defaults (WILDCAT, FILE-ID), header_id changed after
add_origin (refused consistently); (19) list/tuple/AttrSetup/dict forms copied, no aliasing; bytearray copied;
(20) enum members stored as plain str; (21) soft unit/string checks store nothing; (22) StorageUnitLabel shared by
two files; (23) np.errstate restored, np.random / datetime.now() end up as visible values; (24) copy.deepcopy of a
DLISFile (fails, no silent sharing); (25) progress-bar count vs records yielded; (26) items created before the first
origin; (27) NumericAttribute conversion looking at the current value's inferred code (always normalised);
(28) class-level mutable state never modified by the library.
"""

import contextlib
import json
import logging
import os
import subprocess
import sys
import tempfile
from datetime import datetime

sys.path.insert(0, os.path.join(os.path.dirname(os.path.abspath(__file__)), 'src'))
logging.disable(logging.CRITICAL)

import numpy as np  # noqa: E402
from dliswriter import DLISFile  # noqa: E402
from dliswriter.logical_record.eflr_types.file_header import FileHeaderItem, FileHeaderSet  # noqa: E402

T0 = datetime(2020, 1, 2, 3, 4, 5)


# ------------------------------------------------------------------------------------------------ helpers
def _write(df, **kwargs):
    """Write the DLISFile to a temporary file; return the bytes, or 'EXC:<type>:<message>' if the write is refused."""

    fd, path = tempfile.mkstemp(suffix='.dlis')
    os.close(fd)
    try:
        with _quiet():  # (progress bar)
            df.write(path, output_chunk_size=2 ** 20, **kwargs)
        with open(path, 'rb') as f:
            return f.read()
    except Exception as exc:
        return f'EXC:{type(exc).__name__}:{exc}'
    finally:
        os.remove(path)


@contextlib.contextmanager
def _quiet():
    """Send what is written to file descriptor 2 (the progress bar) to /dev/null."""

    sys.stderr.flush()
    saved, null = os.dup(2), os.open(os.devnull, os.O_WRONLY)
    os.dup2(null, 2)
    try:
        yield
    finally:
        sys.stderr.flush()
        os.dup2(saved, 2)
        os.close(saved)
        os.close(null)


def _base():
    df = DLISFile()
    lf = df.add_logical_file()
    lf.add_origin('ORG', file_set_number=1, creation_time=T0)
    return df, lf


def _decode_channel(bts, name):
    """Independent judge: (dimension, element_limit, representation code) of a channel, as read by dlisio."""

    import dlisio
    fd, path = tempfile.mkstemp(suffix='.dlis')
    os.close(fd)
    try:
        with open(path, 'wb') as f:
            f.write(bts)
        with dlisio.dlis.load(path) as (lf, *_):
            ch = lf.object('CHANNEL', name)
            return list(ch.dimension), list(ch.element_limit), ch.reprc
    finally:
        os.remove(path)


def _decode_header_origin(bts):
    """Independent judge: origin part of the OBNAME of the file header, as read by dlisio."""

    import dlisio
    fd, path = tempfile.mkstemp(suffix='.dlis')
    os.close(fd)
    try:
        with open(path, 'wb') as f:
            f.write(bts)
        with dlisio.dlis.load(path) as (lf, *_):
            return lf.fileheader.origin
    finally:
        os.remove(path)


# ------------------------------------------------------------------------------------------------ specifications
def _spec_1(history):
    """Final specification: channels IDX (with data) and X (no data, nothing specified); frame FR = [IDX]."""

    df, lf = _base()
    idx = lf.add_channel('IDX', data=np.arange(5.))
    x = lf.add_channel('X', data=np.arange(10, dtype=np.int16).reshape(5, 2))
    if history:
        fr = lf.add_frame('FR', channels=[idx, x])
        assert not isinstance(_write(df), str)
        fr.channels.value = [idx]       # X is taken out of the frame again
    else:
        lf.add_frame('FR', channels=[idx])
    return _write(df)


def _spec_2(history):
    """Final specification: channel X, in no frame, DIMENSION = [2], no ELEMENT-LIMIT given."""

    df, lf = _base()
    idx = lf.add_channel('IDX', data=np.arange(5.))
    lf.add_frame('FR', channels=[idx])
    if history:
        x = lf.add_channel('X', dimension=[5])
        assert not isinstance(_write(df), str)
        x.dimension.value = [2]
    else:
        lf.add_channel('X', dimension=[2])
    return _write(df)


def _spec_2b(history):
    """Same, the other way round: DIMENSION is enlarged after the first write ([2] -> [5])."""

    df, lf = _base()
    idx = lf.add_channel('IDX', data=np.arange(5.))
    lf.add_frame('FR', channels=[idx])
    if history:
        x = lf.add_channel('X', dimension=[2])
        assert not isinstance(_write(df), str)
        x.dimension.value = [5]
    else:
        lf.add_channel('X', dimension=[5])
    return _write(df)


def _spec_2c(history):
    """Channel X with ELEMENT-LIMIT = [3] only; written once while in no frame; then put in a frame with 2-wide data."""

    df, lf = _base()
    idx = lf.add_channel('IDX', data=np.arange(5.))
    x = lf.add_channel('X', data=np.arange(10.).reshape(5, 2), element_limit=[3])
    if history:
        fr = lf.add_frame('FR', channels=[idx])
        assert not isinstance(_write(df), str)
        fr.channels.value = [idx, x]
    else:
        lf.add_frame('FR', channels=[idx, x])
    return _write(df)


def _spec_3(history):
    """DLIS file A: origin reference 3, file header given as a FileHeaderItem. History: another DLISFile B
    (origin reference 9) that is given the same FileHeaderItem is built (and written) afterwards."""

    def make(fh, origin_reference):
        df = DLISFile()
        lf = df.add_logical_file(file_header=fh)
        lf.add_origin('ORG', file_set_number=1, creation_time=T0, origin_reference=origin_reference)
        idx = lf.add_channel('IDX', data=np.arange(5.))
        lf.add_frame('FR', channels=[idx])
        return df

    fh = FileHeaderItem('HDR', parent=FileHeaderSet())
    df_a = make(fh, 3)
    if history:
        df_b = make(fh, 9)
        assert not isinstance(_write(df_b), str)
    return _write(df_a)


def _spec_4(history):
    """Final (visible) specification: channel X (2 samples per row) with ELEMENT-LIMIT = [10]."""

    df, lf = _base()
    idx = lf.add_channel('IDX', data=np.arange(5.))
    if history:
        x = lf.add_channel('X', data=np.arange(10.).reshape(5, 2))
        lf.add_frame('FR', channels=[idx, x])
        assert not isinstance(_write(df), str)
        x.element_limit.value[0] = 10           # in-place edit of the list, like frame.channels.value.append(...)
        assert x.element_limit.value == [10]    # that is what the specification shows before the write
    else:
        x = lf.add_channel('X', data=np.arange(10.).reshape(5, 2), element_limit=[10])
        lf.add_frame('FR', channels=[idx, x])
    return _write(df)


def _spec_5(history):
    """One logical file with default set names. History: another logical file was added to the DLISFile
    and taken out of DLISFile.logical_files again before."""

    df = DLISFile()
    if history:
        lf0 = df.add_logical_file()
        lf0.add_origin('ORG', file_set_number=1, creation_time=T0)
        df.logical_files.remove(lf0)
    try:
        lf = df.add_logical_file()
        lf.add_origin('ORG', file_set_number=1, creation_time=T0)
        idx = lf.add_channel('IDX', data=np.arange(5.))
        lf.add_frame('FR', channels=[idx])
    except Exception as exc:
        return f'EXC:{type(exc).__name__}:{exc}'
    return _write(df)


SPECS = {'1': _spec_1, '2': _spec_2, '2b': _spec_2b, '2c': _spec_2c, '3': _spec_3, '4': _spec_4, '5': _spec_5}

_REF = None


def _reference(key):
    """Output of the final specification alone, produced in a fresh interpreter."""

    global _REF
    if _REF is None:
        env = dict(os.environ, PYTHONPATH=os.path.join(os.path.dirname(os.path.abspath(__file__)), 'src'))
        out = subprocess.run([sys.executable, os.path.abspath(__file__), '--ref'], env=env, check=True,
                             stdout=subprocess.PIPE, stderr=subprocess.DEVNULL).stdout
        _REF = {k: (v[4:] if v.startswith('STR:') else bytes.fromhex(v)) for k, v in json.loads(out).items()}
    return _REF[key]


# ------------------------------------------------------------------------------------------------ findings
def finding_1():
    """A channel taken out of its frame after a write keeps DIMENSION, ELEMENT-LIMIT and REPRESENTATION-CODE
    that the earlier write derived from the data."""

    hist, fresh = _spec_1(True), _reference('1')
    if isinstance(hist, str) or isinstance(fresh, str) or hist == fresh:
        return False
    dec_h, dec_f = _decode_channel(hist, 'X'), _decode_channel(fresh, 'X')
    # observed: ([2], [2], 13) after the history, ([], [], None) in a fresh process
    return dec_h != dec_f and dec_h == ([2], [2], 13) and dec_f == ([], [], None)


def finding_2():
    """The ELEMENT-LIMIT (or DIMENSION) which a write copies from DIMENSION (ELEMENT-LIMIT) of a channel
    is kept when the user changes the latter: stale value in the file, or a valid specification is refused."""

    hist, fresh = _spec_2(True), _reference('2')
    if isinstance(hist, str) or isinstance(fresh, str) or hist == fresh:
        return False
    dec_h, dec_f = _decode_channel(hist, 'X'), _decode_channel(fresh, 'X')
    stale = dec_h[:2] == ([2], [5]) and dec_f[:2] == ([2], [2])

    hist_b, fresh_b = _spec_2b(True), _reference('2b')
    refused_b = isinstance(hist_b, str) and hist_b.startswith('EXC:RuntimeError') and isinstance(fresh_b, bytes)

    hist_c, fresh_c = _spec_2c(True), _reference('2c')
    refused_c = isinstance(hist_c, str) and hist_c.startswith('EXC:RuntimeError') and isinstance(fresh_c, bytes)

    return stale and refused_b and refused_c


def finding_3():
    """A FileHeaderItem given to two DLISFile objects: building the second file changes the origin reference
    in the header written by the first one."""

    hist, fresh = _spec_3(True), _reference('3')
    if isinstance(hist, str) or isinstance(fresh, str) or hist == fresh:
        return False
    return _decode_header_origin(hist) == 9 and _decode_header_origin(fresh) == 3


def finding_4():
    """An element limit edited in place (element_limit.value[0] = 10) after a write is shown by the
    specification, but silently replaced by a re-derived value at the next write."""

    hist, fresh = _spec_4(True), _reference('4')
    if isinstance(hist, str) or isinstance(fresh, str) or hist == fresh:
        return False
    return _decode_channel(hist, 'X')[1] == [2] and _decode_channel(fresh, 'X')[1] == [10]


def finding_5():
    """A logical file removed from DLISFile.logical_files keeps its sets in the DLISFile: the remaining
    specification is refused ('already holds objects of another logical file')."""

    hist, fresh = _spec_5(True), _reference('5')
    return isinstance(hist, str) and 'another logical file' in hist and isinstance(fresh, bytes)


FINDINGS = [
    (finding_1, "a channel taken out of its frame after a write keeps the DIMENSION / ELEMENT-LIMIT / "
                "REPRESENTATION-CODE derived from the data by the earlier write"),
    (finding_2, "a channel's ELEMENT-LIMIT (DIMENSION) defaulted from DIMENSION (ELEMENT-LIMIT) at a write "
                "is kept when the source value is changed (stale value written, or a valid file refused)"),
    (finding_3, "a FileHeaderItem used for two DLISFile objects: adding the origin of the second file "
                "changes the origin reference of the header written by the first file"),
    (finding_4, "an in-place edit of a list value derived by an earlier write (element_limit.value[0] = 10) "
                "is visible in the specification but discarded by the next write"),
    (finding_5, "a logical file taken out of DLISFile.logical_files leaves its sets behind: the remaining "
                "specification is refused"),
]


if __name__ == '__main__':
    if '--ref' in sys.argv:
        res = {}
        for k, spec in SPECS.items():
            r = spec(False)
            res[k] = ('STR:' + r) if isinstance(r, str) else r.hex()
        print(json.dumps(res))
    else:
        for i, (func, text) in enumerate(FINDINGS, start=1):
            try:
                ok = func()
            except Exception as e:  # a reproduction must not hide an unexpected failure as a 'violation'
                ok = False
                text += f" [error in reproduction: {type(e).__name__}: {e}]"
            print(f"FINDING {i}: {text} -> {'VIOLATED' if ok else 'not reproduced'}")
