r"""C15 - Writability never hinges on byte-size coincidences: adversarial search

(FINDINGS.md could not be created by the tool; its content is kept here.)

Worktree: /tmp/hunt2/C15 (HEAD f93c01c), sources imported from /tmp/hunt2/C15/src.

RESULT: NO FINDINGS
===================

After a thorough search no input, configuration or call sequence was found for which the library violates C15.
Every output was judged independently of the library: (a) an own byte-level parser (SUL, visible-record headers,
segment headers, flags, pad count, re-assembly of record bodies; asserting VR length <= declared maximum, >= 20, even;
segment length >= 16, even; predecessor/successor flags consistent; re-assembled bodies byte-identical to the expected
ones) and (b) dlisio (objects, names, units, curves).

Code that decides the property (all read in full):
- src/dliswriter/logical_record/core/logical_record/logical_record_bytes.py  make_segment / make_segments
  (pads bodies < 12 bytes with flagged pad bytes, makes odd bodies even, moves bytes to the next segment so that no
  short remainder is left; n_bytes after shortening is always >= 1; the padded size never exceeds capacity + 4 because
  the capacity is even);
- src/dliswriter/file/writer.py  _check_visible_record_length, _make_visible_record, BufferedOutput.add_bytes,
  _check_output_chunk_size;
- src/dliswriter/utils/internal/struct_writer.py  (write_struct_uvari 1/2/4-byte forms, IDENT limit 255, ASCII);
- src/dliswriter/logical_record/iflr_types/*.py, core/eflr/eflr_set.py, eflr_item.py, core/attribute/*.py,
  misc/storage_unit_label.py, eflr_types/file_header.py, origin.py, channel.py, frame.py,
  utils/source_data_wrappers.py, file/multi_frame_data.py, file/file.py (write path, record counting, checks).

What was tried (all passed)
---------------------------
 1. Exhaustive brute force of LogicalRecordBytes.make_segments for every capacity 12..118 (even) x every body length
    1..399: segment sizes, flags, pad counts, re-assembly.
 2. Full files at EVERY even maximum record length 20..16384 (8183 writes), random row width 1..39 bytes, random
    channel-name length 1..255, a 2-character and a 0..40000-byte no-format payload, output_chunk_size == max record
    length; own parser on all, dlisio on every 100th.
 3. Row widths 1, 2, 3, 5, 11, 12, 13, 100, 1000, 16383, 16384, 70000 bytes x record lengths 20..138, 254/256/258,
    8192, 16382, 16384 (dlisio curve comparison).
 4. Frame of one 1-byte channel (uint8) with and without index_type, 1 row, several rows, in high-compatibility mode.
 5. No-format payloads "", b"", "ab", large; body == OBNAME + payload verified byte by byte.
 6. ASCII attribute values of length 1, 127, 128, 129, 16383, 16384, 16385, 70000 (UVARI length-prefix thresholds) at
    record lengths 8192 and 20.
 7. Numbers of rows 1, 127, 128, 16383, 16384, 16385, 40000 (UVARI frame-number thresholds).
 8. Numbers of channels per frame 1, 127, 128, 129 (UVARI attribute-count threshold).
 9. Origin references 0, 127, 128, 16383, 16384, 2**30-1 (OBNAME of varying length in every FDATA record).
10. Names of length 1, 2, 127, 128, 254, 255 for all 18 add_* object types + channel + frame, set names and units of
    the same lengths, at record lengths 20, 22, 8192.
11. Frame / channel names of 1, 12, 13, 255 characters at record lengths 20, 22, 36: FDATA OBNAME spanning segments.
12. Data of shape (n, 1) (dimension [1]) for uint8 / float64.
13. HDF5 source, widths 1, 2, 5000, input_chunk_size None, 1, 3, 100, record lengths 20 and 8192.
14. Three logical files in one DLIS file at record lengths 20, 22, 30, 8192.
15. The complete example examples/create_synth_dlis.py (all object types; two inconsistent axis arguments of the
    example removed) written at 16 record lengths from 20 to 16384: 324 record bodies byte-identical for all lengths.
16. One DLISFile written repeatedly while storage_unit_label.max_record_length is changed (8192 -> 20 -> 16384).
17. Rejected writes (odd length 8191, length 18, output chunk smaller than the record length, numpy.int64 length)
    followed by accepted ones on the same object.
18. output_chunk_size equal to the record length, record length + 1, 3x+7, float form; buffer roll-over at the boundary.
19. Random fuzz (1500 cases) of DLISWriter.write_logical_records with record bodies of 1..200000 bytes, sizes
    clustered around multiples of the capacity +-13, random EFLR/IFLR flags and types, random record length.
20. Bodies exactly capacity, capacity +-1 ... +-13, k x capacity (remainder 1..11 left for the last segment).
21. Empty-bodied record (set left empty by a rejected add_* call): nothing written, count consistent, file valid.
22. SUL field widths: record lengths of 2..5 digits, sequence number 9999, 60-character set identifier.
23. File header: 65-character id, 10-digit sequence number.
24. Random FILE-SET-NUMBER (1-, 2- or 4-byte UVARI) making the ORIGIN record size vary between runs.
25. int sub-classes / bool / float / numpy scalars as maximum record length (refused by the writer's check; see below).
26. lru_cache'd struct writer with very long strings; LRMeta.lr_type_struct for type code 0 (b'\x00' is truthy).
27. Falsy-value traps in the write path (size or len(bts), if count, if self._units, if self.set_name).
28. Record count announced to the progress bar vs records actually yielded - equal in all configurations tried.

Observations that are NOT violations of C15 (not counted)
---------------------------------------------------------
- DLISFile(max_record_length=numpy.int64(8192)) is accepted by the constructor and refused by write() with
  "TypeError: Visible record length must be an integer" (DLISWriter._check_visible_record_length, isinstance(vrl, int)).
  The value does not pass "the writer's own validity check", so the statement does not cover it.
- A failing _check_output_chunk_size is raised after the SUL has been written: an 80-byte file is left behind.
- examples/create_synth_dlis.py as shipped cannot be written (axis AXIS1 with 2 coordinates given to PARAM1 / CM1 of
  dimension [1]); unrelated to sizes.
- Limits of the format itself are refused at write time only (IDENT > 255 characters, origin reference >= 2**30,
  SUL sequence number > 9999, 61-character storage set identifier); those are not valid specifications.
"""

if __name__ == '__main__':
    print("NO FINDINGS")
