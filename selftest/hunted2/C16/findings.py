"""Adversarial findings for property C16 (no-format payloads come back exactly, in order, under their object).

(FINDINGS.md content is kept here, as a docstring.)

Run:  cd /tmp/hunt2/C16 && PYTHONPATH=/tmp/hunt2/C16/src /venv/bin/python findings.py

Judge: an own parser of the output bytes (visible records -> segments -> logical records -> NOFMT IFLR = OBNAME +
payload) and dlisio (f.noformats, Noformat.data()).

Overall result
--------------
The byte path (NoFormatFrameData._make_body_bytes -> LogicalRecordBytes.make_segments -> visible records ->
BufferedOutput) held for everything tried; two violations were found, both on the "objects modified after creation"
side.

FINDING 1 - a NO-FORMAT object created after a same-named one has been renamed AWAY gets the copy number of an
            existing object; the data records of the two objects are indistinguishable
    (neighbour of the known "renaming an object ONTO a name already in use"; here nothing is renamed onto a used name:
    the colliding identity is made by a plain add_no_format call)
    Calls:
        a0 = lf.add_no_format('A')          # (origin 0, copy 0, 'A')
        a1 = lf.add_no_format('A')          # (0, 1, 'A')
        a0.name = 'X'                       # 'X' is a free name -> (0, 0, 'X'); perfectly unambiguous so far
        a2 = lf.add_no_format('A')          # gets copy number 1 again -> (0, 1, 'A')  == identity of a1
        lf.add_no_format_frame_data(a1, b'one'); lf.add_no_format_frame_data(a2, b'two')
        df.write(...)                       # accepted without complaint
    Required: each record comes back under ITS object (the reference after which the payload follows designates the
        object it was added for).
    Observed: the NO-FORMAT set holds objects (0,0,'X'), (0,1,'A'), (0,1,'A'); both IFLRs carry the reference
        (0,1,'A'); dlisio: noformats == [X.0.0, A.0.1, A.0.1] and BOTH 'A' objects return data() == b'onetwo'.
        The payload b'two' is attributed to a1 (and b'one' to a2).
    Where: EFLRItem._compute_copy_number (src/dliswriter/logical_record/core/eflr/eflr_item.py): the copy number is
        "the number of items currently carrying this name", not "the first copy number not in use for this name";
        nothing at write time (LogicalFile.check_objects) checks that identities within a set are unique.

FINDING 2 - a bytearray put into the documented `data` attribute of a no-format record is kept by reference
    (the fix 1e474d7 "no-format data given as a bytearray are kept as they were when they were added" only covers the
    constructor argument; docs/developerguide/lrtypes/iflrs/nfframedata.rst says the data "as bytes or str - should be
    added in the ``data`` attribute")
    Calls:
        rec = lf.add_no_format_frame_data(nf, b'')
        buf = bytearray(b'abc'); rec.data = buf      # payload supplied: b'abc'
        buf[:] = b'xyz'                              # caller re-uses the buffer for the next packet
        df.write(...)
    Required: the record carries exactly the bytes the user supplied (b'abc').
    Observed: the record carries b'xyz' (own parser and dlisio data()).
    Where: NoFormatFrameData (src/dliswriter/logical_record/iflr_types/no_format_frame_data.py): the copy
        `bytes(data) if isinstance(data, bytearray)` is made in __init__ only; `data` is a plain attribute and
        _make_body_bytes uses whatever bytearray is found there at write time.

Tried without finding a violation (all checked with the own parser + dlisio)
----------------------------------------------------------------------------
 1. every body size 0..3*VRL+30 for every even VRL 20..78 and 254..272 (segment shortening / 12-byte minimum / padding)
 2. VRL 20 (segment capacity 12) with names up to 255 characters (OBNAME split over many segments)
 3. empty name '' + empty payload (3-byte body, 9 pad bytes); payloads b'\x01', b'\x08'*8, b'\t'*9 that look like padding
 4. payloads of 5 MB at VRL 16384, 200 kB at VRL 20 (17 000 visible records), output_chunk_size == VRL, VRL+1, float
 5. output chunk boundary falling exactly on a visible record end
 6. str payloads over all 128 ASCII code points incl. NUL, CR/LF; numpy.str_ / numpy.bytes_ payloads
 7. non-ASCII str payload / name: refused (UnicodeEncodeError) - nothing wrong is written
 8. bytearray passed to add_no_format_frame_data and changed afterwards: kept (fixed earlier)
 9. interleaved records of several NO-FORMAT objects, several sets (named / unnamed / ''), several logical files
10. origin references 0, 1, 127, 128, 16383, 16384, 2**30-1 (UVARI widths), True; 2**30, -1: refused
11. two origins, objects assigned to the second origin, origin_reference changed after records were added
12. object renamed after records were added (cached OBNAME is dropped), several writes with changes in between
13. 256 same-named objects (copy number 255 ok); the 257th: write refused (struct.error) rather than wrapped
14. add_no_format before add_origin (origin reference filled in later), also with an explicit origin_reference
15. rejected add_no_format calls (name=5, description=[..], origin_reference='x', unknown kwarg) followed by good ones
16. consumer_name / description as AttrSetup, dict, '', int
17. high-compatibility mode (lower-case text payloads are left alone)
18. pathlib.Path output name; writing twice to the same path; two DLISFile objects in one process
19. no-format object of another logical file / another DLISFile / hand-made set: refused by _check_references
20. data=None / int: accepted by add_no_format_frame_data, write refused (AttributeError) - no wrong bytes
21. max_record_length 18, odd, > 16384, float, numpy int, bool: refused
22. the same LogicalFile appended twice to df.logical_files: two self-consistent logical files
23. records added between two writes (second file holds all, in order)
24. record's no_format_object re-pointed to another object of the file before the write
25. NO-FORMAT set larger than a visible record (many objects / 255-character names) followed by the data records
26. write refused half-way (non-ASCII payload), payload corrected, written again: complete and correct
"""

import logging
import os
import struct
import tempfile

import numpy as np

logging.disable(logging.CRITICAL)

from dliswriter import DLISFile  # noqa: E402
import dlisio  # noqa: E402


# ---------------------------------------------------------------- independent reader
def _uvari(b, p):
    x = b[p]
    if x < 0x80:
        return x, p + 1
    if x < 0xC0:
        return struct.unpack('>H', b[p:p + 2])[0] & 0x3FFF, p + 2
    return struct.unpack('>I', b[p:p + 4])[0] & 0x3FFFFFFF, p + 4


def _logical_records(fn):
    b = open(fn, 'rb').read()
    p, recs, cur = 80, [], None
    while p < len(b):
        vl, fmt = struct.unpack('>HH', b[p:p + 4])
        assert fmt == 0xFF01
        q, end = p + 4, p + vl
        while q < end:
            sl, attr, typ = struct.unpack('>HBB', b[q:q + 4])
            body = b[q + 4:q + sl]
            if attr & 0x04:
                body = body[:-2]
            if attr & 0x02:
                body = body[:-2]
            if attr & 0x01:
                body = body[:-body[-1]]
            if not attr & 0x40:
                cur = [bool(attr & 0x80), typ, bytearray()]
            cur[2] += body
            if not attr & 0x20:
                recs.append((cur[0], cur[1], bytes(cur[2])))
                cur = None
            q += sl
        p = end
    return recs


def read_no_format_records(fn):
    """[((origin, copy, name), payload), ...] in file order."""

    out = []
    for is_eflr, typ, body in _logical_records(fn):
        if not is_eflr and typ == 1:
            o, p = _uvari(body, 0)
            c, n = body[p], body[p + 1]
            name = body[p + 2:p + 2 + n].decode('latin1')
            out.append(((o, c, name), body[p + 2 + n:]))
    return out


def dlisio_no_format(fn):
    with dlisio.dlis.load(fn) as (f, *_):
        return [((n.origin, n.copynumber, n.name), n.data()) for n in f.noformats]


def _new_file():
    df = DLISFile()
    lf = df.add_logical_file()
    lf.add_origin('ORIGIN')
    ch = lf.add_channel('CH', data=np.arange(3, dtype=np.float64))
    lf.add_frame('FR', channels=(ch,))
    return df, lf


def _write(df):
    fd, fn = tempfile.mkstemp(suffix='.dlis')
    os.close(fd)
    df.write(fn, output_chunk_size=2 ** 20)
    return fn


# ---------------------------------------------------------------- findings
def finding_1():
    df, lf = _new_file()
    a0 = lf.add_no_format('A')
    a1 = lf.add_no_format('A')
    a0.name = 'X'                      # a free name
    a2 = lf.add_no_format('A')         # plain creation; gets the identity of a1
    lf.add_no_format_frame_data(a1, b'one')
    lf.add_no_format_frame_data(a2, b'two')
    fn = _write(df)
    try:
        recs = read_no_format_records(fn)
        objs = dlisio_no_format(fn)
    finally:
        os.remove(fn)
    same_reference = recs[0][0] == recs[1][0] and (recs[0][1], recs[1][1]) == (b'one', b'two')
    a_objects = [d for k, d in objs if k[2] == 'A']
    mixed = len(a_objects) == 2 and all(d == b'onetwo' for d in a_objects)
    return a1 is not a2 and same_reference and mixed


def finding_2():
    df, lf = _new_file()
    nf = lf.add_no_format('N')
    rec = lf.add_no_format_frame_data(nf, b'')
    buf = bytearray(b'abc')
    rec.data = buf                     # documented place for the data
    supplied = bytes(buf)
    buf[:] = b'xyz'                    # buffer re-used by the caller
    fn = _write(df)
    try:
        recs = read_no_format_records(fn)
        objs = dlisio_no_format(fn)
    finally:
        os.remove(fn)
    return recs[0][1] != supplied and recs[0][1] == b'xyz' and objs[0][1] == b'xyz'


FINDINGS = [
    (finding_1, "a NO-FORMAT object created after a same-named one was renamed away gets the identity of an existing "
                "object, so the records of two objects come back under one reference (dlisio gives both the "
                "concatenation)"),
    (finding_2, "a bytearray assigned to the documented 'data' attribute of a no-format record is kept by reference; "
                "the file holds the buffer's later content, not the bytes supplied"),
]


if __name__ == '__main__':
    import contextlib
    import io

    for i, (func, text) in enumerate(FINDINGS, 1):
        try:
            with contextlib.redirect_stderr(io.StringIO()), contextlib.redirect_stdout(io.StringIO()):
                violated = func()
        except Exception as exc:  # noqa
            violated = False
            text += f" [{type(exc).__name__}: {exc}]"
        print(f"FINDING {i}: {text} -> {'VIOLATED' if violated else 'not reproduced'}")
