"""Adversarial findings for property C17 (high-compatibility mode enforces its restrictions and never leaks).

Run:  cd /tmp/hunt2/C17 && PYTHONPATH=/tmp/hunt2/C17/src /venv/bin/python findings.py

(FINDINGS.md could not be created by the tool in use; its content is this docstring.)

Worktree HEAD f93c01c. Judge: dlisio reading the written file (storage label, file header, objects' attributes).

ROOT CAUSE OF FINDINGS 1-3. Two kinds of check exist.
* Write-time checks (raise_or_warn in file.py:_check_channels_assigned_to_frames, file.py:_check_data,
  frame.py:_setup_frame_params_from_data) look at the mode when DLISFile.write runs.
* Assignment-time checks (value_checkers.validate_string, validator_enum.ValidatorEnum.make_converter, the file-set
  number in origin.py:OriginItem.__init__) look at the mode only at the moment a value is assigned.
  DLISFile.write / LogicalFile.check_objects never look at names, enumerated values or file-set numbers again, and
  DLISFile.__init__(storage_unit_label=...) / add_logical_file(file_header=...) take ready-made objects as they are.
So a write made INSIDE the context vouches for only half of the restrictions; whatever was assigned while the context
was not active (before it, or between two `with` blocks - the property quantifies over "sequences of entering/leaving
the context interleaved with building and writing files") goes into the file with neither an error nor a warning.

FINDING 1 - forbidden names in a file built and written inside the context.
  sul = StorageUnitLabel('my storage set'); fh = FileHeaderItem('my header', parent=FileHeaderSet())   # outside
  with high_compatibility_mode():
      df = DLISFile(storage_unit_label=sul); lf = df.add_logical_file(file_header=fh)   # no check
      ... origin, channels DEPTH / GAMMA, frame MAIN ...; df.write(p1)                   # succeeds
  ch.name = 'gamma ray'                                                                  # outside: warning only
  with high_compatibility_mode(): df.write(p2)                                           # succeeds
  Required: only names matching [A-Z0-9_-]+ (objects, set identifier, header id) or an error.
  Observed (dlisio on p2): storage set id 'my storage set', header ID 'my header', channel 'gamma ray'; no exception.
  Control: each of the three assignments raises ValueError when made inside the context.
  Code: validate_string is only called from constructors / __setattr__ of StorageUnitLabel, FileHeaderItem, EFLRItem;
  file.py:_set_up_sul_or_fh (43-57), LogicalFile.__init__ (file_header branch), LogicalFile.check_objects (2116).

FINDING 2 - non-standard enumerated values written inside the context.
  Build a compliant file inside the context; outside assign ch.units.value='furlong', fr.index_type.value='DEPTH',
  eq._type.value='Gizmo', eq.location.value='Moon', par.values.units='furlong' (warnings only); write inside.
  Required: units, index type, equipment type and location within the standard's sets, or an error.
  Observed: write succeeds; dlisio reads exactly these five values. Control: each assignment raises inside the context.
  Inconsistency: had the units of the INDEX channel been changed, the write inside the context would raise, because
  frame.py:_setup_frame_params_from_data copies them through the checked setter at write time.
  Code: validator_enum.py:43 is evaluated only in the attribute setters; nothing at write time.

FINDING 3 - random 30-bit file-set number in a file completed and written inside the context.
  lf.add_origin('ORIGIN') outside; channel, frame and df.write inside the context (np.random.seed(0)).
  Required: sequential small file-set number (1) or an error. Observed: file_set_nr == 209652397, no error
  (no explicit file_set_number was given, so the known exemption does not apply); it cannot be repaired either:
  origin.file_set_number.value = 1 raises "File set number should not be reassigned".
  Code: origin.py:66-86 - n_items vs np.random.randint is chosen once, in OriginItem.__init__.

FINDING 4 - the equipment-type set enforced in high-compatibility mode is not the standard's (independent of 1-3).
  Inside the context: add_equipment('EQ1', eq_type='Panel') -> ValueError "not one of the allowed equipment types";
  add_equipment('EQ1', eq_type='Pane') is accepted and written (dlisio: EQUIPMENT EQ1 TYPE == ['Pane']).
  RP66 v1 (ch. 5, EQUIPMENT, TYPE: "... Packer, Pad, Panel, Positioning, Printer ...") has Panel and no Pane.
  Outside the mode the warning is likewise attached to the standard value and not to the non-standard one.
  Code: utils/enums.py:182  PANE = "Pane"  (typo for Panel), used by equipment.py:31.

TRIED WITHOUT A VIOLATION: nested contexts; exception / SystemExit / StopIteration inside; decorator form (normal,
raising, inside another context; it drops the return value - not in the statement); ContextDecorator form; ExitStack;
re-used context-manager object; failed write inside then write outside; names with space / lowercase / newline /
empty / non-ASCII / full-width chars / numpy.str_; renaming item, SUL id, header id inside (refused before taking
effect); fh_identifier; units as str / dict / AttrSetup / numpy.str_ / enum / '' / 'm '; units of Parameter and Axis
at creation and later; index_type / eq_type / location in these forms and wrong case; signed integers via channel
data, dict / structured array / HDF5 (big-endian) at write, 2-D channels, signed cast_dtype from floats, frame
without index, cast dtype left from a previous write; channel in no / two frames, twice in a frame, removed from a
frame, two same-named channels in a frame; non-uniform / single-row / NaN / zig-zag unsigned / descending uint8
index, index no longer uniform after its cast, row windows; file-set numbers 1, 2, ... per origin set and after a
rejected add_origin. Borderline, not counted: a constant index passes with SPACING 0 and [-inf, 0, inf] with SPACING
inf (formally equal differences); a single-row indexed frame is refused.
"""

import logging
import os
import tempfile

import numpy as np
import dlisio

from dliswriter import DLISFile, StorageUnitLabel, high_compatibility_mode
from dliswriter.logical_record import eflr_types
from dliswriter.configuration import global_config

logging.getLogger('dliswriter').setLevel(logging.CRITICAL)   # keep the output clean
# (the writer's progress bar goes to stderr; the FINDING lines go to stdout)
dlisio.common.set_encodings(['latin1'])

HC_PATTERN = __import__('re').compile(r'[A-Z0-9_-]+')


def _tmp():
    fd, p = tempfile.mkstemp(suffix='.dlis')
    os.close(fd)
    return p


def _write(df):
    p = _tmp()
    df.write(p, output_chunk_size=2 ** 20)
    return p


def _raises_in_hc(fn):
    """True if fn() raises inside the high-compatibility context (control experiments)."""
    try:
        with high_compatibility_mode():
            fn()
    except (ValueError, RuntimeError):
        return True
    return False


def finding_1():
    """Names: SUL / file header made before the context, a channel renamed between two contexts;
    the file is built and written inside the context -> no error, forbidden names in the file."""

    # control: the same names given inside the context are refused
    assert _raises_in_hc(lambda: StorageUnitLabel('my storage set'))
    assert _raises_in_hc(lambda: eflr_types.FileHeaderItem('my header', parent=eflr_types.FileHeaderSet()))

    sul = StorageUnitLabel('my storage set')                                          # outside: warning only
    fh = eflr_types.FileHeaderItem('my header', parent=eflr_types.FileHeaderSet())    # outside: warning only

    with high_compatibility_mode():
        df = DLISFile(storage_unit_label=sul)            # accepted without any check
        lf = df.add_logical_file(file_header=fh)         # accepted without any check
        lf.add_origin('ORIGIN')
        idx = lf.add_channel('DEPTH', data=np.arange(5.), units='m')
        ch = lf.add_channel('GAMMA', data=np.arange(5, dtype=np.float32))
        lf.add_frame('MAIN', channels=(idx, ch), index_type='BOREHOLE-DEPTH')
        _write(df)                                       # fine, everything is still compliant but SUL / header

    ch.name = 'gamma ray'                                # outside: warning only

    with high_compatibility_mode():
        path = _write(df)                                # written INSIDE the context: no error

    assert global_config.high_compat_mode is False
    with dlisio.dlis.load(path) as (f, *_):
        sul_id = f.storage_label()['id'].strip()
        header_id = f.fileheader.id.strip()
        channel_names = [c.name for c in f.channels]
    os.remove(path)

    bad = [s for s in [sul_id, header_id, *channel_names] if not HC_PATTERN.fullmatch(s)]
    return sorted(bad) == sorted(['my storage set', 'my header', 'gamma ray'])


def finding_2():
    """Enumerated attributes: units, index type, equipment type and location assigned between two contexts;
    written inside the context -> no error, non-standard values in the file."""

    with high_compatibility_mode():
        df = DLISFile()
        lf = df.add_logical_file()
        lf.add_origin('ORIGIN')
        idx = lf.add_channel('DEPTH', data=np.arange(5.), units='m')
        ch = lf.add_channel('GAMMA', data=np.arange(5, dtype=np.float32), units='gAPI')
        fr = lf.add_frame('MAIN', channels=(idx, ch), index_type='BOREHOLE-DEPTH')
        eq = lf.add_equipment('EQ1', eq_type='Tool', location='Well')
        par = lf.add_parameter('PAR1', values={'value': [1.5], 'units': 'm'})

        # control: inside the context each of these assignments is refused
        for assign in (lambda: setattr(ch.units, 'value', 'furlong'),
                       lambda: setattr(fr.index_type, 'value', 'DEPTH'),
                       lambda: setattr(eq._type, 'value', 'Gizmo'),
                       lambda: setattr(eq.location, 'value', 'Moon'),
                       lambda: setattr(par.values, 'units', 'furlong')):
            try:
                assign()
            except ValueError:
                pass
            else:
                return False

    # outside: warnings only
    ch.units.value = 'furlong'
    fr.index_type.value = 'DEPTH'
    eq._type.value = 'Gizmo'
    eq.location.value = 'Moon'
    par.values.units = 'furlong'

    with high_compatibility_mode():
        path = _write(df)                                # written INSIDE the context: no error

    with dlisio.dlis.load(path) as (f, *_):
        got = (f.object('CHANNEL', 'GAMMA').units, f.object('FRAME', 'MAIN').index_type,
               f.object('EQUIPMENT', 'EQ1').attic['TYPE'].value[0], f.object('EQUIPMENT', 'EQ1').location,
               f.object('PARAMETER', 'PAR1').attic['VALUES'].units)
    os.remove(path)
    return got == ('furlong', 'DEPTH', 'Gizmo', 'Moon', 'furlong')


def finding_3():
    """File-set number: the origin is added just before the context is entered; the rest of the file is built,
    and the file written, inside the context -> a huge random file-set number instead of 1."""

    np.random.seed(0)     # (the number is drawn from numpy's global generator: keep the run reproducible)

    df = DLISFile()
    lf = df.add_logical_file()
    lf.add_origin('ORIGIN')                              # outside: random number in [1, 2**30)

    with high_compatibility_mode():
        idx = lf.add_channel('DEPTH', data=np.arange(5.), units='m')
        lf.add_frame('MAIN', channels=(idx,), index_type='BOREHOLE-DEPTH')
        path = _write(df)                                # written INSIDE the context: no error

    with dlisio.dlis.load(path) as (f, *_):
        file_set_numbers = [o.file_set_nr for o in f.origins]
    os.remove(path)
    return file_set_numbers != [1] and file_set_numbers[0] > 1000


def finding_4():
    """Equipment type: high-compatibility mode refuses the standard's 'Panel' and accepts (and writes) 'Pane',
    which is not in the standard's set of equipment types."""

    def make(eq_type):
        df = DLISFile()
        lf = df.add_logical_file()
        lf.add_origin('ORIGIN')
        idx = lf.add_channel('DEPTH', data=np.arange(5.), units='m')
        lf.add_frame('MAIN', channels=(idx,), index_type='BOREHOLE-DEPTH')
        lf.add_equipment('EQ1', eq_type=eq_type)
        return df

    panel_refused = _raises_in_hc(lambda: make('Panel'))

    with high_compatibility_mode():
        path = _write(make('Pane'))
    with dlisio.dlis.load(path) as (f, *_):
        written = f.object('EQUIPMENT', 'EQ1').attic['TYPE'].value[0]
    os.remove(path)

    return panel_refused and written == 'Pane'


DESCRIPTIONS = {
    1: "names (storage set id, header id, channel) assigned outside the context are not checked when the file is "
       "built/written inside it: forbidden names written without an error",
    2: "units / index type / equipment type and location assigned outside the context are written inside it "
       "without an error",
    3: "an origin added before entering the context keeps its random 30-bit file-set number in a file completed "
       "and written inside the context",
    4: "in high-compatibility mode the standard equipment type 'Panel' is refused while the non-standard 'Pane' "
       "is accepted and written",
}


if __name__ == '__main__':
    for n, func in enumerate((finding_1, finding_2, finding_3, finding_4), start=1):
        try:
            observed = bool(func())
        except Exception as exc:   # a finding which cannot be reproduced any more must not hide the others
            observed = False
            DESCRIPTIONS[n] += f" [{type(exc).__name__}: {exc}]"
        print(f"FINDING {n}: {DESCRIPTIONS[n]} -> {'VIOLATED' if observed else 'not reproduced'}")
