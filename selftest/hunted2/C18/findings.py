r"""Reproductions for property C18 (frames and logical files are isolated from one another).

Run as:  cd /tmp/hunt2/C18 && PYTHONPATH=/tmp/hunt2/C18/src /venv/bin/python findings.py

Every function builds a file through the public API only, writes it (output_chunk_size=2**20) and judges the
result with dlisio. It returns True if the violation is observed.

(The tool refused to create FINDINGS.md; its content follows.)

==========================================================================================================
FINDINGS (worktree /tmp/hunt2/C18, HEAD f93c01c; oracle: dlisio + plain Python identity comparisons)
==========================================================================================================

Finding 1 - one FileHeaderItem handed to two logical files is accepted; the two logical files are written with
one shared header object (one shared FILE-HEADER set), and A's header carries B's origin reference
----------------------------------------------------------------------------------------------------------
Input / call sequence:

    df = DLISFile()
    lf_a = df.add_logical_file(fh_id='A-FILE')
    lf_b = df.add_logical_file(file_header=lf_a.file_header)      # "same header settings as A"
    # (equivalently: fh = eflr_types.FileHeaderItem('H', parent=eflr_types.FileHeaderSet());
    #                df.add_logical_file(file_header=fh); df.add_logical_file(file_header=fh)
    #  - or the same fh given to logical files of two different DLISFile objects)
    lf_a.add_origin('OA', set_name='OA', origin_reference=1)
    lf_b.add_origin('OB', set_name='OB', origin_reference=2)
    ch_a = lf_a.add_channel('D', data=np.arange(5.), set_name='CA')
    ch_b = lf_b.add_channel('D', data=np.arange(4.) + 1000, set_name='CB')
    lf_a.add_frame('F', channels=(ch_a,), set_name='FA')
    lf_b.add_frame('F', channels=(ch_b,), set_name='FB')
    df.write(fn, output_chunk_size=2**20)

All other sets have distinct names per logical file, so nothing else is shared.

Required: "... the logical files are emitted in creation order, each opening with ITS OWN header. A configuration in
which objects of different logical files would end up in one shared set is REJECTED rather than written with
cross-contaminated sets." The FILE-HEADER set is a set like any other: here one FileHeaderSet / FileHeaderItem belongs
to two logical files. Every other set type is refused in that situation (try_add_set: "already holds objects of another
logical file"; _check_sets_not_shared: "is shared between two logical files").

Observed: no add_* call and no check at write() objects. `lf_a.file_header is lf_b.file_header` and
`lf_a.file_header.parent is lf_b.file_header.parent` are True; the file is written. The shared object is
cross-contaminated: LogicalFile.add_origin unconditionally does
`self.file_header_item.origin_reference = o.origin_reference` for the first origin of ITS logical file, so B's add_origin
overwrites the origin reference that A's add_origin had put into the (same) header. dlisio reads back:

    LF 0: fileheader id='A-FILE' seq='1' origin=2 copy=0 name='0' | origins [('OA', 1)] | channels [('D', origin 1)]
    LF 1: fileheader id='A-FILE' seq='1' origin=2 copy=0 name='0' | origins [('OB', 2)] | channels [('D', origin 2)]

The header which opens logical file A has the identity (origin 2, copy 0, '0'): origin 2 is the origin of logical file B
and does not exist in A (A's only origin is 1). With two DLISFile objects sharing the header the effect is the same across
files (file 1: header origin 20, its only origin 10 - scratch/e3.py). The header's origin reference is also never looked
at by _check_references (it only walks own_sets; the header's set is not among them), so the foreign / non-existent
origin reference passes the "origin reference is not that of any origin of the logical file" check that every other
object is subject to.

Code: src/dliswriter/file/file.py
  * LogicalFile.__init__ (l. 278-289): `if file_header is not None: self.file_header_item = file_header` - the given
    header is taken as it is (not even type-checked: the _set_up_sul_or_fh check is bypassed); nothing records that the
    header (or its FileHeaderSet) already is the header of another logical file.
  * LogicalFile._check_sets_not_shared (l. 2163-2179) walks self._eflr_sets only; the FILE-HEADER set is kept outside of
    it (file_header_item attribute), so it is exempt from the "shared set" rule.
  * LogicalFile.add_origin (l. 1589-1590) overwrites file_header_item.origin_reference; _check_references
    (l. 2146-2150) does not check the header's origin reference.

Finding 2 - data given to write(data={...}) for a data-less channel of logical file B silently replace the rows that
were added with add_channel(data=...) to a same-named channel of logical file A
----------------------------------------------------------------------------------------------------------
Input / call sequence:

    rows_a = np.arange(4.)            # [0, 1, 2, 3]          -> added to logical file A
    rows_b = np.arange(3.) + 1000     # [1000, 1001, 1002]    -> meant for B's channel, added without data
    df = DLISFile()
    lf_a = df.add_logical_file(fh_id='A')
    lf_b = df.add_logical_file(fh_id='B', fh_sequence_number=2)
    lf_a.add_origin('OA', set_name='OA');  lf_b.add_origin('OB', set_name='OB')
    ch_a = lf_a.add_channel('DEPTH', data=rows_a, set_name='CA')
    ch_b = lf_b.add_channel('DEPTH', set_name='CB')            # data to be given at write()
    lf_a.add_frame('F', channels=(ch_a,), set_name='FA')
    lf_b.add_frame('F', channels=(ch_b,), set_name='FB')
    df.write(fn, output_chunk_size=2**20, data={'DEPTH': rows_b})

(distinct set names per logical file; the two channels are two objects of two logical files which merely have the same
name - the usual situation, e.g. DEPTH / TIME in every logical file)

Required: "With several logical files, every object, reference, origin and DATA ROW appears in exactly the logical file
it was added to." rows_a was added to A (and to A only) with add_channel; write's docstring describes its `data` argument
as "Data for channels - if not specified when channels were added", i.e. it is for B's channel here.

Observed: no error, no warning. dlisio reads back:

    LF 0 (A): frame F: FRAMENO [1, 2, 3]  DEPTH [1000.0, 1001.0, 1002.0]
    LF 1 (B): frame F: FRAMENO [1, 2, 3]  DEPTH [1000.0, 1001.0, 1002.0]

The four rows added to A appear nowhere; the three rows meant for B appear in both logical files (A's row count changes
from 4 to 3, too). (Dataset names are only made unique WITHIN a logical file - _get_unique_dataset_name looks at
self.channels - so 'DEPTH' is the dataset name of both channels, and there is one `data` dict for the whole write.)

Code: src/dliswriter/file/file.py, LogicalFile._make_multi_frame_data (l. 2261-2268):
        data_object = DictDataWrapper(self._data_dict | data, ...)   # write-time dict wins
The one `data` dict of DLISFile.write is merged into EVERY logical file's own _data_dict
(DLISFile.generate_logical_records, l. 152-166, passes the same `data` to each logical file), with precedence for the
write-time dict, so a key meant for one logical file overrides the rows another logical file was given at add_channel.

Tried without finding a violation (scripts in scratch/, judged with dlisio)
----------------------------------------------------------------------------------------------------------
 1. Random interleavings of add_origin / add_channel / add_frame / add_axis / add_zone / add_parameter / add_comment /
    add_no_format / add_no_format_frame_data / add_group between 1-3 logical files with set names drawn from
    None, '', 's0'..'s3' and per-file names, cross-file references, and rejected calls in between (scratch/fuzz.py,
    2000 seeds, 1335 written files): every written file had exactly the expected objects / rows / references per
    logical file, everything else was refused.
 2. Random frames (1-4 per logical file, 1-3 logical files) with re-used channel names (X, X__1, ...), re-used frame
    names, explicit dataset_name, data at add vs at write, mixed dtypes, input_chunk_size 1/2/5/None (scratch/fuzz2.py):
    rows, row counts and frame numbers always right.
 3. Same-named frames in one set (copy numbers 0/1) with same-named channels: rows attributed correctly.
 4. from_idx / to_idx with frames of different lengths: window applied per frame, or refused.
 5. Default set names in both logical files; '' vs None; same name for different set types: refused / fine.
 6. Sets left empty by rejected calls (not used by another file): no record is emitted for them.
 7. try_add_set re-ordering of empty sets / types; defining origin after a rejected add_origin.
 8. References through AttrSetup, dict form, tuples, nested lists; Channel.source (plain attribute): all reach
    _check_references.
 9. Another file's NoFormatItem / channel / axis / zone / long name / file header in a reference: refused.
10. Items built by hand with parent=<set of A>; hand-made sets: belong to A resp. refused.
11. A LogicalFile of one DLISFile appended to another DLISFile (separate set objects, no sharing).
12. Same channel object twice in a frame / same-named channels in one frame: refused (name mismatch).
13. High-compatibility mode with two logical files.
14. max_record_length 20 / 22 / 64 / 300 and output_chunk_size 8192 vs 2**20 (byte-identical output) with two logical
    files, wide rows and long no-format data.
15. Several writes of one multi-file DLISFile; frame numbers restart at 1.
16. origin_reference forms (0, True, explicit per file, duplicates): per-file checks hold.
17. An origin whose origin_reference is re-assigned after creation: items follow / are refused, but the file header keeps
    the old reference (header origin 0, only origin 7) - the same unchecked header origin reference as in finding 1; not
    counted separately because it is not an isolation issue by itself.
18. Module / class level state (lru_cache of _write_struct, LRMeta, cached_property obname) between several DLISFile
    objects: nothing object-specific is cached.
"""

import contextlib
import io
import logging
import os
import tempfile

import numpy as np
import dlisio

from dliswriter import DLISFile

logging.disable(logging.CRITICAL)
dlisio.common.set_encodings(['latin1'])


def _tmp() -> str:
    return os.path.join(tempfile.mkdtemp(prefix='c18_'), 'out.dlis')


def _write(df: DLISFile, fn: str, **kwargs) -> None:
    with contextlib.redirect_stderr(io.StringIO()):  # (progress bar)
        df.write(fn, output_chunk_size=2 ** 20, **kwargs)


def finding_1() -> bool:
    """One FileHeaderItem handed to two logical files: accepted and written; both logical files open with the very
    same header object (one shared FILE-HEADER set), and the header of the first one carries the origin reference
    of the second one's origin."""

    df = DLISFile()
    lf_a = df.add_logical_file(fh_id='A-FILE')
    lf_b = df.add_logical_file(file_header=lf_a.file_header)  # "same header settings as A"

    lf_a.add_origin('OA', set_name='OA', origin_reference=1)
    lf_b.add_origin('OB', set_name='OB', origin_reference=2)
    ch_a = lf_a.add_channel('D', data=np.arange(5.), set_name='CA')
    ch_b = lf_b.add_channel('D', data=np.arange(4.) + 1000, set_name='CB')
    lf_a.add_frame('F', channels=(ch_a,), set_name='FA')
    lf_b.add_frame('F', channels=(ch_b,), set_name='FB')

    shared_set = lf_a.file_header.parent is lf_b.file_header.parent  # one set object for two logical files

    fn = _tmp()
    try:
        _write(df, fn)
    except Exception:
        return False  # rejected: that is what the statement asks for

    with dlisio.dlis.load(fn) as (a, b, *rest):
        origins_a = [o.origin for o in a.origins]
        header_origin_a = a.fileheader.origin
        header_origin_b = b.fileheader.origin

    # the header of logical file A names origin 2, which is LF B's origin and does not exist in A (A has origin 1)
    return shared_set and header_origin_a == header_origin_b == 2 and origins_a == [1]


def finding_2() -> bool:
    """The data dict given to write() for a channel of logical file B (added without data) also replaces the rows
    which were given to add_channel for a same-named channel of logical file A."""

    rows_a = np.arange(4.)          # added to A
    rows_b = np.arange(3.) + 1000   # meant for B's channel, which was added without data

    df = DLISFile()
    lf_a = df.add_logical_file(fh_id='A')
    lf_b = df.add_logical_file(fh_id='B', fh_sequence_number=2)
    lf_a.add_origin('OA', set_name='OA')
    lf_b.add_origin('OB', set_name='OB')
    ch_a = lf_a.add_channel('DEPTH', data=rows_a, set_name='CA')
    ch_b = lf_b.add_channel('DEPTH', set_name='CB')
    lf_a.add_frame('F', channels=(ch_a,), set_name='FA')
    lf_b.add_frame('F', channels=(ch_b,), set_name='FB')

    fn = _tmp()
    try:
        _write(df, fn, data={'DEPTH': rows_b})
    except Exception:
        return False

    with dlisio.dlis.load(fn) as (a, b, *rest):
        got_a = a.frames[0].curves()['DEPTH'].tolist()
        got_b = b.frames[0].curves()['DEPTH'].tolist()

    # A's own 4 rows are gone; A holds the 3 rows that were meant for B
    return got_b == rows_b.tolist() and got_a == rows_b.tolist() and got_a != rows_a.tolist()


FINDINGS = [
    (finding_1, "one FileHeaderItem given to two logical files is accepted: both are written with one shared header "
                "object, and A's header carries the origin reference of B's origin"),
    (finding_2, "write(data={...}) meant for a data-less channel of logical file B silently replaces the rows "
                "added with add_channel(data=...) to the same-named channel of logical file A"),
]


if __name__ == '__main__':
    for n, (func, description) in enumerate(FINDINGS, start=1):
        try:
            violated = func()
        except Exception as exc:  # a reproduction must not crash the run
            violated = False
            description += f" [error: {type(exc).__name__}: {exc}]"
        print(f"FINDING {n}: {description} -> {'VIOLATED' if violated else 'not reproduced'}")
