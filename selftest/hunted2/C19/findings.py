"""FINDINGS (C19 "Writing never alters the caller's data") - this docstring stands in for FINDINGS.md.

Worktree /tmp/hunt2/C19 (HEAD f93c01c), sources imported from /tmp/hunt2/C19/src.
Run:  cd /tmp/hunt2/C19 && PYTHONPATH=/tmp/hunt2/C19/src /venv/bin/python findings.py

RESULT IN ONE PARAGRAPH
-----------------------
The observable clause of the statement (after a successful or failed write every supplied array, the data dict and
the HDF5 file are bit-identical) could NOT be violated. There is no in-place numpy operation on caller data
anywhere in the library (byteswap() without inplace, astype, np.zeros + field assignment, dict | dict,
h5py.File(..., 'r')), and about 12 000 generated configurations plus ~150 hand-made scenarios (list below) left
buffers, flags, strides, dict keys / value identities, file bytes and mtimes untouched, including all cases with
read-only arrays (where any write attempt would have raised).

One deviation from the MECHANISM clause ("Casting, byte swapping, chunking and windowing always operate on
copies") exists and is reported as Finding 1. It is latent: nothing in the library writes through the views.

FINDING 1 - chunks and row windows of a structured-array source are writable views, not copies
-----------------------------------------------------------------------------------------------
Input / calls (finding_1 below):

    arr = np.zeros(12, dtype=[('DEPTH','<f8'), ('A','<i4'), ('B','<f4',(3,))])  # native byte order, no cast
    w = NumpyDataWrapper(arr, from_idx=2, to_idx=10)      # windowing
    chunk = w.load_chunk(0, 4)                            # chunking
    rows  = list(w.make_chunked_generator(chunk_rows=3))
    np.shares_memory(chunk, arr), chunk.flags.writeable   # -> True, True
    np.shares_memory(rows[0], arr)                        # -> True
    df.generate_logical_records(chunk_size=5, data=arr, from_idx=1, to_idx=11)
    # every FrameData record (the ones DLISFile.write() serialises) has ._slots sharing memory with arr
    chunk['A'][0] = -999  ->  arr['A'][2] == -999         # caller's array altered through the "chunk"

Required: chunking and windowing operate on copies for all data sources / chunk sizes / windows.
Observed: for a structured array whose dtype equals the target dtype (native byte order, no cast, every channel
taking the field of its own name) the chunk is self._data_source[from_idx+start : from_idx+stop], a writable view;
the rows yielded to MultiFrameData / FrameData are np.void views of the caller's buffer. The same data given as a
dict, as HDF5, in non-native byte order, or with any cast are copied (np.zeros + assignment), so the behaviour
depends on the source type. Likewise SourceDataWrapper.__getitem__ (used for index min / max / spacing) returns
data[from_idx:to_idx], a view, for dict and structured sources; statistics are computed on that view when no cast
is declared.
Consequence today: none for DLISFile.write - FrameData._make_body_bytes only calls s.byteswap().tobytes()
(copying) and the index statistics only read. The caller's array is altered only if somebody (a user of the
documented load_chunk / make_chunked_generator, whose base-class docstring says "Copy a chunk of the source data",
or a future in-place optimisation in FrameData) writes into a chunk.
Code: src/dliswriter/utils/source_data_wrappers.py NumpyDataWrapper.load_chunk lines 354-358 (fast path),
SourceDataWrapper.__getitem__ line 144; consumers file/multi_frame_data.py:85-90,
logical_record/iflr_types/frame_data.py:48-49.
Severity: low / latent; reported because it is the only place where the text of the statement is not literally true.

WHAT WAS TRIED FOR THE OBSERVABLE CLAUSE (all: data unaltered)
--------------------------------------------------------------
Comparison, independent of the library: tobytes() of every array and of its ultimate base buffer, dtype, shape,
strides, flags, id of the dict values, list of dict keys, np.geterr(), file bytes + st_mtime_ns + mode of HDF5 /
memmap files, before vs after; output read back with dlisio where useful.

 1. Inline data, dict data: 8 dtypes x {plain, read-only, strided view of larger buffer, reversed, byte-swapped,
    Fortran order, transposed} for a 1-D and a 2-D channel x casts {none, f4, i2, u1, f8} x {no chunking,
    input_chunk_size 7, 1} x {no window, from/to window} (11 200 writes).
 2. Structured array: native (fast path), read-only, big-endian, mixed endian, multi-field view b[['..']] with
    padding, extra unused fields, strided, reversed, np.recarray, aligned dtype, np.memmap r+ / r / c (file bytes
    checked) x casts x chunks x windows, incl. windows outside the data (rejected) (312 writes).
 3. HDF5: contiguous, chunked+gzip, big-endian datasets; nested groups, names with / without leading slash; str and
    pathlib.Path; casts, chunks, windows, rejected windows: file bytes, mtime, mode unchanged (120 writes).
 4. HDF5 file simultaneously open by the caller in r, r+, a with a live Dataset handle and with an unflushed
    modification: handles stay valid, file bytes unchanged, re-opening r+ after a failed write works.
 5. Failed writes: NaN / inf under an integer cast in a late chunk; second frame failing after the first was
    written; unwritable output directory; output path is a directory; output_chunk_size below the record length;
    mismatching row counts; high-compatibility mode rejections (index type, signed integers).
 6. np.errstate / np.geterr() identical after successful and failed writes (the cast check uses errstate).
 7. Overlapping views of one buffer as different channels; np.broadcast_to (zero strides, read-only); as_strided
    overlapping rows; the same array object used for three channels with different casts.
 8. Max record length 20 / 22 with 50-sample rows (heavy segmentation).
 9. Two logical files, two frames, row window + chunking.
10. Several writes of one DLISFile with cast_dtype changed, channel renamed, different windows / chunk sizes.
11. Dict subclasses as data: OrderedDict, defaultdict (incl. missing key: no key is added to the caller's dict),
    UserDict / ChainMap (rejected); dict with a non-array extra value (rejected, dict untouched).
12. Inline data plus an overriding data dict: neither the caller's dict nor the inline registration changes.
13. Exotic dtypes / shapes with and without cast: np.matrix, 0-d, object, bool, float16, int64, uint64,
    datetime64, complex, str, 3-D, empty, (n, 0).
14. Index channel variants: NaN in index, integer, decreasing uint8, single row, unordered, -0.0, big-endian, with
    index_type set / None and casts of the index.
15. Crosswise dataset_name mapping onto a structured array (forces the copy path).
16. generate_logical_records consumed partially and abandoned.
17. cast_dtype given as a caller-owned np.dtype('>f4') instance: the dtype object is not modified.
18. Attribute values: lists / dicts / AttrSetup given by the caller are only iterated and converted into new lists;
    numpy arrays are not accepted as attribute values (unhashable in the struct cache), so nothing to alter.
19. No-format data (bytearray copied at hand-over - fixed earlier, re-checked by reading the code).
20. Code reading of every numpy call site (np. / astype / byteswap / newbyteorder), of writer.py,
    logical_record_bytes.py, verif_taps.py: none receives caller arrays other than for reading.
"""

import logging
import numpy as np

logging.disable(logging.CRITICAL)


def finding_1():
    """Chunks and row windows of a structured-array source are writable views of the caller's array, not copies.

    Checked twice: (a) through the documented public functions NumpyDataWrapper.load_chunk /
    make_chunked_generator, (b) through the public DLISFile.generate_logical_records(), i.e. the very records
    DLISFile.write() turns into bytes. For comparison, the same data given as a dict (or with a cast) are copied.
    """

    from dliswriter import DLISFile
    from dliswriter.utils.source_data_wrappers import NumpyDataWrapper, DictDataWrapper

    n = 12
    arr = np.zeros(n, dtype=[('DEPTH', '<f8'), ('A', '<i4'), ('B', '<f4', (3,))])
    arr['DEPTH'] = np.arange(n)
    arr['A'] = np.arange(n) * 10
    arr['B'] = 1.5
    before = arr.tobytes()

    # (a) chunking + windowing through the documented wrapper functions
    w = NumpyDataWrapper(arr, from_idx=2, to_idx=10)                 # a row window
    chunk = w.load_chunk(0, 4)                                        # a chunk of that window
    rows = list(w.make_chunked_generator(chunk_rows=3))               # what MultiFrameData consumes
    shares_a = np.shares_memory(chunk, arr) and chunk.flags.writeable and np.shares_memory(rows[0], arr)

    # the same data as a dict: copies (this is what the statement promises for every source)
    wd = DictDataWrapper({k: arr[k] for k in arr.dtype.names}, from_idx=2, to_idx=10)
    dict_is_copy = not np.shares_memory(wd.load_chunk(0, 4), arr)

    # (b) the records made for DLISFile.write() hold rows of the caller's buffer
    df = DLISFile()
    lf = df.add_logical_file()
    lf.add_origin('O')
    chs = [lf.add_channel(k) for k in arr.dtype.names]
    lf.add_frame('F', channels=chs, index_type='BOREHOLE-DEPTH')
    records = list(df.generate_logical_records(chunk_size=5, data=arr, from_idx=1, to_idx=11))
    frame_data = [r for r in records if type(r).__name__ == 'FrameData']
    shares_b = all(np.shares_memory(fd._slots, arr) for fd in frame_data) and len(frame_data) == 10

    # consequence: whoever touches such a chunk touches the caller's array (not so for a dict / cast source)
    chunk['A'][0] = -999
    altered_through_chunk = arr.tobytes() != before and arr['A'][2] == -999
    arr['A'][2] = 20  # restore

    return bool(shares_a and shares_b and dict_is_copy and altered_through_chunk)


def _sanity_main_clause_holds():
    """Not a finding: shows that the write itself leaves such a (read-only) structured array untouched."""

    import os
    import tempfile
    from dliswriter import DLISFile

    n = 12
    arr = np.zeros(n, dtype=[('DEPTH', '<f8'), ('A', '<i4')])
    arr['DEPTH'] = np.arange(n)
    arr.setflags(write=False)
    before = arr.tobytes()
    df = DLISFile()
    lf = df.add_logical_file()
    lf.add_origin('O')
    lf.add_frame('F', channels=[lf.add_channel('DEPTH'), lf.add_channel('A')], index_type='BOREHOLE-DEPTH')
    with tempfile.TemporaryDirectory() as d:
        df.write(os.path.join(d, 'o.dlis'), data=arr, input_chunk_size=5, from_idx=1, output_chunk_size=2 ** 20)
    return arr.tobytes() == before


FINDINGS = [
    (finding_1, "chunks / row windows of a structured-array source are writable views into the caller's array, "
                "not copies (mechanism clause only; the write itself does not alter the data)"),
]


if __name__ == '__main__':
    import sys
    import io

    for i, (func, description) in enumerate(FINDINGS, start=1):
        stderr, sys.stderr = sys.stderr, io.StringIO()  # (progress bars)
        try:
            violated = func()
        except Exception as exc:  # noqa
            violated = False
            description += f" [raised {type(exc).__name__}: {exc}]"
        finally:
            sys.stderr = stderr
        print(f"FINDING {i}: {description} -> {'VIOLATED' if violated else 'not reproduced'}")

    stderr, sys.stderr = sys.stderr, io.StringIO()
    try:
        holds = _sanity_main_clause_holds()
    finally:
        sys.stderr = stderr
    print(f"(main clause - data bit-identical after write - holds in the same setting: {holds}; "
          f"no violation of the main clause found)")
