"""Reproductions for violations of property C20 ("a rejected call leaves no trace in later files").

Run as:  cd /tmp/hunt2/C20 && PYTHONPATH=/tmp/hunt2/C20/src /venv/bin/python findings.py

Every finding builds the specification twice - once with the rejected call / failed write, once without ("fresh") -
writes both, and compares the bytes and what dlisio decodes from them. See FINDINGS.md for the details.

=====================================================================================================================
FINDINGS.md (the tool refused to create the file; its content is kept here)
=====================================================================================================================

C20 - "A rejected call leaves no trace in later files": findings
Worktree /tmp/hunt2/C20 (HEAD f93c01c), sources imported from /tmp/hunt2/C20/src.
Every reproduction builds the specification twice (with / without the rejected call or failed write), writes both
with output_chunk_size=2**20, compares the bytes and decodes both files with dlisio.

 # | kind                                  | trace
 1 | add_* rejected AFTER registration     | ghost CHANNEL object in later files; copy number of the next same-named
   |                                       | channel is 1 instead of 0
 2 | write that raises                     | ELEMENT-LIMIT of a frame-less channel keeps the DIMENSION the refused write saw
 3 | write that raises                     | DIMENSION / ELEMENT-LIMIT / REPRESENTATION-CODE derived by the refused write
   |                                       | stay on a channel that has been taken out of the frame
 4 | rejected assignment (set_attributes)  | accepted parts of the rejected call are kept and written (borderline: the
   |                                       | statement names add_* and write; the quantifier names assignments)

---------------------------------------------------------------------------------------------------------------------
Finding 1 - add_channel(..., data=<array>, dataset_name=<unhashable>) raises after the channel registered itself

    df = DLISFile(); lf = df.add_logical_file()
    lf.add_origin('O', file_set_number=5, creation_time=datetime(2020, 1, 1, 12))
    lf.add_channel('X', data=np.arange(10.), dataset_name=['x'])      # TypeError: unhashable type: 'list'
    d = lf.add_channel('DEPTH', data=np.arange(10.))
    x = lf.add_channel('X', data=np.arange(10.) * 2)
    lf.add_frame('FR', channels=(d, x), index_type='BOREHOLE-DEPTH')
    df.write(path, output_chunk_size=2**20)

Required: the rejected call (wrong type of dataset_name) leaves nothing; x has copy number 0; the file has the
channels DEPTH and X only.
Observed:
  * lf.channels after the rejected call: [('X', copy 0, dataset_name ['x']), ...] - the rejected channel is in its set;
  * x.copy_number == 1 (fresh: 0);
  * file: 1236 bytes vs 1218 bytes of the fresh specification; dlisio: channels [('DEPTH',0), ('X',0), ('X',1)] vs
    [('DEPTH',0), ('X',0)]; the frame refers to X copy 1.
    (Same with a dict / set as dataset_name, and with a numpy array while the logical file has no channel yet.)
Cause: src/dliswriter/file/file.py, LogicalFile.add_channel: the ChannelItem is created - and, at the end of
EFLRItem.__init__ (core/eflr/eflr_item.py:77), registered with its set - at line 752; only then, line 770,
`self._data_dict[ch.dataset_name] = data` is executed, which raises for an unhashable name.
_get_unique_dataset_name (line 774) returns a given dataset_name of any type unchecked. This is the one add_* method
(besides add_origin) which does work after the item has been constructed.

---------------------------------------------------------------------------------------------------------------------
Finding 2 - a refused write leaves ELEMENT-LIMIT = the refused DIMENSION on a frame-less channel

    df = DLISFile(); lf = df.add_logical_file()
    lf.add_origin('O', file_set_number=5, creation_time=datetime(2020, 1, 1, 12))
    d = lf.add_channel('DEPTH', data=np.arange(10.))
    lf.add_frame('FR', channels=(d,), index_type='BOREHOLE-DEPTH')
    ax = lf.add_axis('AX', coordinates=[1., 2., 3.])
    ch = lf.add_channel('EXTRA', dimension=[5], axis=[ax])      # in no frame (allowed, warning only)
    df.write(p, output_chunk_size=2**20)   # RuntimeError: number of coordinates in axis 1 (3) does not match the dimension 1 (5)
    ch.dimension.value = [3]               # cause removed
    df.write(p, output_chunk_size=2**20)   # succeeds

Required: the same file as a fresh specification with dimension=[3]: EXTRA has DIMENSION [3], ELEMENT-LIMIT [3].
Observed (dlisio): EXTRA has DIMENSION [3], ELEMENT-LIMIT [5]; fresh: [3], [3]. Bytes differ.
(With a DIMENSION corrected to something larger than the refused one, the second write is refused again:
"dimension is [4] and element limit is [3]", though the user never gave a limit.)
Mirror case: element_limit=[5] only -> the refused write sets DIMENSION [5].
Cause: src/dliswriter/logical_record/eflr_types/channel.py, ChannelItem._run_checks_and_set_defaults, lines 199-208:
`self.element_limit.value = self.dimension.value` (resp. `self.dimension.value = self.element_limit.value`) is executed
before _check_axis_vs_dimension() raises, and - unlike the values derived in _set_dimension_from_data - is not recorded
in _derived_from_data, so nothing ever takes it back. (For channels in a frame the limit is derived, and recorded, in
_set_dimension_from_data, so only frame-less channels get here.)

---------------------------------------------------------------------------------------------------------------------
Finding 3 - values derived by a refused write stay on the channel once it is out of the frame

    df = DLISFile(); lf = df.add_logical_file()
    lf.add_origin('O', file_set_number=5, creation_time=datetime(2020, 1, 1, 12))
    a = lf.add_channel('A', data=np.arange(20.).reshape(10, 2))
    x = lf.add_channel('X', data=np.arange(10.))
    fr = lf.add_frame('FR', channels=[a, x], index_type='TIME')
    df.write(p, output_chunk_size=2**20)   # RuntimeError: Index channel's data must be 1-dimensional; got 2 dimensions for ChannelItem 'A'
    fr.channels.value = [x]                # cause removed: A is not in the frame any more
    df.write(p, output_chunk_size=2**20)   # succeeds

Required: the same file as a fresh specification in which the same assignment has been made (A added, then left out of
the frame): A is written without DIMENSION, ELEMENT-LIMIT and REPRESENTATION-CODE.
Observed (dlisio): A has DIMENSION [2], ELEMENT-LIMIT [2], REPRESENTATION-CODE 7 (FDOUBL); fresh: absent, absent, absent.
Bytes differ (the same happens with a write that fails for any late reason - unwritable path, a value that cannot be
encoded, data that cannot be cast - after which a channel is taken out of its frame).
Cause: channel.py:118 set_dimension_and_repr_code_from_data is the only place where values derived at a previous
(attempted) write are taken back, and it is only called for the channels which are in a frame at the next write
(frame.py:76-77, FrameItem.setup_from_data). In the refused write it has already run for A (setup_from_data sets up all
channels before _setup_frame_params_from_data raises), so A keeps
_derived_from_data = {'dimension', 'element_limit', 'cast_dtype'} and their values for good.

---------------------------------------------------------------------------------------------------------------------
Finding 4 - a rejected set_attributes call is applied in part (borderline: an assignment, not an add_*)

    z = lf.add_zone('Z', description='OLD', domain='TIME')
    ax = lf.add_axis('AX', spacing={'value': 1.0, 'units': 'm'})
    z.set_attributes(description='NEW', domain='NOPE')          # ValueError: 'NOPE' is not one of the allowed domains
    ax.set_attributes(spacing={'value': 2.0, 'units': 5})      # TypeError: Expected a str, got <class 'int'>: 5
    df.write(...)

Required (statement read over "all sequences of valid and invalid add_*/assignment/write calls"): the rejected calls
leave Z and AX as they were: DESCRIPTION 'OLD', SPACING 1.0 m.
Observed (dlisio): Z.DESCRIPTION == 'NEW', AX.SPACING == 2.0 (units still 'm'); bytes differ from the file of the
specification without the two rejected calls.
Cause: src/dliswriter/logical_record/core/eflr/eflr_item.py:205-238, EFLRItem.set_attributes: keywords - and the
'value' / 'units' parts of a dict or AttrSetup - are assigned one after the other; nothing is validated up front or
rolled back. (Inside add_* the same loop is harmless since the half-made item is never registered.) All single
assignments tried (attr.value, attr.units, item.name, item.origin_reference, ch.cast_dtype, fh.header_id,
sul.set_identifier) are atomic.

---------------------------------------------------------------------------------------------------------------------
Observation (not counted: nothing in the file)
A rejected add_* leaves an empty set in the logical file; DLISFile.generate_logical_records counts it (file.py:172), so
len(df.generate_logical_records(chunk_size=None)), the progress bar total and the "N written to DLIS file" log line are
one too high (15 vs 14 records in the minimal example lf.add_zone('Z', domain='NOPE')), although the file bytes are
identical to the fresh ones.

---------------------------------------------------------------------------------------------------------------------
What else was tried and held (differential fuzzers in scratch/: fuzz.py, fuzz2.py, fuzz3.py - bytes compared against a
fresh specification built without the rejected calls / failed writes)
1. 1000 random sequences of valid / invalid calls over 20 add_* methods, names re-used (copy numbers), three set names
   per type, references between objects; invalid kinds: name of wrong type, origin_reference of wrong type, value
   outside enumeration, wrong value type, invalid reference (wrong item class), list to single-valued attribute, dict
   with unknown key, units on an attribute without units, bad cast_dtype, data not an array, duplicate dataset_name,
   duplicate origin reference - one and two logical files (distinct set names): identical bytes.
2. position of set types / named sets after rejected calls that touched them first; rejected add_origin as first call,
   in another set name; defining origin, file-set numbers, origin references given to earlier objects.
3. failing writes interleaved with the calls (unwritable path, fractional output chunk, input_chunk_size=0, from_idx
   outside, data override with wrong row count, a Zone refused while the EFLRs are serialised): identical bytes.
4. failing write followed by 1-4 random edits (dimension / element limit / cast dtype / units / long name / rename to a
   new name / moving and re-ordering channels between frames / index_type, index_min, spacing, direction / data
   override of other dtype and shape / origin reference / putting a frame-less channel into a frame) vs the same edits
   on a fresh specification: identical except for findings 2 and 3.
5. rejected single assignments - atomic, and the assignment counters used for "derived" bookkeeping are not advanced.
6. high-compatibility mode: rejected lower-case names, file_set_number = n_items after a rejected add_origin, refused
   writes (non-uniform spacing, frame-less channel) followed by a write outside the mode.
7. memoisation (_write_struct lru_cache does not cache exceptions), cached OBNAME after failed writes, numpy random
   state (a rejected add_origin does not draw a file set number), two DLISFile objects in one process.
8. rejected add_logical_file (bad id / identifier / sequence number): no logical file appended.
"""

import contextlib
import logging
import os
import tempfile
from datetime import datetime

import numpy as np
import dlisio

from dliswriter import DLISFile

logging.disable(logging.CRITICAL)
dlisio.common.set_encodings(['latin1'])

T = datetime(2020, 1, 1, 12, 0, 0)


@contextlib.contextmanager
def _quiet():
    """Silence the progress bar (written to file descriptor 2)."""

    devnull = os.open(os.devnull, os.O_WRONLY)
    saved = os.dup(2)
    try:
        os.dup2(devnull, 2)
        yield
    finally:
        os.dup2(saved, 2)
        os.close(saved)
        os.close(devnull)


def _write(df, **kwargs):
    """Write the file, return its bytes (raises what DLISFile.write raises)."""

    fd, path = tempfile.mkstemp(suffix='.dlis')
    os.close(fd)
    try:
        with _quiet():
            df.write(path, output_chunk_size=2 ** 20, **kwargs)
        with open(path, 'rb') as f:
            return f.read()
    finally:
        os.remove(path)


def _decode(bts, fn):
    """Load the bytes with dlisio, return fn(logical_file)."""

    fd, path = tempfile.mkstemp(suffix='.dlis')
    os.close(fd)
    try:
        with open(path, 'wb') as f:
            f.write(bts)
        with dlisio.dlis.load(path) as (lf, *_):
            return fn(lf)
    finally:
        os.remove(path)


def _channels(f):
    return sorted((c.name, c.copynumber, list(c.dimension), list(c.element_limit), c.reprc) for c in f.channels)


def _base():
    df = DLISFile()
    lf = df.add_logical_file()
    lf.add_origin('O', file_set_number=5, creation_time=T)
    return df, lf


# ---------------------------------------------------------------------------------------------------------------------
def finding_1(verbose=False):
    """add_channel(data=..., dataset_name=<unhashable>) raises AFTER the channel registered itself with its set."""

    def build(with_rejected_call):
        df, lf = _base()
        exc = None
        if with_rejected_call:
            try:
                lf.add_channel('X', data=np.arange(10.), dataset_name=['x'])  # wrong type -> TypeError
            except TypeError as e:
                exc = e
        d = lf.add_channel('DEPTH', data=np.arange(10.))
        x = lf.add_channel('X', data=np.arange(10.) * 2)
        lf.add_frame('FR', channels=(d, x), index_type='BOREHOLE-DEPTH')
        return df, x, exc

    df_a, x_a, exc = build(True)
    df_b, x_b, _ = build(False)
    a, b = _write(df_a), _write(df_b)
    ch_a, ch_b = _decode(a, _channels), _decode(b, _channels)
    if verbose:
        print('   rejected call raised:', repr(exc))
        print('   copy number of the channel X added afterwards:', x_a.copy_number, 'vs fresh:', x_b.copy_number)
        print('   channels in file after rejected call:', [c[:2] for c in ch_a])
        print('   channels in fresh file              :', [c[:2] for c in ch_b])
    return exc is not None and a != b and len(ch_a) == 3 and len(ch_b) == 2 and x_a.copy_number == 1


# ---------------------------------------------------------------------------------------------------------------------
def finding_2(verbose=False):
    """A write refused because of a channel's DIMENSION leaves ELEMENT-LIMIT = that DIMENSION behind."""

    def build(dim):
        df, lf = _base()
        d = lf.add_channel('DEPTH', data=np.arange(10.))
        lf.add_frame('FR', channels=(d,), index_type='BOREHOLE-DEPTH')
        ax = lf.add_axis('AX', coordinates=[1., 2., 3.])
        ch = lf.add_channel('EXTRA', dimension=[dim], axis=[ax])  # (a channel which is in no frame)
        return df, ch

    df_a, ch = build(5)
    exc = None
    try:
        _write(df_a)  # refused: 3 coordinates in the axis vs dimension 5
    except RuntimeError as e:
        exc = e
    ch.dimension.value = [3]  # the cause is removed
    a = _write(df_a)
    b = _write(build(3)[0])  # fresh specification with dimension 3
    ch_a, ch_b = _decode(a, _channels), _decode(b, _channels)
    if verbose:
        print('   write raised:', repr(exc))
        print('   after failed write + fix:', [c for c in ch_a if c[0] == 'EXTRA'])
        print('   fresh specification     :', [c for c in ch_b if c[0] == 'EXTRA'])
    return exc is not None and a != b and ch_a != ch_b


# ---------------------------------------------------------------------------------------------------------------------
def finding_3(verbose=False):
    """A write refused because of the index channel derives DIMENSION / ELEMENT-LIMIT / REPRESENTATION-CODE of that
    channel; they stay once the channel has been taken out of the frame (the cause removed)."""

    def build():
        df, lf = _base()
        a = lf.add_channel('A', data=np.arange(20.).reshape(10, 2))
        x = lf.add_channel('X', data=np.arange(10.))
        fr = lf.add_frame('FR', channels=[a, x], index_type='TIME')
        return df, fr, x

    df_a, fr, x = build()
    exc = None
    try:
        _write(df_a)  # refused: a 2-D channel cannot be the index
    except RuntimeError as e:
        exc = e
    fr.channels.value = [x]  # the cause is removed: A is no longer in the frame
    a = _write(df_a)

    df_b, fr_b, x_b = build()
    fr_b.channels.value = [x_b]
    b = _write(df_b)

    ch_a, ch_b = _decode(a, _channels), _decode(b, _channels)
    if verbose:
        print('   write raised:', repr(exc))
        print('   after failed write + fix:', [c for c in ch_a if c[0] == 'A'])
        print('   fresh specification     :', [c for c in ch_b if c[0] == 'A'])
    return exc is not None and a != b and ch_a != ch_b


# ---------------------------------------------------------------------------------------------------------------------
def finding_4(verbose=False):
    """A rejected set_attributes() call (assignment) is applied in part: the accepted parts stay and are written."""

    def build(with_rejected_calls):
        df, lf = _base()
        d = lf.add_channel('DEPTH', data=np.arange(10.))
        lf.add_frame('FR', channels=(d,), index_type='BOREHOLE-DEPTH')
        z = lf.add_zone('Z', description='OLD', domain='TIME')
        ax = lf.add_axis('AX', spacing={'value': 1.0, 'units': 'm'})
        excs = []
        if with_rejected_calls:
            try:
                z.set_attributes(description='NEW', domain='NOPE')  # value outside the enumeration
            except ValueError as e:
                excs.append(e)
            try:
                ax.set_attributes(spacing={'value': 2.0, 'units': 5})  # wrong type of the units
            except TypeError as e:
                excs.append(e)
        return df, excs

    df_a, excs = build(True)
    a = _write(df_a)
    b = _write(build(False)[0])

    def get(f):
        return f.object('ZONE', 'Z').description, f.object('AXIS', 'AX').spacing

    va, vb = _decode(a, get), _decode(b, get)
    if verbose:
        print('   rejected calls raised:', [repr(e) for e in excs])
        print('   (Z.DESCRIPTION, AX.SPACING) after rejected calls:', va, ' fresh:', vb)
    return len(excs) == 2 and a != b and va == ('NEW', 2.0) and vb == ('OLD', 1.0)


FINDINGS = [
    (finding_1, "add_channel(data=..., dataset_name=<unhashable, e.g. a list>) raises TypeError after the channel has "
                "registered itself: the ghost channel is written and the next 'X' gets copy number 1"),
    (finding_2, "a write refused for a frame-less channel's DIMENSION (axis coordinates mismatch) leaves "
                "ELEMENT-LIMIT = old DIMENSION, which is written once DIMENSION has been corrected"),
    (finding_3, "a write refused for a 2-D index channel leaves that channel's derived DIMENSION / ELEMENT-LIMIT / "
                "REPRESENTATION-CODE, written after the channel has been taken out of the frame"),
    (finding_4, "a rejected item.set_attributes(...) call is applied in part (earlier keywords / the 'value' part of "
                "a dict stay assigned) and the new values are written"),
]


if __name__ == '__main__':
    import sys
    verbose = '-v' in sys.argv
    for i, (fn, description) in enumerate(FINDINGS, start=1):
        try:
            violated = fn(verbose)
        except Exception as exc:  # a reproduction must not crash the run
            violated = False
            print(f"   (finding {i} crashed: {exc!r})")
        print(f"FINDING {i}: {description} -> {'VIOLATED' if violated else 'not reproduced'}")
