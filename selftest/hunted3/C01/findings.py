"""C01 (physical layout: label, visible records, segments) - hunt round 3.   (FINDINGS.md content lives here:
the tool refused to create the .md file.)

RESULT: NO FINDINGS.  No input, configuration or call sequence was found for which a *successful* DLISFile.write
(library as of 950dae5, unmodified) produces a file that violates the statement.  The __main__ part re-runs a condensed
sweep with an independent parser (chk.py) and prints `NO FINDINGS`.

WHY THE PROPERTY HOLDS (code reading)
* Every byte after the label goes through DLISWriter.write_logical_records (file/writer.py:215) ->
  LogicalRecordBytes.make_segments / make_segment (logical_record_bytes.py:44-136) -> _make_visible_record
  (writer.py:167).  Exactly one segment per visible record; VR length = segment length + 4.
* make_segment pads bodies shorter than 12 up to 12 and odd totals to even, sets the pad bit iff n_pad > 0, every pad
  byte holds the count (max 12).  make_segments never leaves a tail of 1..11 bytes (it shortens the current segment;
  with capacities 12..22 the shortened segment is < 12 and gets padded).  Segment body <= max-8 (even), so the pad
  byte of an odd body always fits.  Bits 3-6 (encryption, encryption packet, checksum, trailing length) are constant
  False in SegmentAttributes.  First/last bits come from start_pos == 0 / end_pos == size.
* _check_visible_record_length accepts only int, even, 20..16384 (bool is < 20; numpy ints, floats, text are refused
  before the file is opened).  The same number goes to the label (str(int), right-justified in 5).
* The label is checked at write time (_check_sequence_number, get_ascii_bytes length checks, .encode('ascii'))
  before ByteWriter.write_bytes is called; 4+5+6+5+60 = 80 always.
* ByteWriter opens with 'wb' for the first flush of each write (new ByteWriter per write) -> an older, longer file is
  truncated; later flushes 'ab'.  BufferedOutput flushes whenever the next VR does not fit; chunk size >= max VR
  length is enforced, so a VR is never split or dropped.
* Nothing in the write path swallows exceptions, so there is no "successful" write after an internal error.

ATTACK IDEAS TRIED (all: property held, or the write was refused / raised)
Segmentation (own parser chk.py; re-assembled bodies compared with the bodies handed to make_segments, captured through
verif_taps.lr_sinks, and files opened with dlisio):
 1. Every body length L = k*(max-8)+d, k = 0..4, |d| <= 30, odd and even, random bytes, EFLR and IFLR, for every even
    max record length 20..78 and 126,128,130,254,256,258,1000,8192,16384 (DLISWriter + LogicalRecordBytes directly).
 2. The same through the public API: no-format payloads of size k*(max-8)+d-4 (OBNAME is 4 bytes), max 20..46,100,8192.
 3. Capacities 12..22 (max 20..30), where the ">= 12 left for the next segment" rule makes the *current* segment < 12.
 4. Payload lengths 0 and 1 ('' and b'') -> bodies of 4/5 bytes, pad counts 8/7.
 5. output_chunk_size == max record length, == max+1 (odd), 3*max+7, float (float(mrl), 1e5), large.
 6. max 20 with rows of 1001 bytes; the complete examples/create_synth_dlis.py file (324 records, every object type)
    for max = 20,22,36,64,100,1000,8192,16384 x input_chunk_size None/1/7.
 7. Three logical files in one file, equally named objects in each, with and without high-compatibility mode.
 8. Zero-width channel (shape (n,0)): frame data body is only OBNAME+number -> padded; zero rows -> write refused.
 9. Row windows (from_idx, to_idx) with input_chunk_size=1.
10. Payload types np.bytes_, np.str_, str subclass, bytes with 0xFF / NUL.
11. A large file overwritten by a small one at the same path (truncation); one DLISFile written to two paths
    (str, pathlib.Path) -> byte-identical.
12. A failed write (non-ASCII no-format text -> UnicodeEncodeError in mid-file) followed by a corrected write to the
    same path.
13. Six threads writing six DLISFile objects with different max lengths / chunk sizes concurrently.
14. bytes file name: file complete and well-formed; write then raises TypeError from the closing log line
    (Path(bytes)) - not a layout problem.
15. Record count announced to progressbar vs. records generated (empty sets, file-header set) - consistent.
16. Bodies ending in 0x01 / in bytes that look like a pad count (random-bytes sweep) - pad bit decides, no ambiguity.
17. Logical record type / EFLR bit per set class against RP66 Appendix A (22 set types + FDATA/NOFMT) - correct;
    LRMeta per-class cache of the type byte (FDATA = b'\x00' is truthy as bytes) - correct.
Storage unit label:
18. max record length 20, 22, 16384 written right; 21, 18, 16386, True, 8192.0, '8192', np.int64 refused before the
    file is opened.
19. Sequence number as int, np.int64, IntEnum member, text '0007' / '12', 9999 written right; refused: 0, -1, 10000,
    '00001', True, 1.0, ' 1', '1_0', non-ASCII digits (nothing written).
20. Set identifier '', 60 characters, leading blanks, TAB/LF/NUL (ASCII, written verbatim); 61 characters and non-ASCII
    refused before anything is written; identifier re-assigned later is validated in __setattr__.
21. Label object modified between two writes (max_record_length=20, sequence_number='42', new identifier): second file
    follows the new values, VRs <= 20.
22. StorageUnitLabel object given together with the keyword values (see the observation below).
23. DLISWriter misuse through the low-level API (label's maximum different from the writer's, two labels, records
    before the label -> RuntimeError): only reachable by by-passing DLISFile.write; not counted.
24. make_segments with an odd capacity: docstring announces the extra pad byte; DLISWriter only passes even ones.
25. output_chunk_size = True, negative, nan, inf, fractional, numpy int -> refused (the truncation of the target by such
    a refused write is on the known list); 0 / 0.0 / None fall back to 2**32 (slow, not wrong).
26. High-compatibility mode around build + write: only affects validation of names, not the layout.
27. Second write of one DLISFile (example file): refused because of the kept DIMENSION (known item); no layout effect.

OBSERVATION, NOT COUNTED AS A VIOLATION
DLISFile(storage_unit_label=StorageUnitLabel('ABC', 5, 200), set_identifier='OTHER', sul_sequence_number=9,
max_record_length=1000) silently ignores the three keyword values (file.py:43-57, _set_up_sul_or_fh uses the kwargs
only when no item is given): the label reads b'   5V1.00RECORD  200ABC ...'.  The file is self-consistent (VRs <= 200)
and the keywords are documented as the way to build a label when none is passed, so this is an API ambiguity rather
than a layout defect.
"""
import io
import logging
import os
import random
import sys
import tempfile

sys.path.insert(0, os.path.dirname(os.path.abspath(__file__)))
logging.disable(logging.CRITICAL)

import numpy as np  # noqa: E402
from chk import check_layout  # noqa: E402  (own parser of the output bytes)


def _quiet(func, *a, **kw):
    """Run func with the progress bar output discarded."""
    old = sys.stderr
    sys.stderr = io.StringIO()
    try:
        return func(*a, **kw)
    finally:
        sys.stderr = old


def sweep_low_level(tmp):
    """All body lengths L = k*(max-8)+d, |d| <= 14, k = 0..3, for small and large max record lengths."""
    from dliswriter.logical_record.core.logical_record.logical_record_bytes import LogicalRecordBytes
    from dliswriter.file.writer import DLISWriter
    from dliswriter import StorageUnitLabel

    class R:
        def __init__(s, b, e, t):
            s.b, s.e, s.t = b, e, t

        def represent_as_bytes(s):
            return LogicalRecordBytes(s.b, bytes([s.t]), s.e)

    rnd = random.Random(1)
    bad = []
    for mrl in list(range(20, 52, 2)) + [256, 8192, 16384]:
        cap = mrl - 8
        ls = sorted({k * cap + d for k in range(4) for d in range(-14, 15) if k * cap + d > 0})
        recs = [R(rnd.randbytes(L), rnd.random() < .5, rnd.randrange(12)) for L in ls]
        for ocs in (mrl, mrl + 1, 2 ** 16):
            w = DLISWriter(tmp, visible_record_length=mrl)
            w.write_storage_unit_label(StorageUnitLabel('X', 1, mrl))
            _quiet(w.write_logical_records, recs, output_chunk_size=ocs)
            pr, got = check_layout(tmp, 1, mrl, 'X')
            if pr or got != [(r.e, r.t, r.b) for r in recs]:
                bad.append((mrl, ocs, pr[:3]))
    return bad


def sweep_public_api(tmp):
    """Several logical files, odd-width channels, no-format payloads around the capacity, label variants."""
    from dliswriter import DLISFile, StorageUnitLabel, high_compatibility_mode

    def mk(**kw):
        df = DLISFile(**kw)
        mrl = df.storage_unit_label.max_record_length
        for i in range(2):
            lf = df.add_logical_file(fh_id=f'LF{i}', fh_sequence_number=i + 1)
            s = f'S{i}'
            lf.add_origin(f'O{i}', set_name=s)
            cs = [lf.add_channel('IDX', data=np.arange(3.), set_name=s),
                  lf.add_channel('W', data=np.arange(3 * 37, dtype=np.uint8).reshape(3, 37), set_name=s)]
            lf.add_frame('F', channels=cs, set_name=s)
            nf = lf.add_no_format('N', set_name=s)
            for k in range(3):
                for d in range(-13, 14):
                    if k * (mrl - 8) + d - 4 >= 0:
                        lf.add_no_format_frame_data(nf, b'x' * (k * (mrl - 8) + d - 4))
        return df

    bad = []
    cases = [dict(max_record_length=20), dict(max_record_length=22), dict(max_record_length=16384),
             dict(set_identifier='', sul_sequence_number='0007'), dict(set_identifier='x' * 60, sul_sequence_number=9999),
             dict(sul_sequence_number=np.int64(12), max_record_length=30),
             dict(storage_unit_label=StorageUnitLabel('ABC', 5, 200))]
    for hc in (False, True):
        for kw in cases:
            if hc:
                if kw.get('set_identifier', 'A') != 'A':
                    continue
                with high_compatibility_mode():
                    df = mk(**kw)
                    _quiet(df.write, tmp, output_chunk_size=2 ** 15)
            else:
                df = mk(**kw)
                _quiet(df.write, tmp, output_chunk_size=2 ** 15)
            sul = df.storage_unit_label
            pr, _ = check_layout(tmp, sul.sequence_number, sul.max_record_length, sul.set_identifier)
            if pr:
                bad.append((hc, kw, pr[:3]))
    return bad


if __name__ == '__main__':
    os.dup2(os.open(os.devnull, os.O_WRONLY), 2)  # the progress bar writes to the original stderr
    fd, tmp = tempfile.mkstemp(suffix='.dlis')
    os.close(fd)
    try:
        bad = sweep_low_level(tmp) + sweep_public_api(tmp)
    finally:
        os.remove(tmp)
    if bad:
        for b in bad:
            print('UNEXPECTED PROBLEM', b)
    else:
        print('NO FINDINGS')
