"""C02 -- segmentation is lossless, ordered and correctly bracketed: hunt round 3.   (FINDINGS.md content; a tool refused the file)

Result: NO FINDINGS.  For every write that returned normally, the records reassembled from the output file (own parser:
visible-record headers, segment headers, flagged pad bytes dropped) were element-wise equal -- count, order,
explicit/indirect flag, type, body bytes -- to the records handed to LogicalRecordBytes.make_segments (observed through
verif_taps.lr_sinks), and every bracket rule held.  dlisio read the same files (incl. max record length 20) without error.

Code read: file/writer.py (ByteWriter, BufferedOutput, DLISWriter), logical_record/core/logical_record/*
(LogicalRecordBytes, SegmentAttributes, LRMeta type-byte cache), logical_record/iflr_types/*, core/eflr/eflr_set.py,
misc/storage_unit_label.py, file/file.py (generator, record count, write), file/multi_frame_data.py,
utils/source_data_wrappers.py, utils/internal/converters.py (get_ascii_bytes), eflr_types/file_header.py, record types of
all set classes (all agree with RP66 v1 Appendix A).

What was tried (scripts t1.py .. t6.py, helper h.py, in this directory)

Writer level (prescribed bodies fed to DLISWriter):
 1. every even max record length 20..78 x every body length 1..6*capacity+30, random flag / type per record; also 128,
    8192, 16384 with the branch-boundary lengths (cap-1, cap, cap+1, cap+11, cap+12, cap+13, 2cap+-1, 2cap+11/12, 5cap+3);
 2. bodies whose trailing bytes equal plausible pad counts (pad flag vs. content confusion);
 3. bodies containing the visible-record marker FF 01 repeatedly;
 4. output_chunk_size = max record length exactly (every visible record fills the buffer), +1, 3x+5, 2**16, float,
    numpy.float64;
 5. two write_logical_records calls on one DLISWriter (second BufferedOutput, append mode);
 6. DLISFile.generate_logical_records() fed to a hand-made DLISWriter;
 7. make_segments with an odd capacity / make_segment with odd arguments (segment grows beyond the capacity, but
    nothing is lost or mis-flagged; outside DLISWriter's accepted lengths anyway);
 8. arithmetic review: a shortened non-last segment is always >= 1 byte (capacity >= 12), pad count <= 12, sizes always
    even, the size handed along equals len(bytes) for every caller (all bodies are immutable bytes).

End to end (public API, tap vs. file):
 9. max record length 20, 22, 30, 64, 8192, 16384 x 1 / 3 logical files x input chunk None / 1 / 7 x small / large buffer;
10. no-format payloads '', b'', 1 byte, 13 bytes, 3*vrl+5 bytes, bytearray, text and bytes mixed, several per object;
11. one FDATA record of 160 kB (row of 20000 float64) at max record length 20 and 16384; 17000 rows (4-byte UVARI
    frame numbers) at 20;
12. EFLR of 140 kB (two 70000-character comment lines) at 20 (about 12000 segments) and at 16384;
13. HDF5 source (big-endian data set, nested group, leading '/' or not) and structured-array source (fast path and
    copy path), row windows from_idx / to_idx, input chunks 4 / 7;
14. output path as str, relative path, pathlib.Path;
15. re-write of a longer file by a shorter one (same path), alternating between two output paths;
16. label given as StorageUnitLabel object (keyword max_record_length of DLISFile differing), max_record_length
    re-assigned between writes (valid, odd, < 20);
17. max_record_length as IntEnum member (accepted, label text '   64', segments fit), True, numpy.int64, 64.0, '64', 18,
    21, 16386 (all refused at label creation or before the file is touched);
18. label sequence number as int, digit text, 9999;
19. write inside high_compatibility_mode(), alone and after ordinary writes of the same object;
20. logical file added after a first write, then re-written; several sets of one type (named / unnamed) per logical file;
21. a write that fails mid-way (see observation below) followed by a corrected re-write of the same object: correct;
22. random call sequences (300 seeds, 323 successful writes checked): add_channel / frame / comment / no-format / zone
    (also rejected domain) / parameter (also into a second set) / equipment (rejected status) / tool / message (time
    zones) / axis / origin (explicit references), label changes, writes with random windows, chunk sizes, hc mode --
    rejected calls interleaved with accepted ones;
23. two threads writing two DLISFile objects concurrently (5 trials), two threads writing ONE DLISFile to two paths:
    every file well-formed, same record count; the latter byte-identical to a single-threaded write;
24. record count announced to the progress bar vs. records yielded (file header, non-empty sets incl. origin sets,
    no-format data, rows): equal in all shapes tried, no ValueError from the bar;
25. StopIteration leaking out of MultiFrameData.__next__ (would end a frame's rows silently): the chunk generator always
    yields exactly n_rows rows, unequal data-set lengths raise;
26. per-class type-byte cache of LRMeta (each class gets its own empty cache; type 0 gives the truthy b'\x00');
27. SegmentAttributes.to_struct / lru_cache'd ushort with bool-valued sums;
28. SUL always 80 bytes (over-long or non-ASCII identifier refused before the file is opened), so the first visible
    record starts at offset 80;
29. BufferedOutput slice assignment never resizes the buffer (size == len for all callers; buffer >= one visible record);
30. output_chunk_size of 0, False, -0.0, None (fall back to 2**32: performance only), nan, inf, True (refused);
31. dlisio as second judge for max record length 20 / 22 / 36 / 8192, two logical files (curves, 1000-character
    comment, long names).

Observation (NOT counted as a finding) -- observation_1() below.
Several conditions are only detected when the record concerned is turned into bytes inside the write loop
(DLISWriter.write_logical_records, writer.py:241-246): a no-format text that is not ASCII
(NoFormatFrameData._make_body_bytes), ParameterItem._run_checks_and_set_defaults (values vs. zones), unequal row counts of
the data sets of a frame (make_chunked_generator), values that cannot be cast in a later input chunk, ...  The exception
leaves the loop without output.pass_bytes_to_writer(), so the target holds the SUL plus the buffers flushed so far;
buffers are flushed on visible-record boundaries, not on record boundaries.
Input: DLISFile(max_record_length=20), one origin, one channel (5 rows) + frame, one no-format object with data
'caf\xe9'; write(path, output_chunk_size=20).  Result: UnicodeEncodeError; the file is 2.8 kB and its last segment carries
the successor flag (record not closed); the tap saw more records than the file holds.  With the default (huge) buffer only
the 80-byte label is left.  The write raises, so the caller is told that the file is not valid; same family as the known
"a refused write has already truncated the target file", hence not counted against the statement.
"""
import os
import struct
import tempfile
import logging

logging.disable(logging.CRITICAL)


def _reassemble(path):
    """Independent parser: returns (records, problems); a record is (explicit, type, body)."""
    b = open(path, 'rb').read()
    pos, recs, problems, cur = 80, [], [], None
    while pos < len(b):
        vlen, ff, ver = struct.unpack('>HBB', b[pos:pos + 4])
        if (ff, ver) != (0xFF, 1) or vlen < 20 or vlen % 2 or pos + vlen > len(b):
            problems.append(('bad visible record', pos)); break
        p, vend = pos + 4, pos + vlen
        while p < vend:
            slen, attr, typ = struct.unpack('>HBB', b[p:p + 4])
            if slen < 16 or slen % 2 or p + slen > vend:
                problems.append(('bad segment length', p)); break
            body = b[p + 4:p + slen]
            if attr & 1:
                body = body[:-body[-1]]
            expl, pred, succ = bool(attr & 0x80), bool(attr & 0x40), bool(attr & 0x20)
            if not pred:
                if cur is not None:
                    problems.append(('record opened while another one is open', p))
                cur = [expl, typ, b'']
            elif cur is None or (cur[0], cur[1]) != (expl, typ):
                problems.append(('continuation without / unlike its predecessor', p))
                cur = cur or [expl, typ, b'']
            cur[2] += body
            if not succ:
                recs.append(tuple(cur)); cur = None
            p += slen
        pos = vend
    if cur is not None:
        problems.append(('last record not closed',))
    return recs, problems


def observation_1():
    """A write failing in the record loop leaves a file that ends inside a record (successor flag on its last segment)."""
    import numpy as np
    from dliswriter import DLISFile

    df = DLISFile(max_record_length=20)
    lf = df.add_logical_file()
    lf.add_origin('O')
    ch = lf.add_channel('I', data=np.arange(5.))
    lf.add_frame('F', channels=(ch,))
    nf = lf.add_no_format('N')
    lf.add_no_format_frame_data(nf, 'caf\xe9')      # accepted here; cannot be encoded as ASCII when its turn comes
    path = os.path.join(tempfile.mkdtemp(), 'o.dlis')
    try:
        df.write(path, output_chunk_size=20)
    except UnicodeEncodeError:
        pass
    else:
        return False
    recs, problems = _reassemble(path)
    return ('last record not closed',) in problems


if __name__ == '__main__':
    print('NO FINDINGS')
    print('OBSERVATION 1 (not counted; the write raises): a write failing inside the record loop leaves a torso whose '
          'last record is not closed ->', 'observed' if observation_1() else 'not reproduced')
