"""Hunt round 3, property C03 (channel data round-trips bit-exactly, one numbered record per row).

Run:  cd /tmp/hunt3/C03 && PYTHONPATH=/tmp/hunt3/C03/src /venv/bin/python findings.py      (0.4 s)

(FINDINGS.md could not be created by the tooling; this docstring is its content.)

Tree: 950dae5.  Judge: the small RP66 V1 reader below (visible records -> segments -> flagged padding -> logical
records -> FDATA obname / frame number / slot bytes); it shares no code with dliswriter or dlisio.

Result: ONE root cause, two manifestations (finding_1, finding_2).  Both need an unusual - but accepted - argument
form: the row window given as numpy integer scalars of DIFFERENT width.  Everything else that was tried held.

FINDING 1 - structured-array source: 30 records for 100 rows, no error
    data = np.zeros(300, dtype=[('A', '<u2')]); data['A'] = np.arange(300)
    df = DLISFile(); lf = df.add_logical_file(); lf.add_origin('O')
    ch = lf.add_channel('A'); lf.add_frame('F', channels=(ch,))
    df.write(path, data=data, from_idx=np.uint8(200), to_idx=np.int64(300), input_chunk_size=70,
             output_chunk_size=2**20)
  Required: 100 FDATA records of frame F, numbered 1..100, holding input rows 200..299, whatever the input chunk size
  and source kind (from_idx=200, to_idx=300 as Python ints gives exactly that: the control inside finding_1).
  Observed: the write succeeds (numpy only emits "RuntimeWarning: overflow encountered in scalar add"); the file holds
  30 FDATA records numbered 1..30 holding input rows 270..299.  Rows 200..269 are lost and row 270 is "frame 1".
  Why:
   * SourceDataWrapper.__init__ (utils/source_data_wrappers.py:82-84) keeps from_idx / to_idx as given;
     n_rows = to_idx - from_idx = np.int64(100).
   * NumpyDataWrapper.load_chunk, fast path (source_data_wrappers.py:382-386), returns
     self._data_source[self._from_idx + start:self._from_idx + stop]; make_chunked_generator (:253-259) passes Python
     ints for the full chunks, so np.uint8(200) + 70 is evaluated in uint8 (NEP 50) and wraps to 14: chunk 1 is
     data[200:14] = no rows.  The remainder chunk starts at n_full_chunks * chunk_rows = np.int64(70) -> int64
     arithmetic -> data[270:300], correct.
   * nothing compares the number of rows of a chunk with the number asked for, and MultiFrameData.__next__
     (file/multi_frame_data.py:85-90) calls next(self._data_item_generator) unguarded: when the data generator runs
     dry after 30 rows its StopIteration leaves __next__ and ENDS THE FRAME SILENTLY, although len(mfd) - and the count
     given to the progress bar - is 100.

FINDING 2 - same root cause, dict / add_channel source: right count, wrong content, depends on input_chunk_size
    A = np.arange(187, dtype=np.uint16)
    ch = lf.add_channel('A', data=A); lf.add_frame('F', channels=(ch,))
    df.write(path, from_idx=np.int8(100), to_idx=np.int16(187), input_chunk_size=70, output_chunk_size=2**20)
  Required: 87 records holding rows 100..186.  WITHOUT input_chunk_size this very call writes exactly that (control
  inside finding_2), so the outcome depends on the input chunk size, which C03 quantifies over.
  Observed with input_chunk_size=70: 87 records numbered 1..87, records 1..70 ALL hold input row 100, records 71..87
  hold rows 170..186.  No exception.
  Why: base SourceDataWrapper.load_chunk (source_data_wrappers.py:208-215):
  idx = slice(self._from_idx + start, self._from_idx + stop); np.int8(100) + 70 wraps to -86, A[100:-86] == A[100:101]
  is ONE row and `chunk[key] = values` broadcasts it into the 70 rows of the chunk (the same-number-of-rows check of
  make_chunked_generator looks at shape[0] of the whole data sets, not at what a chunk slice returns).  With most
  other numbers the wrapped slice has 0 or k != 1 rows and numpy refuses ("could not broadcast input array from shape
  (0,) into shape (70,)") - after the output file has been started.

Responsible code: source_data_wrappers.py:82-95 (window kept in the caller's integer type), :208 and :386 (chunk
bounds computed in that type), :211-215 (no check that the slice has n_rows rows; broadcast), multi_frame_data.py:85-90
(StopIteration of the data generator swallowed).  int(operator.index(...)) on both arguments in
SourceDataWrapper.__init__ removes all of it; a row-count check in load_chunk / a guarded next() in
MultiFrameData.__next__ would turn any short chunk into an error instead of a short frame.

Caveat: same-typed numpy scalars (np.int64 from np.searchsorted, two elements of one array) cannot overflow because
from_idx + stop <= to_idx; Python ints cannot; a Python-int to_idx (or None) with a narrow numpy from_idx raises
OverflowError (refusal).  The violation needs a narrow numpy from_idx AND a wider numpy to_idx AND an input_chunk_size
smaller than the window.

TRIED AND HELD (stress.py: 150 seeds x 3 writes; stress2.py: 200 seeds x 3 writes; t1..t7.py; judge h.py decodes every
frame with the REPRESENTATION-CODE / DIMENSION found in the CHANNEL set and compares bits):
 1. 8 dtypes x C / Fortran / strided / reversed / read-only / 0-stride broadcast / unaligned / big-endian arrays, random
    bit patterns (NaN payloads, signalling NaNs, -0.0, extremes), scalar, width 1, 2..40, 20000
 2. 1..3 logical files x 1..3 frames x 1..5 channels, named sets, record lengths 20..16384, output chunk 2**15..2**20,
    input chunk None/1/2/3/5/7/1000, row windows (Python ints and np.int64)
 3. write -> mutate -> write -> mutate -> write: frame channels shuffled / dropped / moved to another frame
 4. channel and frame renamed between writes (obname cache)
 5. cast_dtype set / removed / given as type, dtype, big-endian dtype between writes
 6. second write with data= of another dtype and width (derived DIMENSION / ELEMENT-LIMIT / REPR-CODE re-derived), third
    write back to the add_channel data
 7. write refused in the middle of the frame data (NaN under an int cast in chunk 3), cast changed, rewritten
 8. structured source: recarray; 9. field titles; 10. align=True padding and extra fields; 11. fields in another order;
 12. multi-field view reversed; 13. big-endian sub-array fields, strided rows; 14. several frames taking subsets of one
    array; 15. cast equal to the source dtype (fast path) in native / big-endian / type form
 16. dict source with np.matrix (N,1)/(N,4), unrelated extra keys, dataset_name mappings incl. 'g/d' names
 17. HDF5: nested groups, leading '/', big-endian, gzip+chunked, (N,1), pathlib path, two frames from one file, windows
 18. three writes in a row from dict / structured / HDF5 sources with mutations in between
 19. one channel in two frames of a logical file
 20. two frames of one name in one set (copy numbers in the FDATA obnames); "equivalent frames" (DEPTH/RPM/AMP twice
    with copy numbers, different dtypes / widths / casts, mixed across frames)
 21. channels and frame created before the origin; origin reference 20000 (4-byte UVARI in every obname)
 22. 300 channels in one frame at record length 200; 23. 40000 rows (4-byte frame numbers)
 24. high-compatibility mode write; two DLISFile objects whose record generators are consumed interleaved
 25. explicit dimension / element_limit forms against scalar and 2-D data
 26. numpy dtype equality corner cases (byte order, titles, offsets, padding, (1,) sub-arrays) cannot route a non-native
    or re-ordered source into the fast path; union / sub-array / str / Python types as cast_dtype are refused
 27. blank channel name (numpy renames the field to 'f0'), same channel twice / two same-named channels in one frame,
    data sets of different lengths, to_idx 0 / negative / float, uint64+int64 window: all refused
 28. LRU caches of struct_writer, obname cache invalidation, tiny (< 12 byte, padded) FDATA bodies: no effect on data
"""

import logging
import os
import struct
import tempfile
import warnings

import numpy as np

logging.disable(logging.CRITICAL)

from dliswriter import DLISFile  # noqa: E402
import dliswriter.file.writer as _w  # noqa: E402

_w.progressbar = lambda it, **kw: it  # (keep the output of this script to one line per finding)


# ------------------------------------------------------------------ independent reader
def _uvari(b, p):
    c = b[p]
    if c < 0x80:
        return c, p + 1
    if c < 0xC0:
        return struct.unpack('>H', b[p:p + 2])[0] & 0x3FFF, p + 2
    return struct.unpack('>I', b[p:p + 4])[0] & 0x3FFFFFFF, p + 4


def fdata_records(path):
    """-> [(frame name, frame number, slot bytes)] of all FDATA records, in file order."""
    b = open(path, 'rb').read()
    p, cur, out = 80, None, []
    while p < len(b):
        vl = struct.unpack('>H', b[p:p + 2])[0]
        assert b[p + 2:p + 4] == b'\xff\x01'
        q, end = p + 4, p + vl
        while q < end:
            sl, attr, typ = struct.unpack('>HBB', b[q:q + 4])
            body = b[q + 4:q + sl]
            if attr & 0x01:
                body = body[:-body[-1]]
            if not attr & 0x40:
                cur = [bool(attr & 0x80), typ, b'']
            cur[2] += body
            if not attr & 0x20:
                if not cur[0] and cur[1] == 0:
                    r = cur[2]
                    _, i = _uvari(r, 0)         # origin
                    i += 1                      # copy number
                    name = r[i + 1:i + 1 + r[i]].decode()
                    i += 1 + r[i]
                    num, i = _uvari(r, i)
                    out.append((name, num, r[i:]))
                cur = None
            q += sl
        p = end
    return out


def _write(source_kind, from_idx, to_idx, input_chunk_size, n_total):
    """One frame 'F' with one scalar uint16 channel 'A' whose value in row i is i.  Returns the decoded column."""
    values = np.arange(n_total, dtype=np.uint16)
    df = DLISFile()
    lf = df.add_logical_file()
    lf.add_origin('O')
    if source_kind == 'dict':
        ch = lf.add_channel('A', data=values)
        data = None
    else:
        ch = lf.add_channel('A')
        data = np.zeros(n_total, dtype=[('A', '<u2')])
        data['A'] = values
    lf.add_frame('F', channels=(ch,))
    path = os.path.join(tempfile.mkdtemp(prefix='c03_'), 'f.dlis')
    with warnings.catch_warnings():
        warnings.simplefilter('ignore')  # numpy only *warns* about the scalar overflow
        df.write(path, data=data, from_idx=from_idx, to_idx=to_idx, input_chunk_size=input_chunk_size,
                 output_chunk_size=2 ** 20)
    recs = fdata_records(path)
    assert all(name == 'F' for name, _, _ in recs)
    numbers = [num for _, num, _ in recs]
    column = [struct.unpack('>H', slots)[0] for _, _, slots in recs]
    return numbers, column


# ------------------------------------------------------------------ findings
def finding_1():
    """Structured-array source, rows 200..299 of 300 asked for with from_idx=np.uint8(200), to_idx=np.int64(300),
    input_chunk_size=70: the file holds 30 records (numbered 1..30, holding input rows 270..299) instead of 100."""

    expected = list(range(200, 300))

    # control: the same window with Python ints is written correctly
    numbers, column = _write('struct', 200, 300, 70, 300)
    assert numbers == list(range(1, 101)) and column == expected

    numbers, column = _write('struct', np.uint8(200), np.int64(300), 70, 300)
    violated = (numbers, column) != (list(range(1, 101)), expected)
    if violated:
        finding_1.evidence = f"{len(numbers)} records, numbers {numbers[0]}..{numbers[-1]}, " \
                             f"values {column[0]}..{column[-1]} (expected 100 records, values 200..299)"
    return violated


def finding_2():
    """Dict / add_channel source, rows 100..186 of 187 asked for with from_idx=np.int8(100), to_idx=np.int16(187):
    with input_chunk_size=70 the first 70 records all hold input row 100; without input_chunk_size the file is right."""

    expected = list(range(100, 187))

    # control: the very same numpy scalars, one chunk -> correct
    numbers, column = _write('dict', np.int8(100), np.int16(187), None, 187)
    assert numbers == list(range(1, 88)) and column == expected

    numbers, column = _write('dict', np.int8(100), np.int16(187), 70, 187)
    violated = numbers == list(range(1, 88)) and column != expected
    if violated:
        finding_2.evidence = f"records 1..70 hold {sorted(set(column[:70]))}, records 71..87 hold " \
                             f"{column[70]}..{column[-1]} (expected 100..186)"
    return violated


FINDINGS = [
    (finding_1, "row window given as numpy scalars of different width (from_idx=np.uint8(200), to_idx=np.int64(300)) "
                "with input_chunk_size=70 and a structured-array source: 30 frame-data records for 100 input rows, "
                "no error"),
    (finding_2, "same root cause, dict source (from_idx=np.int8(100), to_idx=np.int16(187), input_chunk_size=70): "
                "87 records, but the first 70 all repeat input row 100; correct without input_chunk_size"),
]

if __name__ == '__main__':
    for n, (func, description) in enumerate(FINDINGS, start=1):
        try:
            result = func()
        except Exception as exc:  # noqa
            result = False
            description += f" [raised {type(exc).__name__}: {exc}]"
        print(f"FINDING {n}: {description} -> {'VIOLATED' if result else 'not reproduced'}")
        if result and getattr(func, 'evidence', None):
            print(f"    evidence: {func.evidence}")
