"""C04 - every explicitly formatted record decodes under the RP66 component grammar: NO FINDINGS (third round)

(FINDINGS.md could not be created by the tool; its content is this docstring.)

Run:  cd /tmp/hunt3/C04 && PYTHONPATH=/tmp/hunt3/C04/src /venv/bin/python findings.py [--borderline]

Worktree /tmp/hunt3/C04 at 950dae5; sources imported from /tmp/hunt3/C04/src (checked with dliswriter.__file__).

After reading the whole encoding path again and judging about 5 900 generated files (plus targeted scripts) with a
strict reader of my own and with dlisio, I found no input or sequence of public-API calls inside what the property
quantifies over (and outside the "already known" list) for which the library writes an explicitly formatted record that
violates the statement. This script re-runs a compact deterministic sample (0.5 s) and prints `NO FINDINGS`; a violation
would be printed as `FINDING <n>: ... -> VIOLATED`.

ORACLES (independent of the library)
* rp66.py (written for this round): SUL, visible records, segment headers / attribute bits / pad bytes / even and
  minimum lengths, re-assembly of logical records, and a strict EFLR parser: one set component (type, optional name),
  template (roles 001/010 only, non-empty unique labels), object components (descriptor exactly 0x70), at most
  |template| attribute components per object, absent = 0x00 exactly, count x values for every representation code 1..27
  (undefined codes rejected; STATUS 0/1; DTIME field ranges), "count > 0 announced but no value" rejected, no bytes left.
* model comparison (fuzz.compare, findings.judge): sets (type, name), number / order / OBNAME of objects per set,
  per attribute: absent iff value is None or an empty (flattened) list, count, representation code, units.
* dlisio with ErrorHandler(minor=RAISE, major=RAISE, critical=RAISE), touching every attribute of every object
  (400 fuzz seeds + the 22-type file): no complaint on any file my reader accepted.

WHY NOTHING WAS FOUND (code locations)
* core/attribute/attribute.py::_write_for_body/_write_values: the announced count and the encoded values both come
  from flatten_list(self._value); the announced code is the one used for encoding; write_struct either encodes exactly
  one value of that code or raises (code None -> AttributeError before any byte of the record exists).
* core/eflr/eflr_item.py::_make_attrs_bytes: `value is None or count == 0` -> 0x00 is the single guard against
  "announced then omitted"; every route to an empty value ([], (), [[]], in-place clear(), AttrSetup(value=[], units=..),
  units without value) reaches it, and it is evaluated after _run_checks_and_set_defaults.
* core/eflr/eflr_set.py: template from the first item, objects from every registered item; items register at the very
  end of a successful __init__; all items of a set are instances of one class with a fixed attribute order.
* logical_record_bytes.py: a body is complete before its first segment is made, short / odd bodies get counted pad
  bytes, remainders of 1..11 bytes are avoided; swept record lengths 20..138, 256, 1000, 16384 with the strict reader.
* struct_writer.py: every encoder yields exactly one element of its code (lengths of IDENT / ASCII are taken from the
  same string that is encoded; non-ASCII, > 255 characters, out-of-range integers, years outside 1900..2155 raise).

WHAT WAS TRIED (all without a violation)
Scripts in the worktree: t1.py..t5.py (targeted), fuzz.py (random multi-step API sequences, 2 500 seeds, 841 files
written), fuzz2.py (per-type adversarial values, 3 000 seeds, 5 071 files written, 54 000 add_* calls of which 15 900
were accepted), fuzz_dlisio.py (cross-check).
 1. One file with all 22 object types, every multiplicity class (unset, scalar, [], 1, 2, 130, 200 values, nested 2-3
    levels, tuples) and units, under record lengths 20..138 (step 2), 256, 1000, 8192, 16384.
 2. Empty object names (twice, copy numbers 0/1), 255-character names and set names, ' ' as set name, set_name=''
    together with the unnamed set, 70 000-character ASCII values, 20 000 / 16 384 values (4-byte UVARI count).
 3. 256 same-named objects (copy number 255); 257 is refused; 5 000 objects in two sets with record length 20.
 4. Units only (AttrSetup(None,'m'), {'units': 'm'}), units + empty list, units re-assigned after creation, units on
    REPRESENTATION-CODE, enum members / '' / None / 255 / 300 characters / non-text as units.
 5. Empty lists in every list attribute, [[]], [[], []], ragged nesting (refused where dimensions are checked,
    flattened with the right count elsewhere, e.g. MEASUREMENT of a calibration measurement).
 6. numpy scalars (float32/64, int8/16/64, uint8, bool_), Decimal, Fraction, complex, bool, bytes, range, set, ndarray,
    dict as values of every attribute of every type (fuzz2 candidate list of ~70 values, also wrapped in AttrSetup / dict).
 7. Mixed int / float / text / bool lists in Axis COORDINATES and Parameter VALUES, numeric-looking text, 2**31, -2**31,
    NaN, +-inf, -0.0, 1e39, 65535/65536, 255/256 in numeric / UVARI / UNORM / USHORT attributes (refused or grammatical).
 8. Date-times: naive, +14:00 (day before), 999 600 us, year 2155 / 1899 / 2156 through a zone offset, datetime subclass
    (refused where the code is inferred), both text formats, floats and float text in time attributes.
 9. References: object lists of mixed types incl. the file header, the origin and a frame through OBJREF, the same
    object 130 times, a group referring to itself / to other groups, Channel SOURCE = file header, plain text in SOURCE.
10. Origin references 0, 5, 200, 20 000, 2**30-1, True; explicit reference of an undefined origin (refused); two
    origins, second origin in a named set; objects (zone, parameter, channels, frame) created before the first origin.
11. Two and three logical files with their own set names, rejected add_origin / add_zone calls in between, renames,
    objects added after a first write, second write with another input chunk size.
12. Random multi-step sequences (fuzz.py): 1-3 logical files, 18 kinds of add_* calls with valid and invalid arguments,
    set_attributes with values / AttrSetup / dict of another attribute's kind, value = None, in-place pop / append /
    clear, renames to '' / duplicates, additions inside high_compatibility_mode(), 1-2 writes, record lengths 20..8192.
13. High-compatibility mode: whole file built and written inside the context, refused names followed by accepted ones.
14. File header: user-made FileHeaderItem (empty id, identifier ' ', sequence number 9 999 999 999); a non-header
    object given as file_header (refused at write with AttributeError); header of another logical file (refused).
15. Items built directly with eflr_types.ZoneItem(name, parent=<set of the file>, origin_reference=..) (written, with
    the right copy number); a channel used by two frames; frames without index type; 1-row data (no spacing).
16. copy.deepcopy(DLISFile) and pickle (both raise: EFLRSetsDict.__init__), DLISFile.logical_files holding one logical
    file twice (two grammatical copies).
17. Frame / channel attributes derived from data: unsigned / signed / float32 index, 2-d channels, explicit dimension /
    element limit, cast dtype on a channel outside any frame, index_min=AttrSetup(units='m') + derived value.
18. Cache in _write_struct: equal-but-different keys (0.0 / -0.0, 1 / 1.0 / True, RepresentationCode members vs ints)
    cannot change the length of an encoding.
19. Falsy values (0, 0.0, '', False, [0], [''], origin reference 0, dimension [0]) are written, not dropped.
20. encrypted='yes' (the documented text form is unreachable: refused by the numeric pre-check - not a C04 matter).
21. Zone MAXIMUM / MINIMUM of different kinds with and without DOMAIN; Message TIME float / aware date-time.
22. Calibration coefficient / measurement with equal, unequal (refused) and empty value lists; derived DIMENSION.
23. Parameter / Computation with 0-2 zones and scalar / nested / textual / empty values, explicit DIMENSION [].
24. Non-ASCII text and > 255 characters in IDENT positions (refused at write; nothing of the record concerned is
    produced).
25. Output options: output_chunk_size=2**20, input_chunk_size None / 1 / 2, max_record_length 20..16384.
26. 5 071 files of fuzz2 and 841 of fuzz.py compared attribute by attribute with the model after the write.

NOT COUNTED (by-hand manipulations outside what the property quantifies over; shown by `--borderline`)
Same family as the known "Attribute objects attached to items by hand":
* `del item.description` on the first object of a set: the template (taken from the first item's `attributes`, i.e.
  from __dict__; eflr_set.py::_make_template_bytes, eflr_item.py::attributes) has one label less than the other objects
  write components -> "more attribute components than template attributes".
* `item.parent.register_item(item)` called a second time: the object component is written twice.
"""

import logging
import os
import sys
import tempfile
from datetime import datetime, timezone, timedelta

import numpy as np

sys.path.insert(0, os.path.dirname(os.path.abspath(__file__)))
logging.disable(logging.CRITICAL)

import progressbar  # noqa: E402
progressbar.streams.wrap_stderr = lambda *a, **k: None  # keep the output quiet

from dliswriter import DLISFile, AttrSetup, eflr_types, high_compatibility_mode  # noqa: E402
import rp66  # noqa: E402

TMP = tempfile.mkdtemp(prefix='c04_findings3_')
STATS = {'written': 0, 'refused': 0}
_k = [0]


def _base(**kw):
    df = DLISFile(**kw)
    lf = df.add_logical_file()
    lf.add_origin('O', creation_time=datetime(2020, 1, 1))
    return df, lf


def _frame(lf, n=5, pref='C', **kw):
    c1 = lf.add_channel(pref + '1', data=np.arange(n, dtype=np.float64), set_name=kw.get('set_name'))
    c2 = lf.add_channel(pref + '2', data=np.arange(n * 3, dtype=np.float32).reshape(n, 3), set_name=kw.get('set_name'))
    return lf.add_frame(pref + 'FR', channels=(c1, c2), **kw), c1, c2


def _model(df):
    sets = []
    for lf in df.logical_files:
        for sd in lf._eflr_sets.values():
            for s in sd.values():
                if not s.n_items:
                    continue
                objs = []
                for o in s.get_all_eflr_items():
                    attrs = []
                    for a in o.attributes.values():
                        if a.value is None or a.count == 0:
                            attrs.append(None)
                        else:
                            attrs.append((a.label, a.count, a.representation_code.value, a.units or ''))
                    objs.append(((o.origin_reference, o.copy_number, o.name), attrs))
                sets.append((s.set_type, s.set_name or None, objs))
    return sorted(sets, key=lambda t: repr(t[:2]))


def judge(df, **kw):
    """Write and judge. Returns None (refused), True (violation) or False (fine)."""
    _k[0] += 1
    path = os.path.join(TMP, f'f{_k[0]}.dlis')
    try:
        df.write(path, output_chunk_size=2 ** 20, **kw)
    except Exception:
        STATS['refused'] += 1
        return None
    STATS['written'] += 1
    try:
        eflrs, _ = rp66.parse_file(path)
    except rp66.GrammarError as exc:
        return f'grammar: {exc}'
    got = sorted((e for e in eflrs if e['type'] != 'FILE-HEADER'), key=lambda e: repr((e['type'], e['name'])))
    mod = _model(df)
    if len(got) != len(mod):
        return f'{len(mod)} sets defined, {len(got)} written'
    for m, g in zip(mod, got):
        if (m[0], m[1]) != (g['type'], g['name']) or len(m[2]) != len(g['objects']):
            return f'set {m[:2]}: objects defined {len(m[2])}, written {len(g["objects"])}'
        for (name, mattrs), go in zip(m[2], g['objects']):
            if tuple(go['name']) != name or not (len(go['attrs']) == len(mattrs) == len(g['template'])):
                return f'object {name}: written as {go["name"]} with {len(go["attrs"])} attribute components'
            for ma, ga in zip(mattrs, go['attrs']):
                if (ma is None) != (ga is None):
                    return f'object {name}: absent/present mismatch {ma} {ga}'
                if ma is not None and ((ga['label'], ga['count'], ga['rc'], ga['units']) != ma or len(ga['value']) != ga['count']):
                    return f'object {name}: {ma} written as {ga}'
    return False


def attacks():
    """Yield (description, DLISFile, write kwargs)."""

    # 1. all 22 object types in one file, multiplicities none / scalar / [] / 1 / 2 / 200, nested, units, tiny records
    for vrl in (20, 22, 46, 8192):
        df, lf = _base(max_record_length=vrl)
        fr, c1, c2 = _frame(lf, index_type='BOREHOLE-DEPTH')
        ax = lf.add_axis('AX', axis_id='A1', coordinates=[1, 2.5, '3'], spacing=AttrSetup(2, 'm'))
        z = lf.add_zone('Z', description='', domain='TIME', maximum=datetime(2020, 1, 1), minimum='2019/01/01 00:00:00')
        z2 = lf.add_zone('Z', maximum=12, minimum=AttrSetup(1.5, 'm'))
        ln = lf.add_long_name('LN', general_modifier=['a', 'b'], quantity='q', conditions=[], source_part=('x',) * 200)
        p1 = lf.add_parameter('P', long_name=ln, values=[[1, 2], [3, 4]], zones=[z, z2], dimension=[2])
        lf.add_parameter('P', long_name='', values=['abc'])
        lf.add_parameter('', values=[[]])
        lf.add_computation('CP', values=[[[1, 2], [3, 4]]] * 2, zones=(z, z2), source=p1, properties=['AVERAGED'])
        eq = lf.add_equipment('EQ', status=np.bool_(True), eq_type='Tool', height=AttrSetup(1, 'm'), length={'units': 'm'})
        lf.add_tool('T', parts=[eq], status=False, channels=[c1], parameters=[p1])
        cc = lf.add_calibration_coefficient('CC', label='L', coefficients=[1, 2], references=[3, 4], plus_tolerances=None)
        cm = lf.add_calibration_measurement('CM', phase='BEFORE', measurement_source=c1, measurement=[[1, 2], [3]],
                                            sample_count=3, begin_time=12.5, maximum_deviation=[1, 2], standard=[1, 2])
        lf.add_calibration('CAL', calibrated_channels=[c1], coefficients=[cc], measurements=[cm], method='')
        g = lf.add_group('G', object_list=[c1, c2, p1, lf.file_header_item, lf.origins[0], fr], group_list=[])
        lf.add_group('G', group_list=[g] * 130)
        lf.add_message('M', message_type='Command', time=datetime(2020, 1, 1, tzinfo=timezone(timedelta(hours=14))), text=['a'] * 200)
        lf.add_comment('CMT', text=[''], set_name='x' * 255)
        nf = lf.add_no_format('NF', consumer_name='c')
        lf.add_no_format_frame_data(nf, b'')
        w = lf.add_well_reference_point('W', permanent_datum='pd', coordinate_1_value=0)
        lf.add_path('PA', frame_type=fr, well_reference_point=w, value=[c1, c2], time=0)
        lf.add_process('PR', status='COMPLETE', input_channels=[c1], comments=[])
        lf.add_splice('SP', output_channel=c1, input_channels=[c2], zones=[z])
        c1.source.value = lf.file_header_item
        c1.representation_code.units = 'm'
        yield f'all types, record length {vrl}', df, {}

    # 2. objects before the origin, explicit / large origin references, several origins, second origin set
    df = DLISFile()
    lf = df.add_logical_file()
    z = lf.add_zone('Z')
    lf.add_parameter('P', zones=[z], values=[1])
    _frame(lf)
    lf.add_origin('O', origin_reference=2 ** 30 - 1)
    lf.add_origin('O2', set_name='X', origin_reference=True)
    lf.add_zone('Z')
    yield 'objects before origin, origin reference 2**30-1', df, {}

    # 3. three logical files, rejected calls in between, renames, a second write after additions
    df = DLISFile(max_record_length=64)
    for i in range(3):
        lf = df.add_logical_file(fh_id=f'H{i}', fh_sequence_number=i + 1, fh_identifier=str(i))
        s = f'S{i}'
        try:
            lf.add_origin('O', file_number='x', set_name=s)
        except Exception:
            pass
        lf.add_origin('O', set_name=s, origin_reference=200 * i)
        fr, c1, c2 = _frame(lf, set_name=s)
        for bad in (dict(maximum=[1, 2]), dict(domain=5), dict(description=b'x')):
            try:
                lf.add_zone('Z', set_name=s, **bad)
            except Exception:
                pass
        z = lf.add_zone('Z', set_name=s)
        lf.add_zone('Z', set_name=s + 'B')
        z.name = 'R'
        lf.add_zone('Z', set_name=s)
    yield 'three logical files with rejected calls and renames', df, {}
    for lf in df.logical_files:
        s = lf.origins[0].parent.set_name
        lf.add_comment('LATE', text=['t'], set_name=s)
        lf.channels[0].long_name.value = 'changed'
        lf.frames[0].description.value = ''
    yield 'the same file written again after additions', df, {'input_chunk_size': 2}

    # 4. in-place edits, values set to nothing, units only, dict / AttrSetup forms re-assigned after creation
    df, lf = _base()
    _frame(lf)
    p = lf.add_parameter('P', values=[1, 2], zones=[lf.add_zone('A'), lf.add_zone('B')])
    p.values.value.clear()
    p.zones.value.clear()
    sp = lf.add_splice('S', zones=[lf.add_zone('A'), lf.add_zone('B')])
    sp.zones.value.append(sp.zones.value[0])
    sp.zones.value.append([sp.zones.value[0]])
    c = lf.add_comment('C', text=['a', 'b'])
    c.text.value.pop()
    e = lf.add_equipment('E', height=AttrSetup(1, 'm'))
    e.set_attributes(height={'units': 's'}, length={'value': 0}, weight=AttrSetup(units='kg'))
    e.trademark_name.value = ''
    fr = lf.frames[0]
    fr.direction.value = None
    fr.set_attributes(index_min=AttrSetup(units='m'))
    yield 'in-place edits / units only / None', df, {}

    # 5. high-compatibility mode with refused names in between
    with high_compatibility_mode():
        df = DLISFile()
        lf = df.add_logical_file()
        lf.add_origin('O')
        c = lf.add_channel('C1', data=np.arange(4.), cast_dtype=np.float64)
        lf.add_frame('FR', channels=[c], index_type='BOREHOLE-DEPTH')
        for nm in ('lower', 'OK', 'not ok', 'OK'):
            try:
                lf.add_zone(nm, maximum=1)
            except Exception:
                pass
        yield 'high-compatibility mode', df, {}

    # 6. extreme values which are either refused or written grammatically
    for label, kw in (('big int', dict(coordinates=[2 ** 31])), ('mixed', dict(coordinates=['a', 1])),
                      ('bool', dict(coordinates=[True])), ('long id', dict(axis_id='x' * 256)),
                      ('non-ascii', dict(axis_id='\xe9')), ('nan spacing', dict(spacing=float('nan'))),
                      ('numpy', dict(coordinates=[np.float64(1.5), 2], spacing=np.int8(-3)))):
        df, lf = _base()
        _frame(lf)
        try:
            lf.add_axis('A', **kw)
        except Exception:
            pass
        yield 'axis: ' + label, df, {}

    # 7. 256 same-named objects, user-made file header, item built directly in a set of the file
    df = DLISFile()
    fh = eflr_types.FileHeaderItem('', parent=eflr_types.FileHeaderSet(), sequence_number=9999999999, identifier=' ')
    lf = df.add_logical_file(file_header=fh)
    lf.add_origin('O')
    _frame(lf)
    for _ in range(255):
        z = lf.add_zone('Z')
    eflr_types.ZoneItem('Z', parent=z.parent, origin_reference=0, maximum=3)
    yield '256 same-named objects, own file header, direct item', df, {}


def borderline():
    """By-hand manipulations that break the grammar; outside the quantified domain (not counted)."""

    out = []
    df, lf = _base()
    _frame(lf)
    z = lf.add_zone('Z', maximum=3)
    lf.add_zone('Z2', maximum=3)
    del z.description  # the template is taken from the first object: 3 labels, the second object writes 4 components
    out.append(('del item.<attribute> on the first object of a set', judge(df)))
    df, lf = _base()
    _frame(lf)
    z = lf.add_zone('Z', maximum=3)
    z.parent.register_item(z)
    _k[0] += 1
    path = os.path.join(TMP, f'f{_k[0]}.dlis')
    df.write(path, output_chunk_size=2 ** 20)
    zs = [e for e in rp66.parse_file(path)[0] if e['type'] == 'ZONE'][0]
    out.append(('EFLRSet.register_item(item) called a second time: object component written twice',
                len(zs['objects']) == 2 and 'one object, two object components'))
    return out


if __name__ == '__main__':
    n = 0
    for desc, dlis_file, write_kwargs in attacks():
        verdict = judge(dlis_file, **write_kwargs)
        if verdict:
            n += 1
            print(f'FINDING {n}: {desc}: {verdict} -> VIOLATED')
    if not n:
        print(f'NO FINDINGS  ({STATS["written"]} files written and judged, {STATS["refused"]} writes refused)')
    if '--borderline' in sys.argv:
        for desc, verdict in borderline():
            print(f'NOT COUNTED (by-hand manipulation): {desc} -> {verdict or "no violation"}')
