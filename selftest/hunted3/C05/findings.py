r"""C05 (metadata fidelity) - third adversarial round.  (This docstring is the text meant for FINDINGS.md; the tool
refused to create that file.)

Worktree /tmp/hunt3/C05 at 950dae5; sources imported from /tmp/hunt3/C05/src (checked with dliswriter.__file__).
Judges: an independent RP66 v1 EFLR parser of the output bytes (scratch/h.py: visible records, segments incl. pad bytes,
set / template / object components, all representation codes the library emits) and dlisio 1.0.4.

Run as:
    cd /tmp/hunt3/C05 && PYTHONPATH=/tmp/hunt3/C05/src /venv/bin/python findings.py

=====================================================================================================================
RESULT
=====================================================================================================================
No NEW violation of the statement was found; this module prints NO FINDINGS.

Everything that did not round-trip fell into one of two groups:
  * a REFUSAL - an exception at assignment time or at write time (never a silently different file), or
  * a class on the task's "already known" list (column-major DIMENSION, numeric-looking text, units without a value,
    encrypted=0, DIMENSION kept from the first write, set_attributes partially applied, str() of arbitrary objects in
    identifier attributes, (str, Enum) members, ints above 2**53 in FDOUBL, DTIME sub-millisecond cut, ...).

All encoders on the attribute path turned out to be strict (struct range errors, encode('ascii'), 255-char check for
IDENT/UNITS, list/tuple refused for single-valued attributes); the only silent transformations are the documented ones
(float() / int() of integer-valued numbers, enum member -> its value, aware/naive date-time -> UTC, row-major
flattening); every write-time default is guarded by "is None" and re-derived on the next write through the
_assignments counters.

=====================================================================================================================
WHAT WAS TRIED (40 attack ideas; scripts in scratch/)
=====================================================================================================================
Value domains (t2.py, t3.py, t7.py, fz.py)
 1. Non-finite and signed-zero floats (nan, +-inf, -0.0) in every numeric attribute family: single NumericAttribute
    (Equipment, Path, Well-reference, Message), multivalued (Calibration-coefficient, channel MINIMUM/MAXIMUM-VALUE),
    multidimensional (Computation / Parameter VALUES), DTime-or-float (Zone, Calibration-measurement BEGIN-TIME), and
    user-assigned frame INDEX-MIN / SPACING (kept, not re-derived): all bit-exact.
 2. numpy scalars as values: float16/32/64, int8/16/32/64, uint8/16/64, bool_, str_ in numeric, integer-coded, status and
    text attributes: exact (float()/int()), or refused (numpy.float32 / numpy.int32 / numpy.str_ in PARAMETER / AXIS
    values: TypeError / ValueError).
 3. Python ints at and beyond code ranges: SLONG +-2**31, UVARI 127/128/16383/16384/2**30, UNORM 65535/65536, negative
    values in unsigned codes, ints mixed with floats ([2**31, 0.5] -> FDOUBL exact): exact or struct.error at write.
 4. bool in generic value lists ([True], [True, 2], [True, 2.5]), mixed text/number lists: write refused (no
    representation code), nothing written silently.
 5. Fraction, Decimal, int-valued floats for integer-coded attributes (file_number=5.0, dimension=[2.0], status=1.0);
    fractional ones refused (2.5, status="1").
 6. Text: length 0, 130, control characters (\x00, \n, \x7f), units of 200 characters, '' units; bytes refused.
 7. Date-times under TZ=America/New_York: naive, naive in the repeated hour with fold=0/1, naive in the DST gap, aware
    ZoneInfo with fold (New York, Auckland), an LMT zone with a seconds offset (Amsterdam 1901), the two string formats,
    years 1900 and 2155 with 999 ms: all the same UTC instant to the millisecond.
 8. Numeric text for DTime-or-float attributes ('12', '1.5e2'), bool for Zone maximum.
 9. Nested values: tuples vs lists vs mixed nesting, up to three levels, int / float / text leaves, with and without
    zones, with given / wrong / omitted dimension, with axis lists whose coordinate counts match / differ / are absent
    (fz2.py, 600 cases, two writes each): every written file has VALUES = row-major flattening, DIMENSION = given or
    derived, AXIS = the given references; all mismatches are refused.
10. Enum members vs strings for units, index type, properties, phase, domain, equipment type / location, process status,
    inside and outside high_compatibility_mode() (t6.py).

Assignment routes and call sequences (fz.py: 700 random op sequences with a shadow model, record lengths 20 ... 16384)
11. keyword / dict / AttrSetup / later .value + .units / .units first then .value / set_attributes, mixed on the same
    attribute, with writes in between and re-assignment to another kind (date-time <-> float).
12. Rejected assignments followed by further assignments and writes (model re-synchronised from the Python side only for
    the known partial value-then-units case).
13. Un-assigning through None where the converter allows it (IDENT attributes without converter, channel UNITS,
    .units = None), then re-assigning (t8.py, t5.py).
14. A write refused half-way (PARAMETER value 2**31, SAMPLE-COUNT 2**31), value corrected, written again: the final file
    carries exactly the current values; derived values of the refused write do not stick.
15. Two and more writes of an unchanged file: identical metadata (t1.py).
16. Objects of all 22 types created with a name only: no attribute present except the documented defaults (ORIGIN FILE-ID /
    FILE-SET-NUMBER / CREATION-TIME / FIELD-NAME, CHANNEL LONG-NAME / REPRESENTATION-CODE / DIMENSION / ELEMENT-LIMIT,
    FRAME SPACING / INDEX-MIN / INDEX-MAX), also in the second write.
17. A fully populated file (every attribute of every type, t4.py): every keyword lands under its standard label, all
    OBNAME / OBJREF references resolve in dlisio. (Two dlisio-side defects met on the way, not the library's:
    Splice.describe() raises KeyError, CalibrationCoefficient.describe() swaps the plus / minus captions.)
18. Frame index metadata units: taken from the index channel, followed through a swap of the channel order, removal of the
    channel's units, a user-assigned SPACING in between and new channel units (t5.py): user parts kept, derived parts
    re-derived each time.
19. Everything built and written inside high_compatibility_mode(), incl. second origin (FILE-SET-NUMBER 1, 2), 2-D uint16
    channel, AttrSetup(1, Unit.FOOT) spacing beside channel units 'm'.
20. PATH objects (the docs call them troublesome): all 11 attributes incl. multivalued VALUE and units decode in dlisio.
21. copy.deepcopy(DLISFile) to get "a second file in the process": refused (EFLRSetsDict.__init__ TypeError).

Code reading (no script needed, or covered by the scripts above)
22. write_struct memo (lru_cache(typed=True) + sign of floats; references and date-times bypass it): no two reachable
    values that compare equal, share a type and encode differently (only Decimal('1.0') vs Decimal('1.00') through an
    identifier attribute without converter - the known str() class).
23. Representation code missing (None) with a value present: every path ends in an exception, none in a component without
    a code.
24. Count / value consistency: empty lists, [[]], single-valued attributes given sequences, multivalued given a scalar or a
    string.
25. All "if not x" / truthiness tests on user values (0, 0.0, False, '', [], [0]) in attribute.py, subtypes.py,
    eflr_item.py, channel.py, frame.py, parameter.py, computation.py, origin.py, file.py.
26. Every place where the library assigns an attribute itself (grep ".value ="): all guarded by "is None" and tracked
    (_derived_from_data, _assignments), incl. the order "derive, then record" when the assignment raises in
    high-compatibility mode.
27. NumericAttribute choosing the int / float parser from the code inferred from the OLD value: the old value can only hold
    floats (or ints for int_only), so the choice never flips.
28. DTimeAttribute / EFLROrTextAttribute switching the kind of value between assignments (inferred code re-evaluated).
29. The two custom numeric converters (file_set_number no-reassign, encrypted): composed after the numeric parser; 'yes' is
    refused rather than converted.
30. Template vs object attribute order (__dict__ order of the first item; cached_property obname lives in __dict__ but is
    not an Attribute).
31. Keyword -> attribute mapping of every add_* (only measurement_type -> type, eq_type -> _type, message_type -> _type
    differ; add_group has no object_type keyword - settable later, written correctly).
32. Labels and set types against RP66 v1 chapters 5 / 6 for all 22 types.
33. FILE-HEADER: re-assigned header_id / sequence_number validated at write; ORIGIN FILE-ID vs header id mismatch is
    refused, not silently "repaired".
34. AttrSetup.items() / dict route with None, {}, extra keys, units: None (clears), falsy values.
35. Rejected add_*: nothing registered, no side effect on referenced objects; OriginItem's post-registration steps cannot
    raise.
36. References: fresh OBNAME per reference, cached obname invalidated on rename / origin change, OBJREF set type, foreign /
    unregistered objects refused by _check_references.
37. Row windows / input chunk sizes vs derived index bounds (computed on the windowed column, independent of chunking).
38. channel_name_mapping keyed by channel name (two same-named channels in ONE frame: known / excluded).
39. Segmentation of EFLR bodies with tiny records (body 12..14 bytes, pad bytes in non-final segments) - exercised by fz.py
    at record lengths 20 / 22 / 64.
40. Non-ASCII anywhere (text, identifiers, units, names, no-format text): strict encode('ascii'), always refused.

=====================================================================================================================
REMARKS (not counted as findings)
=====================================================================================================================
* enums.Property.INCLINOMETRY_CORRECTED still has the value 'INCLINOMETRY-CORRECTD'; the standard's spelling given as a
  string is refused by the strict converter (already remarked in round 2, left alone by D51).
* enums.FrameIndexType lacks the standard's TIME; outside high-compatibility mode 'TIME' is written as given (warning),
  inside it is refused - a C17 matter, not C05.
* PARAMETER / COMPUTATION with axis and nested values but no dimension: the axis / dimension consistency check is skipped
  at the first write (dimension still None) and applied at the second (dimension kept from the first): same state, first
  write accepted, second refused - a variant of the known "DIMENSION derived at the first write is kept".
* NumericAttribute._convert_number evaluates self.representation_code (flattening the OLD value) once per NEW element:
  re-assigning an N-element multidimensional value costs O(N^2) - performance only.
* docs/userguide/compatibilityissues.rst shows "with high_compatibility_mode:" (no call parentheses), which raises.
"""

if __name__ == '__main__':
    print('NO FINDINGS')
