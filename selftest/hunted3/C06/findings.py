r"""Hunt round 3 - C06 "Primitive values are encoded exactly as their representation code prescribes"
(content of FINDINGS.md - the tool refused to create the .md file, so it lives here)

Run:  cd /tmp/hunt3/C06 && PYTHONPATH=/tmp/hunt3/C06/src /venv/bin/python findings.py

Worktree: /tmp/hunt3/C06 (HEAD 950dae5). Independent judges used: an own strict RP66 v1 parser (scratch/rp66.py:
visible records -> segments -> EFLR components / IFLR headers, fails on any length mismatch or trailing byte), dlisio,
and struct / plain Python.

BOTTOM LINE. For every value of an in-scope type that reaches the encoders through DLISFile / LogicalFile.add_* /
item.attr.value = ... / AttrSetup / dict forms, the bytes were exactly the standard's encoding, or the value was rejected
with an exception (often only at write() time, and with an unhelpful "AttributeError: 'NoneType' object has no attribute
'convert'" when no common representation code exists - but an exception). I found NO violation reachable with in-scope
values through the object model. Two LOW-severity items remain; both need either a direct call of an encoder function
or a value of a type that is already recorded as out of scope.

------------------------------------------------------------------------------------------------------------------------
FINDING 1 (low; direct call only) - UVARI of a numpy.uint32 >= 2**30 is wrapped modulo 2**32, not rejected

Input:
    from dliswriter.utils.internal.struct_writer import write_struct, write_struct_uvari
    from dliswriter.utils.internal.internal_enums import RepresentationCode
    write_struct_uvari(np.uint32(2**30))                         # b'\x00\x00\x00\x00'   (RuntimeWarning only)
    write_struct(RepresentationCode.UVARI, np.uint32(2**30+5))   # b'\x00\x00\x00\x05'
    write_struct_uvari(np.uint32(2**32-1))                       # b'\xbf\xff\xff\xff'

Required: 2**30 and above cannot be represented as UVARI -> exception (as for a Python int, numpy.int64, numpy.uint64:
"struct.error: 'I' format requires 0 <= number <= 4294967295").

Observed: 4 bytes are returned whose two top bits are not 11: 00000000 is read by a decoder as the 1-byte value 0
followed by 3 stray bytes; bfffffff as the 2-byte value 16383 followed by 2 stray bytes - a wrapped value AND a malformed
length prefix.

Cause: src/dliswriter/utils/internal/struct_writer.py, write_struct_uvari, last line
"RepresentationCode.ULONG.convert(value + ULONG_OFFSET)": there is no explicit value < 2**30 check, the function relies
on struct.pack('>I', ...) overflowing; with a numpy.uint32 operand the sum is computed in uint32 and wraps before struct
sees it. (numpy.uint16 / int16 / int32 operands raise OverflowError under numpy 2 because the Python-int offset does not
fit their type; only uint32 slips through.)

Reachability: I could not reach it through the object model - every UVARI the library writes itself comes from len(),
a Python row counter, NumericAttribute._int_parser (int(value)) or origin_reference (must be an int instance). So this
only matters for callers of the encoder functions.

------------------------------------------------------------------------------------------------------------------------
FINDING 2 (low; needs values of an out-of-scope type) - the memoised encoder writes the text / bytes of ANOTHER,
merely equal object

Input (public API):
    lf.add_origin('O', file_set_number=1, file_set_name=Decimal('1.00'), file_type=Decimal('1.0'))
    ... write ...
    dlisio: origin.file_set_name == '1.00', origin.file_type == '1.00'      # str(Decimal('1.0')) is '1.0'

Direct form, numeric code: write_struct(FDOUBL, Decimal('0')) then write_struct(FDOUBL, Decimal('-0')) -> both
0000000000000000 (struct.pack('>d', Decimal('-0')) is 8000000000000000); in the other order both are -0.0. Likewise two
equal aware datetimes in different zones given to an identifier attribute are written as the text of the first one.

Required: the bytes emitted for a value are the encoding of THAT value.

Cause: struct_writer.py, write_struct / _write_struct (lru_cache(maxsize=65536, typed=True)): the key is
(code, value, type(value)); the sign is added to the key only for numbers.Real non-integers; date-times and object
references are exempted only for the codes DTIME / OBNAME / OBJREF. Any other hashable type with a == b but
str(a) != str(b) (Decimal, aware datetimes under IDENT/ASCII) or float(a), float(b) differing in sign (Decimal zero)
collides.

Scope note: that identifier attributes without a converter (file_type, file_set_name, name_space_name, Frame direction,
Message type, NoFormat consumer_name, Calibration method) accept non-text and write str() of it is already on the known
list; Decimal cannot reach a numeric code through the object model (NumericAttribute converts with float() first, plain
Attributes refuse it). With in-scope value types (str, int, bool, float, numpy scalars, datetime, EFLR items) I found no
colliding pair: float and numpy-float zeros carry their sign in the key, NaN never compares equal,
1 / 1.0 / True / numpy.float64(1.0) are separated by typed=True.

------------------------------------------------------------------------------------------------------------------------
WHAT WAS TRIED (no violation unless stated); own strict parser + dlisio on every file written

 1. OBNAME origin 0, 127, 128, 16383, 16384, 2**30-1 (exact 1/2/4-byte UVARI, also in FDATA records); 2**30, 2**32, -1
    -> struct.error at write; True -> 1.
 2. Copy numbers 0..255 (256 same-named zones) exact; the 257th -> struct.error at write.
 3. Object / set names, IDENT attribute values, units of length 0, 1, 127, 128, 255 exact (fuzzer); 256+ -> ValueError
    at write; non-ASCII -> UnicodeEncodeError.
 4. ASCII values of length 0, 127, 128, 16383, 16384, 20000 (single and multi-valued, with control chars, NUL, DEL)
    exact, incl. records segmented over several visible records.
 5. Attribute counts 1, 127, 128, 130, 200, 16384 (UVARI count) exact; empty lists / [[]] -> absent attribute.
 6. Parameter / Axis values: ints at +-2**31 edges (exact / struct.error), mixed [1, 2.5], [np.float64, int],
    [int, 'a'] (refused), [True] (refused), numpy ints / float32 / float16 / bool_ / Fraction / Decimal / complex
    (refused at assignment), -0.0 / 0.0 order, NaN, +-inf, 5e-324, max double, [2**53+1, 0.5] (known precision loss).
 7. Numeric text: '1_000', ' 12 ', Arabic-Indic digits, '1.', '1.0e400' (-> inf) - the known "numeric-looking text"
    behaviour, nothing beyond it.
 8. UVARI attributes (file_set_number, file_number, name_space_version, dimension, element_limit) at 0, 127, 128,
    16383, 16384, 2**30-1, floats with zero fraction; UNORM attributes (descent / run number, producer code) 0, 255,
    65535, 256.0, numpy.uint16; out of range -> struct.error.
 9. SLONG sample_count 0, 2**31-1, -2**31, 7.0.
10. FDOUBL everywhere (NumericAttribute with / without fixed code, nested lists): random 64-bit patterns (all NaN
    payloads, denormals), -0.0, numpy.float32(0.1) widened exactly, bool, numpy ints.
11. STATUS from 0, 1, True, 1.0, numpy.int8(1); fractional / text / NaN refused.
12. DTIME: 1900-01-01 and 2155-12-31 edges, 7 tzinfo kinds (UTC, +14:00, -12:00, 1 s, 1 us, +23:59:59.999999, naive),
    microseconds 0/1/499/500/501/999/1000/1499/1500/998499/998500/999499, fold, process TZ = America/New_York,
    Asia/Kathmandu (+05:45), Pacific/Kiritimati (+14), LMT offsets in 1900, DST gap and repeated hour, text form;
    instants converting to 1899 / 2156 refused. Always the exact UTC fields, TZ nibble 2 (only the known ms rounding).
13. OBJREF (Group object_list over 6 object types incl. Origin / Frame / LongName, Channel / Computation source):
    exact type + OBNAME.
14. Units: None, '', enum member, 255 chars, blanks, via AttrSetup and dict; on DTIME / OBJREF-holding plain attributes.
15. All 20+ object types with random values, 250 seeds of a model-based fuzzer (scratch/fuzz.py): compares every
    attribute of every object with the value held by the object model.
16. Frame data: 8 dtypes x little/big-endian source x C / Fortran / strided / reversed layout x dict / structured
    array / add_channel / HDF5 x chunked or not (512 combinations, NaN, -0.0, inf, integer extremes): bytes ==
    big-endian image, REPRESENTATION-CODE right (scratch/t8.py).
17. Frame numbers 1..16390 (1/2/4-byte UVARI) with input chunking; frame name of 255 chars; origin 16384.
18. NoFormat data: str, '', bytes with 0xff, bytearray.
19. Memoisation: same value under different codes, 1 / 1.0 / True / numpy.float64(1.0), +-0.0 for float /
    numpy.float32 / Fraction, str subclasses (numpy.str_ refused by code inference), exceptions not cached, cache shared
    by several DLISFile objects.
20. OBNAME cache (cached_property): rename, origin_reference setter, re-use in FDATA / NOFORMAT records after rename.
21. Renames / second origin / items created before the first origin / two logical files with equal names.
22. Rejected calls followed by more calls (bad domain, bad status, bad unit type) - no state left that changes bytes.
23. Non-list containers for multi-valued attributes (numpy arrays, range, 0-d arrays) refused; nested tuple in a flat
    attribute refused.
24. Plain Attribute without converter (Channel.source): int, str, EFLRSet, foreign objects -> exception at write.
25. File header: SEQUENCE-NUMBER / ID fields, header id of 65 chars, non-ASCII identifier refused at write; SUL fields.
26. Direct calls of write_struct* / RepresentationCode.convert with numpy scalars of every integer type, floats for
    integer codes, bool, out-of-range float32 (OverflowError) -> only Finding 1.
27. cast_dtype given as big-endian numpy.dtype, scalar type aliases (numpy.intc, numpy.double), numpy.recarray source.
28. High-compatibility mode: no encoding path differs (only validation, file-set-number default).
"""

import logging
import os
import struct
import tempfile
import warnings
from decimal import Decimal

import numpy as np

logging.getLogger('dliswriter').setLevel(logging.CRITICAL)


def _decode_uvari(b: bytes) -> tuple:
    """Independent UVARI decoder: return (value, number of bytes consumed)."""

    b0 = b[0]
    if b0 < 0x80:
        return b0, 1
    if b0 < 0xC0:
        return ((b0 & 0x3F) << 8) | b[1], 2
    return ((b0 & 0x3F) << 24) | (b[1] << 16) | (b[2] << 8) | b[3], 4


def finding_1() -> bool:
    """UVARI of a numpy.uint32 >= 2**30 is wrapped modulo 2**32 instead of being rejected (direct call of the encoder).

    write_struct_uvari adds ULONG_OFFSET (0xC0000000) to the value; for a numpy.uint32 the sum is computed in uint32
    and wraps (numpy only issues a RuntimeWarning), so the range check that struct.pack would do never fires.
    A Python int, numpy.int64 or numpy.uint64 of the same magnitude is rejected with struct.error.
    """

    from dliswriter.utils.internal.struct_writer import write_struct, write_struct_uvari
    from dliswriter.utils.internal.internal_enums import RepresentationCode

    observed = []
    for value in (np.uint32(2 ** 30), np.uint32(2 ** 30 + 5), np.uint32(2 ** 32 - 1)):
        for func in (write_struct_uvari, lambda v: write_struct(RepresentationCode.UVARI, v)):
            try:
                with warnings.catch_warnings():
                    warnings.simplefilter('ignore')
                    bts = func(value)
            except Exception:
                observed.append(False)      # rejected: what the statement asks for
                continue
            decoded, consumed = _decode_uvari(bts)
            # e.g. 2**30 -> 00000000 (decodes as a 1-byte 0, 3 stray bytes); 2**32-1 -> bfffffff (2-byte 16383, 2 stray)
            observed.append(decoded != int(value) or consumed != len(bts))

    # control: the same magnitudes as Python ints are rejected
    try:
        write_struct_uvari(2 ** 30)
        control = False
    except struct.error:
        control = True

    return control and all(observed)


def finding_2() -> bool:
    """Two equal objects of one type given to two identifier attributes: both are written as the text of the first one.

    lf.add_origin(..., file_set_name=Decimal('1.00'), file_type=Decimal('1.0')): FILE-TYPE is written as '1.00'.
    (write_struct memoises on (code, value, type(value)); Decimal('1.0') == Decimal('1.00') and hash equal.)
    Same mechanism, direct call: write_struct(FDOUBL, Decimal('0')) followed by write_struct(FDOUBL, Decimal('-0'))
    returns the bytes of +0.0 for both (the sign is made a part of the cache key only for numbers.Real).
    """

    import dlisio
    from dliswriter import DLISFile
    from dliswriter.utils.internal.struct_writer import write_struct
    from dliswriter.utils.internal.internal_enums import RepresentationCode

    df = DLISFile()
    lf = df.add_logical_file()
    lf.add_origin('O', file_set_number=1, file_set_name=Decimal('1.00'), file_type=Decimal('1.0'))
    ch = lf.add_channel('IDX', data=np.arange(3, dtype=np.float64))
    lf.add_frame('FR', channels=[ch])

    with tempfile.TemporaryDirectory() as tmp:
        path = os.path.join(tmp, 'f2.dlis')
        devnull = open(os.devnull, 'w')
        import contextlib
        with contextlib.redirect_stderr(devnull):     # (progress bar)
            df.write(path, output_chunk_size=2 ** 20)
        with dlisio.dlis.load(path) as (f, *_):
            origin = f.origins[0]
            file_type, file_set_name = origin.file_type, origin.file_set_name

    via_api = (file_set_name == '1.00' and file_type == '1.00')     # str(Decimal('1.0')) is '1.0'

    plus = write_struct(RepresentationCode.FDOUBL, Decimal('0'))
    minus = write_struct(RepresentationCode.FDOUBL, Decimal('-0'))
    direct = (plus == minus == struct.pack('>d', 0.0)) and struct.pack('>d', Decimal('-0')) != plus

    return via_api and direct


FINDINGS = [
    (finding_1, "write_struct_uvari / write_struct(UVARI, .) wrap a numpy.uint32 >= 2**30 modulo 2**32 "
                "(malformed UVARI) instead of rejecting it [direct call only]"),
    (finding_2, "memoised encoder writes the text / bytes of another, merely equal object "
                "(Decimal('1.0') written as '1.00'; Decimal('-0') as +0.0) [needs values of out-of-scope types]"),
]


if __name__ == '__main__':
    for n, (func, description) in enumerate(FINDINGS, start=1):
        try:
            violated = func()
        except Exception as exc:    # a reproduction which cannot run is not a reproduction
            violated = False
            description += f" (reproduction raised {type(exc).__name__}: {exc})"
        print(f"FINDING {n}: {description} -> {'VIOLATED' if violated else 'not reproduced'}")
