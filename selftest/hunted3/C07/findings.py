"""Hunt round 3, property C07 (object identity is unique, every reference resolves, origin fields).

Run as:  cd /tmp/hunt3/C07 && PYTHONPATH=/tmp/hunt3/C07/src /venv/bin/python findings.py

(FINDINGS.md could not be created by the tool; its content follows.)

Tree: /tmp/hunt3/C07 at 950dae5. Judges: an own, library-independent RP66 v1 reader (scratch/rp.py: visible records ->
segments -> logical records -> sets / templates / objects / OBNAME + OBJREF values / the OBNAME that opens every IFLR)
and dlisio 1.0.4.

Result: ONE low-severity finding. Everything else that was tried (list at the end) either is written correctly or is
refused, at the latest by LogicalFile._check_references / _check_sets_not_shared at write time.

Finding 1 - the origin chosen for the FILE-HEADER object before the first add_origin is discarded
--------------------------------------------------------------------------------------------------
Call sequence (all public API):

    df = DLISFile(); lf = df.add_logical_file()
    lf.file_header.origin_reference = 3          # public setter: "Set a new origin reference (point to a different Origin)"
    zone = lf.add_zone('Z', origin_reference=3)  # same choice for an ordinary object, for comparison
    lf.add_origin('DEFINING')                    # -> origin reference 0
    lf.add_origin('OTHER', origin_reference=3)   # the origin that was chosen
    ch = lf.add_channel('CH', data=np.arange(3.)); lf.add_frame('FR', channels=(ch,))
    df.write(path, output_chunk_size=2**20)

Same with a prepared header: fh = eflr_types.FileHeaderItem('MY-FILE', parent=eflr_types.FileHeaderSet());
fh.origin_reference = 3; lf = df.add_logical_file(file_header=fh).

Required by the statement: every object's origin field is "the defining origin unless the user chose another", for "all
orders of add_* calls" and "objects created before or after the origin". The user chose origin 3 for the header; an
ORIGIN object with origin reference 3 exists in the logical file; so the header's origin field has to be 3.

Observed (dlisio f.fileheader.origin, and the UVARI after the object component byte 0x70 of the first record, decoded
by hand): the FILE-HEADER object is written with origin 0. No warning, no error. Ordinary objects keep such a choice
(('ZONE', 3, 0, 'Z') in the same file), and the very same assignment to the header made AFTER the first add_origin
call is kept (header written with origin 3) - so the outcome depends on the order of the calls only:

    header's origin chosen ...                      FILE-HEADER origin field in the file
    before the first add_origin (setter)            0 (choice lost)
    before, on a prepared FileHeaderItem            0 (choice lost)
    after the origins have been added (setter)      3

Code: src/dliswriter/file/file.py, LogicalFile.add_origin, line 1598:
"self.file_header_item.origin_reference = o.origin_reference" is unconditional, whereas the loop just above it
(lines 1591-1595) only fills in the objects whose origin_reference is None.

(The file stays consistent - 0 is an origin of the logical file - which is why this is low severity: what is violated is
the "unless the user chose another" part, and the independence from the order of calls.)

Tried without finding a violation (each checked with the raw reader and / or dlisio)
------------------------------------------------------------------------------------
Random, model-based campaigns (scratch/rnd.py, 400 seeds; scratch/rnd2.py, 600 seeds x 3 writes each): 1-3 logical
files, all 21 object types, every reference attribute (frame->channels, channel->axis/source/long name, calibration,
measurement source/axis, tool, process, splice, path, group object/group lists, parameter, computation, no-format
IFLRs), values given plain / as tuple / AttrSetup / dict, shared and repeated targets, repeated names (copy numbers
predicted independently as "first free number"), objects before and after the origin, several origins with automatic
and explicit references (incl. 0, 127/128, 16383/16384, 2**30-1), explicit origin_reference= on every add_*, rejected
calls interleaved, renames to unused names, re-assignment of origin references and of reference attributes between
several writes, max_record_length 256 / 1024 / 8192. No difference between model and file, no duplicate identity, no
dangling reference, no origin field without ORIGIN.

Targeted ideas:
 1. 256 same-named objects (copy numbers 0..255 distinct); the 257th makes write fail (struct error) - refused, not wrong.
 2. Origin references at the UVARI borders 127/128, 16383/16384, 2**30-1 (ok); 2**30 and -1 refused at write.
 3. origin_reference=True, an IntEnum member (written as 1, resolves); numpy integers / floats / None refused.
 4. Names: '', ' ', 'a' vs 'A', 'A ' vs 'A\t', '\x00', 255 characters (ok); 256 characters and non-ASCII refused.
 5. Objects before the origin + first origin with an explicit reference + explicit references on earlier objects.
 6. First add_origin rejected in set 'A', origins then added to 'B' and 'A': defining origin = first written origin.
 7. Defining origin's reference changed afterwards (refused: header / objects left without origin), with and without
    another origin taking over the old number.
 8. Two origins made to share one reference through the setter (ORIGIN copy numbers still distinct).
 9. Write, rename channel + frame, move them to the second origin, write again: references, PATH.FRAME-TYPE and the
    OBNAME opening the frame IFLRs follow (no stale obname cache).
10. Two DLISFile objects built interleaved; reference to an object of the other DLISFile refused.
11. Self references and cycles (group in its own lists, computation as its own source), FILE-HEADER and ORIGIN objects
    as targets of OBJREF attributes.
12. High-compatibility mode.
13. max_record_length 20 / 64 with long names and origin 20000: OBNAMEs split over segments decode correctly, also the
    ones opening IFLRs; empty no-format payloads (padding) keep the OBNAME intact.
14. Reference lists with 130 and 300 elements (2-byte count), order preserved.
15. NoFormatFrameData.no_format_object re-pointed to another / renamed no-format object of the same file (follows); of
    another file (refused).
16. Rename chains to freed names, then new objects of the old and the new names (all identities distinct).
17. Rejected calls between same-named objects (no copy number consumed, none duplicated); failed name = 5,
    origin_reference = None / 1.0 leave the identity intact.
18. Wrong-typed targets assigned afterwards through .value = on 11 reference attributes (all TypeError).
19. set_attributes with AttrSetup / dict / tuple on a splice after creation.
20. Header: renamed, used as source, replaced on the logical file (refused), origin chosen after the origins (kept).
21. copy.deepcopy(DLISFile) (not supported: TypeError), numpy object arrays / generators as reference lists (refused).
22. Logical-record types of all sets (no stray FHLR that would split a logical file for a reader).
23. All reference labels resolved by dlisio's own linkage (frames, channels, tools, calibrations, measurements,
    processes, splices, paths, groups, parameters, computations, no-formats).
24. Shared-set routes across logical files (all end in the known "shared between two logical files" refusal).
25. write_struct caching: OBNAME / OBJREF are not cached; the IDENT cache is keyed by value only (pure).
26. Several writes of one DLISFile after a failed write (no state kept that touches identities).
"""

import io
import logging
import os
import tempfile
import contextlib

import numpy as np

logging.disable(logging.CRITICAL)


def _write(df, path):
    with contextlib.redirect_stderr(io.StringIO()), contextlib.redirect_stdout(io.StringIO()):
        df.write(path, output_chunk_size=2 ** 20)


def _header_and_origins(path):
    """(origin field of the FILE-HEADER object, origin references of the ORIGIN objects), read with dlisio."""

    from dlisio import dlis
    with dlis.load(path) as (f, *_):
        return f.fileheader.origin, sorted(o.origin for o in f.origins)


def _header_origin_from_bytes(path):
    """Origin field of the FILE-HEADER object, decoded by hand (80 bytes SUL, 4 VR header, 4 LRS header, EFLR)."""

    b = open(path, 'rb').read()
    p = 80 + 4 + 4
    assert b[p] == 0xF0 and b[p + 1:p + 13] == b'\x0bFILE-HEADER'
    p += 13
    # template: two attribute components (label + representation code), then the object component 'p' (0x70)
    for _ in range(2):
        assert b[p] == 0x34
        n = b[p + 1]
        p += 2 + n + 1
    assert b[p] == 0x70
    x = b[p + 1]
    assert x < 0x80  # (small origin references only: a one-byte UVARI)
    return x


def _build(choose_before_origin: bool, prepared_header: bool = False):
    from dliswriter import DLISFile, eflr_types

    df = DLISFile()
    if prepared_header:
        fh = eflr_types.FileHeaderItem('MY-FILE', parent=eflr_types.FileHeaderSet())
        fh.origin_reference = 3                  # the user's choice for the header object
        lf = df.add_logical_file(file_header=fh)
    else:
        lf = df.add_logical_file()
        if choose_before_origin:
            lf.file_header.origin_reference = 3  # the user's choice for the header object

    zone = lf.add_zone('Z', origin_reference=3)  # the same choice for an ordinary object, also made before the origins
    lf.add_origin('DEFINING')                    # origin reference 0
    lf.add_origin('OTHER', origin_reference=3)   # the origin the user chose for the header and the zone
    if not prepared_header and not choose_before_origin:
        lf.file_header.origin_reference = 3      # same choice, made after the origins: this one is kept

    ch = lf.add_channel('CH', data=np.arange(3.))
    lf.add_frame('FR', channels=(ch,))
    return df, lf, zone


def finding_1() -> bool:
    """The origin reference chosen for the FILE-HEADER object before the first add_origin call is discarded."""

    results = {}
    with tempfile.TemporaryDirectory(dir=os.path.dirname(os.path.abspath(__file__))) as d:
        for label, kw in (('before', dict(choose_before_origin=True)),
                          ('prepared', dict(choose_before_origin=True, prepared_header=True)),
                          ('after', dict(choose_before_origin=False))):
            df, lf, zone = _build(**kw)
            path = os.path.join(d, f'{label}.dlis')
            _write(df, path)
            hdr, origins = _header_and_origins(path)
            assert hdr == _header_origin_from_bytes(path)
            assert origins == [0, 3]
            assert zone.origin_reference == 3   # an ordinary object keeps the choice made before the origins
            results[label] = hdr

    # required: 3 in all three cases (the user chose origin 3, which exists in the logical file)
    # observed: 0 (the defining origin) when the choice was made before the first add_origin, 3 when made after it
    return results['before'] == 0 and results['prepared'] == 0 and results['after'] == 3


FINDINGS = [
    (1, "an origin reference chosen for the FILE-HEADER object (setter / prepared FileHeaderItem) before the first "
        "add_origin call is silently replaced by the defining origin's; the same choice made after it is kept",
     finding_1),
]


if __name__ == '__main__':
    for n, description, func in FINDINGS:
        try:
            violated = func()
        except Exception as exc:  # noqa
            violated = False
            description += f" [reproduction raised {type(exc).__name__}: {exc}]"
        print(f"FINDING {n}: {description} -> {'VIOLATED' if violated else 'not reproduced'}")
