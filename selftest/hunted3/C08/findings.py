"""Reproductions for property C08 (a frame's channel descriptors match the layout of its data records).

Run as:  cd /tmp/hunt3/C08 && PYTHONPATH=/tmp/hunt3/C08/src /venv/bin/python findings.py

The verdict of every finding is reached without the library: the visible-record / segment framing is parsed by hand
(`_fdata_payloads`), the channel descriptors are read back with dlisio (`_descriptors`).

(FINDINGS.md could not be created by the tooling; its content follows.)

=====================================================================================================================
C08 - a frame's channel descriptors match the layout of its data records: hunt, round 3        (tree at 950dae5)
=====================================================================================================================

SUMMARY. Through the ordinary route - DLISFile.write() with data given at add_channel, as a dict, as a structured
array or as an HDF5 file - I could NOT make the library violate the property: about 3700 files written by a stateful
fuzzer (see "What was tried") and some 40 hand-made attacks all ended either in a refusal or in a file whose
descriptors, row lengths and decoded values agree with the data. Two violations remain, both off the beaten track and
of low weight; they are reported so that they can be judged, not because I think they are serious.

---------------------------------------------------------------------------------------------------------------------
FINDING 1 (low) - records prepared twice from one DLISFile and written afterwards
---------------------------------------------------------------------------------------------------------------------
Call sequence (public methods only: DLISFile.generate_logical_records, DLISWriter.write_storage_unit_label,
DLISWriter.write_logical_records - the two steps DLISFile.write is made of, docs/developerguide/writingfile):

    df = DLISFile(); lf = df.add_logical_file(); lf.add_origin('O')
    a = lf.add_channel('A'); b = lf.add_channel('B'); lf.add_frame('F', channels=[a, b])
    d1 = {'A': np.arange(4.),                  'B': np.arange(8,  dtype=np.int16).reshape(4, 2)}
    d2 = {'A': np.arange(4, dtype=np.float32), 'B': np.arange(12, dtype=np.uint8).reshape(4, 3)}
    lf.check_objects()
    records_1 = df.generate_logical_records(chunk_size=None, data=d1)
    records_2 = df.generate_logical_records(chunk_size=None, data=d2)
    for fn, records in (('1.dlis', records_1), ('2.dlis', records_2)):
        w = DLISWriter(fn); w.write_storage_unit_label(df.storage_unit_label)
        w.write_logical_records(records, output_chunk_size=2**20)

Required: in each file, representation code / DIMENSION of A and B are those of the data in that file's rows.
Observed for 1.dlis (file 2 is fine):
    rows of F are [12] bytes long, the descriptors add up to 7
    A: representation code 2 (FSINGL), dtype written float64
    B: representation code 15 (USHORT), dtype written int16
    B: DIMENSION [3], rows of the data have shape [2]
i.e. a reader slices 4 + 3x1 bytes out of rows which hold 8 + 2x2 bytes.

Cause: generate_logical_records derives DIMENSION / ELEMENT-LIMIT / representation code at once and stores them in the
(shared) ChannelItem objects (file/file.py:153-171 -> LogicalFile._make_multi_frame_data -> FrameItem.setup_from_data ->
ChannelItem.set_dimension_and_repr_code_from_data, channel.py:134-141), while the bytes of the Channel set are only made
when the returned generator is consumed (DLISFile.generator, file.py:113-129; EFLRSet._make_body_bytes). The structured
dtype of the rows, on the other hand, is fixed per generator in its SourceDataWrapper (source_data_wrappers.py:77).
Whatever touches the channels between the two moments - a second generate_logical_records, ch.cast_dtype = ...,
ch.dimension.value = ... - changes the descriptors of records which are already "prepared", not their rows. The same
holds with ONE generator and an assignment (a.cast_dtype = np.float32) between generate_logical_records and
write_logical_records.
Why low: DLISFile.write runs both steps back to back and no user code runs in between, so it cannot happen there.
(The known item "the high-compatibility flag is process-global (threads, interleaved generators)" is another
mechanism - a global flag; this one is per-object derived state.)

---------------------------------------------------------------------------------------------------------------------
FINDING 2 (very low) - cast_dtype given as a scalar class is identified by its __name__
---------------------------------------------------------------------------------------------------------------------
    class float32(np.float64): pass          # a user's scalar type, 8 bytes wide
    a = lf.add_channel('A', data=np.arange(4.), cast_dtype=float32)
    lf.add_frame('F', channels=[a]); df.write(fn, output_chunk_size=2**20)

Required: representation code = that of the dtype written (numpy.dtype(float32) is float64 -> FDOUBL) - or a refusal.
Observed: channel A carries REPRESENTATION-CODE 2 (FSINGL); every row of F is 8 bytes long, the descriptors add up to 4.
Cause: ReprCodeConverter.validate_numpy_dtype (utils/internal/converters.py:83-97) takes number_type.__name__ for
type[np.generic] arguments, whereas the rows are made with np.dtype(number_type) (source_data_wrappers.py:147-151).
For all scalar classes numpy itself defines the two agree (checked for every subclass of np.generic in numpy 2.5.3:
the mismatching ones - longlong, ulonglong, longdouble - are refused, not mis-described), so this needs a user-defined
subclass whose name is one of the eight supported dtype names. Contrived; np.dtype(number_type).name would be robust.

---------------------------------------------------------------------------------------------------------------------
WHAT WAS TRIED (and held)
---------------------------------------------------------------------------------------------------------------------
Oracle (scratch/oracle.py): visible records / segments / padding parsed by hand, FDATA rows split per logical file and
frame OBNAME, frame numbers checked to count from 1, row length compared with sum(code size x prod(DIMENSION)) from the
Channel objects as dlisio reads them, ELEMENT-LIMIT >= DIMENSION, decoded values compared with the arrays handed in.

Stateful fuzzer (scratch/fuzz.py, ~4300 scenarios, ~3700 files written, the rest refused): 1-3 logical files; 1-6
channels per file with all 8 dtypes (+ int64 / uint64 / float16 / bool under a declared cast), scalar / (N,1) / (N,W) /
W = 130 data, big-endian and Fortran-ordered arrays, same channel name several times (copy numbers), optional
cast_dtype / dimension (int, list, AttrSetup, consistent or not) / element_limit (equal, larger, longer, too small);
1-3 frames with channels shared between frames, lists and tuples, index type or not; data at add_channel / dict at
write / structured array / HDF5 / mixed; then up to 5 writes with, in between: renames of channels and frames (to fresh
names), cast_dtype set / changed / removed, frame channel lists replaced / reversed, dataset_name pointed at another
channel's data set, data replaced by arrays of another dtype and width, dimension / element_limit assigned or emptied;
every write with random from_idx / to_idx (valid or not), input_chunk_size None/1/3/100, visible record length
20 / 64 / 200 / 8192 / 16384, origin references 1 / 7 / 200, sometimes inside high_compatibility_mode. No disagreement
once the two known identity collisions (rename onto a name in use) were kept out.

Hand-made attacks (all refused or consistent):
 1. the same ChannelItem twice in one frame -> refused (names of the row dtype vs. frame).
 2. two channels of the same name (copy 0 / 1) in one frame -> refused; in two frames -> correct.
 3. data of shape (N,1), (N,0), np.matrix, Fortran order, big-endian, read-only, broadcast (stride 0) arrays.
 4. structured source: sub-array fields (1,), (3,); aligned dtype; explicit offsets / itemsize; extra fields; other
    field order; direct-slice shortcut with from_idx and input chunks; field with 2-D sub-array -> refused.
 5. HDF5: array-typed data set (dtype ('<i2',(3,)), shape (N,)) -> DIMENSION [3], rows right; big-endian; paths with /.
 6. cast_dtype forms: np.dtype / class / '>f4' / aliases (intc, single, double, short, ubyte, ...); longlong, int_,
    half, longdouble, bool, structured, sub-array dtype, str -> refused.
 7. dimension / element_limit forms: int, True, 5.0, np.int64, tuple, [], AttrSetup, dict; [0], negative, NaN, inf,
    [2,3] for width 6, [1,1] for scalars -> refused where they do not describe the data.
 8. element_limit longer than DIMENSION ([200,3]) / larger / smaller (refused) / zero entries.
 9. user-specified dimension kept across writes while the data change width -> refused; derived one -> re-derived.
10. channel taken out of a frame / put into another frame / frame lists swapped between writes.
11. cast_dtype declared, re-assigned to its derived value, set to None, rejected assignment, between writes.
12. refused write (bad chunk size, missing data set, inconsistent dimension, second frame failing after the first was
    set up) followed by a good one.
13. channel shared by two / three frames, also as index of one and plain channel of the other.
14. same data set under several channel names with different casts (dict, structured array with crosswise mapping).
15. dataset_name changed after creation; data given at add_channel overridden by write(data=...) of another shape.
16. several logical files (own set names), same channel / frame names in each, different origin references.
17. origin added after channels and frames (origin reference assigned late), origin reference 300 (2-byte UVARI in
    every FDATA reference), 300 channels in one frame (2-byte count), visible records of 20 bytes.
18. 16500 rows (4-byte frame numbers), width 16500 (4-byte DIMENSION, rows of 33 kB over several visible records).
19. channel names '', 'f0' (numpy renames empty field names) -> refused; NUL in a name (reader-specific).
20. encrypted=1 on the frame (rows stay sliceable), index_type with 2-D first channel -> refused.
21. attempts to set representation_code / its units / dimension units through set_attributes, AttrSetup -> refused.
22. np.recarray / titled fields as structured source; dict with non-array extras -> refused.
23. several DLISFile objects in one process alternating writes (struct memo, class-level record type bytes).
24. the same logical file listed twice in df.logical_files (forget / set-up order) -> equivalent output.
25. attempts to get a channel into a frame of another logical file or into a shared set, so that the second file's
    "forget" pass would wipe descriptors derived for the first -> all routes refused (_check_references,
    _check_sets_not_shared, try_add_set).
26. copy.deepcopy(DLISFile) -> TypeError (EFLRSetsDict cannot be copied); nothing written.
27. segmentation corner cases of FDATA bodies (1..13 bytes left for the last segment, pad counts up to 11).
28. from_idx / to_idx as numpy ints, bool, 0, negative, float; input_chunk_size True / numpy int / float.
"""

import logging
import os
import struct

import numpy as np
import dlisio

from dliswriter import DLISFile
from dliswriter.file.writer import DLISWriter
import dliswriter.file.writer as _writer_module

logging.disable(logging.CRITICAL)
_writer_module.progressbar = lambda it, **kw: it     # (no progress bar on stderr)
dlisio.common.set_encodings(['latin1'])

OUT = os.path.join(os.path.dirname(os.path.abspath(__file__)), '_out')
os.makedirs(OUT, exist_ok=True)

CODE_SIZE = {12: 1, 13: 2, 14: 4, 15: 1, 16: 2, 17: 4, 2: 4, 7: 8}
CODE_OF_DTYPE = {'int8': 12, 'int16': 13, 'int32': 14, 'uint8': 15, 'uint16': 16, 'uint32': 17, 'float32': 2, 'float64': 7}


# ------------------------------------------------------------------ independent reading of the file
def _uvari(b, p):
    x = b[p]
    if x < 0x80:
        return x, p + 1
    if x < 0xC0:
        return struct.unpack('>H', b[p:p + 2])[0] & 0x3FFF, p + 2
    return struct.unpack('>I', b[p:p + 4])[0] & 0x3FFFFFFF, p + 4


def _fdata_payloads(fn):
    """{(origin, copy, frame name): [(frame number, bytes after reference and frame number), ...]} - own parser."""

    raw = open(fn, 'rb').read()
    p, cur, out = 80, None, {}
    while p < len(raw):
        vrl = struct.unpack('>H', raw[p:p + 2])[0]
        q, end = p + 4, p + vrl
        while q < end:
            sl, attr, typ = struct.unpack('>HBB', raw[q:q + 4])
            body = raw[q + 4:q + sl]
            if attr & 1:
                body = body[:len(body) - body[-1]]          # pad bytes
            if not attr & 0x40:
                cur = [bool(attr & 0x80), typ, b'']
            cur[2] += body
            if not attr & 0x20:                              # last segment of the logical record
                is_eflr, typ_, b = cur
                if not is_eflr and typ_ == 0:                # FDATA
                    o, r = _uvari(b, 0)
                    c = b[r]
                    n = b[r + 1]
                    name = b[r + 2:r + 2 + n].decode('latin1')
                    fno, r = _uvari(b, r + 2 + n)
                    out.setdefault((o, c, name), []).append((fno, b[r:]))
            q += sl
        p = end
    return out


def _descriptors(fn):
    """{(origin, copy, frame name): [(channel name, repr. code, dimension, element limit), ...]} - read by dlisio."""

    out = {}
    with dlisio.dlis.load(fn) as (f, *_):
        for fr in f.frames:
            # (dlisio hands out DIMENSION / ELEMENT-LIMIT reversed; all channels here have one dimension)
            out[(fr.origin, fr.copynumber, fr.name)] = [(c.name, c.reprc, list(c.dimension), list(c.element_limit))
                                                        for c in fr.channels]
    return out


def _violations(fn, written):
    """Compare descriptors with the rows. written: [(channel name, array as it was handed to the writer)]."""

    v = []
    rows = _fdata_payloads(fn)
    for key, chans in _descriptors(fn).items():
        expected_len = sum(CODE_SIZE[rc] * int(np.prod(dim)) for _, rc, dim, _ in chans)
        lengths = {len(payload) for _, payload in rows.get(key, [])}
        if lengths != {expected_len}:
            v.append(f"rows of {key[2]} are {sorted(lengths)} bytes long, the descriptors add up to {expected_len}")
        for (name, rc, dim, el), (wname, arr) in zip(chans, written):
            if CODE_OF_DTYPE[arr.dtype.name] != rc:
                v.append(f"{name}: representation code {rc}, dtype written {arr.dtype.name}")
            if dim != (list(arr.shape[1:]) or [1]):
                v.append(f"{name}: DIMENSION {dim}, rows of the data have shape {list(arr.shape[1:]) or [1]}")
    return v


# ------------------------------------------------------------------ findings
def finding_1(verbose=False):
    """Records prepared twice from one DLISFile (generate_logical_records) and written afterwards: the first file's
    channel descriptors are those of the second data."""

    df = DLISFile()
    lf = df.add_logical_file()
    lf.add_origin('O')
    a = lf.add_channel('A')
    b = lf.add_channel('B')
    lf.add_frame('F', channels=[a, b])

    d1 = {'A': np.arange(4.), 'B': np.arange(8, dtype=np.int16).reshape(4, 2)}                 # float64, int16 x 2
    d2 = {'A': np.arange(4, dtype=np.float32), 'B': np.arange(12, dtype=np.uint8).reshape(4, 3)}  # float32, uint8 x 3

    lf.check_objects()
    records_1 = df.generate_logical_records(chunk_size=None, data=d1)
    records_2 = df.generate_logical_records(chunk_size=None, data=d2)

    files = []
    for i, records in enumerate((records_1, records_2), start=1):
        fn = os.path.join(OUT, f'finding_1_{i}.dlis')
        writer = DLISWriter(fn)
        writer.write_storage_unit_label(df.storage_unit_label)
        writer.write_logical_records(records, output_chunk_size=2 ** 20)
        files.append(fn)

    v1 = _violations(files[0], [('A', d1['A']), ('B', d1['B'])])
    v2 = _violations(files[1], [('A', d2['A']), ('B', d2['B'])])
    if verbose:
        print('   file 1:', v1)
        print('   file 2:', v2)
    return bool(v1) and not v2


def finding_2(verbose=False):
    """cast_dtype given as a numpy scalar CLASS: the representation code is taken from the class's __name__,
    the dtype written from numpy.dtype(class)."""

    class float32(np.float64):   # a user's scalar type; 8 bytes wide, whatever it is called
        pass

    df = DLISFile()
    lf = df.add_logical_file()
    lf.add_origin('O')
    data = np.arange(4.)
    a = lf.add_channel('A', data=data, cast_dtype=float32)
    lf.add_frame('F', channels=[a])
    fn = os.path.join(OUT, 'finding_2.dlis')
    df.write(fn, output_chunk_size=2 ** 20)

    v = _violations(fn, [('A', data.astype(np.dtype(float32)))])
    if verbose:
        print('   ', v)
    return bool(v)


FINDINGS = [
    (finding_1, "two record generators made from one DLISFile (generate_logical_records, data sets of different dtype / "
                "width) and written afterwards: file 1 carries the descriptors of data 2"),
    (finding_2, "cast_dtype = a numpy.float64 subclass named 'float32': channel says FSINGL, rows hold 8-byte floats"),
]

if __name__ == '__main__':
    import sys
    verbose = '-v' in sys.argv
    for n, (func, text) in enumerate(FINDINGS, start=1):
        try:
            observed = func(verbose)
        except Exception as exc:   # pragma: no cover
            observed = False
            text += f" [raised {type(exc).__name__}: {exc}]"
        print(f"FINDING {n}: {text} -> {'VIOLATED' if observed else 'not reproduced'}")
