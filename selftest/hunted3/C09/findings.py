"""Adversarial findings for property C09 (mandated order / content of header, origin, sets, data).

(FINDINGS.md could not be created by the tooling; this docstring is its content.)

Run:  cd /tmp/hunt3/C09 && PYTHONPATH=/tmp/hunt3/C09/src /venv/bin/python findings.py

Worktree /tmp/hunt3/C09 (HEAD 950dae5). Judges: own RP66 reader (rp.py: visible records -> segments -> logical
records -> EFLR sets / objects / attributes, IFLR references; rp.check_c09 encodes the statement) and dlisio.
Result: one violation, of a narrow kind. Everything else held (list at the end).

FINDING 1 - a sequence number that is an (int, Enum) member (or another int subclass) is written as its str()
-----------------------------------------------------------------------------------------------------------
Call sequence:

    class Seq(int, enum.Enum):
        THIRD = 3
    df = DLISFile()
    lf = df.add_logical_file(fh_id='MY-ID', fh_sequence_number=Seq.THIRD)    # accepted
    lf.add_origin('O')
    ch = lf.add_channel('DEPTH', data=np.arange(4.))
    lf.add_frame('MAIN', channels=(ch,), index_type='BOREHOLE-DEPTH')
    df.write('f1.dlis', output_chunk_size=2**20)                              # no error, no warning

(the same through eflr_types.FileHeaderItem(..., sequence_number=Seq.THIRD) or lf.file_header.sequence_number = ...;
the same with  class Tagged(int): __str__ = lambda s: '#%d' % int(s).)

Required: SEQUENCE-NUMBER is the user's number right-justified in 10 characters: '         3'.
Observed (own decoding of the first logical record, and dlisio fileheader.sequencenr):
    SEQUENCE-NUMBER = '   Seq.THIRD'      (Tagged(3): '        #3')
    ID              = 'MY-ID' + 60 blanks  (correct)
The value is an int equal to 3, passes isinstance(x, int) and 0 < x <= 9999999999, so nothing is refused; the text
is not a number at all. enum.IntEnum / IntFlag members are written correctly under the interpreter of this exercise
(3.12: their str() is the decimal number since Python 3.11); under 3.9 / 3.10, which pyproject.toml still allows
(requires-python >= 3.9), they print as 'Seq.THIRD', too.

Code: src/dliswriter/logical_record/eflr_types/file_header.py
  - FileHeaderItem._check_sequence_number (l. 64-71): accepts every int instance but bool;
  - FileHeaderItem._make_attrs_bytes (l. 100): get_ascii_bytes(str(self.sequence_number), 10, justify_left=False)
    - str() of the object rather than of its integer value (str(int(x)) / format(x, 'd')).
Relation to the known list: numeric sibling of "members of (str, Enum) classes passed as text" (listed for text only);
the sequence number goes through its own validation (fix "sequence numbers ... must be positive integers"), which
lets these through.

WHAT WAS TRIED AND HELD (no violation)
--------------------------------------
Structure / order (rp.check_c09 + dlisio; fuzz.py: 1500 random specifications with per-file set names, fuzz2.py: 2000
with set names shared between logical files - every output satisfied the statement, every problematic specification
was refused before anything was written):
 1. origin added first / in the middle / last / a late extra origin after frames and no-format data;
 2. 1-4 origins spread over the unnamed and named ORIGIN sets, named set created before the unnamed one;
 3. a rejected add_origin (bad run_number) into a set that is later filled, before / after the first accepted origin
    (position of the emptied set, defining origin, reference hand-out);
 4. rejected add_channel / add_zone / add_frame / add_no_format / add_tool leaving empty sets, re-used or never re-used;
 5. all 21 add_* kinds in random order over set names None / '' / 'A' / 'B' ('' == unnamed: one set);
 6. 1-3 logical files, default header values twice, per-file set names; shared set names (refused at the call or at
    write - the known family, never a silent wrong file);
 7. visible record lengths 20, 22, ... 36, 40, 50, 64, 100, 130, 200, 256, 8192, 16384 (header / origin records cut
    into 12-byte segments);
 8. header IDs '', one char, exactly 65 chars, leading / trailing blanks; sequence numbers 1 ... 9999999999;
 9. header objects named '0', 'A', 'Z';
10. file_set_number 0, 127/128, 16383/16384, 2**30-1, 2**30 (struct error), -1 (error), True, 5.0, numpy.uint8,
    numpy.float32, Fraction, Decimal, '5' (TypeError), AttrSetup(value, units), {'units': ...} / AttrSetup() (random
    number still supplied); re-assignment (refused); high-compatibility default;
11. IntEnum, IntFlag sequence numbers (correct), numpy integers / bool / float (refused);
12. two writes of one DLISFile with objects, an origin in a new set, no-format data and a whole logical file added in
    between; logical_files reversed; one logical file listed twice;
13. lf.file_header_item replaced by a hand-made FileHeaderItem (refused until it has an origin reference; then
    correct); header_id changed after add_origin (refused until file_id follows; then correct);
14. frame / origin / channel renamed before the first and between two writes (IFLR references follow);
15. frame moved to a second origin; both origins' references changed (header reference then refused);
16. objects made with the public constructors (OriginItem with a foreign file_id as a later origin, ChannelItem,
    FrameItem) inside the sets of a logical file;
17. two frames named alike and two no-format objects named alike in one set (copies 0 / 1), a no-format object named
    '', empty no-format payloads, origin references 200 and 20000 (2- and 4-byte UVARI in the IFLR references);
18. high-compatibility mode for the whole build + write;
19. copy.deepcopy(DLISFile) (fails with TypeError in EFLRSetsDict - no output);
20. wrong objects as file_header= (str, set, other item types: AttributeError at add_origin, nothing written);
21. same FileHeaderItem in two DLISFile objects (each output has one header object);
22. add_logical_file(file_header=fh, fh_id=..., fh_sequence_number=...): keyword values ignored as documented;
23. group referring to the file header object; items referring to another logical file's objects (refused);
24. frame whose channels were emptied / replaced by another logical file's channel (refused);
25. row windows giving zero rows, several frames, channel in two frames (warning only);
26. exceptions raised lazily while records are produced (non-ASCII text, parameter value / zone mismatch, too large
    origin reference): the call raises; what is on disk is a prefix made of whole visible records - treated as the
    known "failed write" family, not reported;
27. code reading for: a second place that yields sets (none), set types sharing a set_type (none), item classes doing
    work after registration that could raise (only OriginItem, cannot fail), try_add_set key / identity mismatches,
    lru_cache in write_struct confusing FILE-ID / FILE-SET-NUMBER values (typed; str / int only), cached OBNAME used
    by IFLRs vs. the one in the FRAME / NO-FORMAT set (same object, invalidated on rename).
"""

import enum
import logging
import os
import struct
import tempfile

import numpy as np

logging.disable(logging.CRITICAL)

from dliswriter import DLISFile  # noqa: E402


def _header_fields(path):
    """Independent decoding of the first logical record of the file: (SEQUENCE-NUMBER, ID) texts of its only object.

    Layout: 80 bytes SUL, visible record header (4), segment header (4), then the FILE-HEADER EFLR body (the body of
    this record is 124 bytes, so with the default record length it is a single segment).
    """

    b = open(path, 'rb').read()
    pos = 80
    vrl, ff, ver = struct.unpack('>HBB', b[pos:pos + 4])
    assert (ff, ver) == (0xFF, 1)
    sl, attr, typ = struct.unpack('>HBB', b[pos + 4:pos + 8])
    assert attr & 0x80 and typ == 0 and not attr & 0x60, "first record: unsegmented EFLR of type FHLR expected"
    body = b[pos + 8:pos + 4 + sl]
    p = 0
    assert body[p] == 0xF0; p += 1                                   # set component: type only
    n = body[p]; assert body[p + 1:p + 1 + n] == b'FILE-HEADER'; p += 1 + n
    labels = []
    for _ in range(2):                                               # template: label + representation code
        assert body[p] == 0x34; p += 1
        n = body[p]; labels.append(body[p + 1:p + 1 + n].decode()); p += 1 + n
        assert body[p] == 20; p += 1                                 # ASCII
    assert labels == ['SEQUENCE-NUMBER', 'ID']
    assert body[p] == 0x70; p += 1                                   # object component
    p += 1 + 1                                                       # origin (<128), copy
    n = body[p]; p += 1 + n                                          # object name
    vals = []
    for _ in range(2):
        assert body[p] == 0x21; p += 1                               # attribute: value only
        n = body[p]; vals.append(body[p + 1:p + 1 + n].decode('ascii')); p += 1 + n
    return vals[0], vals[1]


def _write(sequence_number, path):
    df = DLISFile()
    lf = df.add_logical_file(fh_id='MY-ID', fh_sequence_number=sequence_number)
    lf.add_origin('O')
    ch = lf.add_channel('DEPTH', data=np.arange(4.))
    lf.add_frame('MAIN', channels=(ch,), index_type='BOREHOLE-DEPTH')
    df.write(path, output_chunk_size=2 ** 20)


def finding_1():
    """(int, Enum) member as the file header's sequence number: accepted, written as 'Seq.THIRD' instead of '3'."""

    class Seq(int, enum.Enum):
        THIRD = 3

    class Tagged(int):      # the same with any int subclass that prints differently
        def __str__(self):
            return '#%d' % int(self)

    d = tempfile.mkdtemp(prefix='c09_')
    violated = []
    for user_number in (Seq.THIRD, Tagged(3)):
        path = os.path.join(d, 'f1.dlis')
        _write(user_number, path)   # accepted without complaint
        seq, hid = _header_fields(path)
        expected = str(int(user_number)).rjust(10)
        assert hid == 'MY-ID'.ljust(65)
        violated.append(seq != expected)
        try:
            import dlisio
            with dlisio.dlis.load(path) as (f, *_):
                assert f.fileheader.sequencenr.strip() == seq.strip()   # dlisio sees the same text
        except ImportError:
            pass
    return all(violated)


FINDINGS = [
    (finding_1, "an (int, Enum) member / int subclass given as fh_sequence_number is accepted but SEQUENCE-NUMBER "
                "holds its str() ('   Seq.THIRD') instead of the user's number right-justified ('         3')"),
]


if __name__ == '__main__':
    if not FINDINGS:
        print('NO FINDINGS')
    for i, (func, description) in enumerate(FINDINGS, 1):
        try:
            ok = func()
        except Exception as exc:  # noqa
            ok = False
            description += f' [reproduction raised {type(exc).__name__}: {exc}]'
        print(f"FINDING {i}: {description} -> {'VIOLATED' if ok else 'not reproduced'}")
