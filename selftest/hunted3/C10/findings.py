"""C10 (chunk sizes are invisible; the file on disk only ever grows by whole records) - hunt round 3.

(FINDINGS.md could not be created by the tooling; its content is this docstring.)

RESULT: NO FINDINGS. No input, configuration or call sequence was found for which a write that completes produces
bytes depending on input_chunk_size / output_chunk_size, a size differing from ByteWriter.total_size, a left-over of
the previous content of the target path, or an intermediate flush that is not a prefix of the final file ending on a
visible-record boundary.

Why the property holds by construction (file/writer.py, file/file.py, file/multi_frame_data.py,
utils/source_data_wrappers.py, logical_record/core/logical_record/logical_record_bytes.py, iflr_types, frame.py,
channel.py):
 * every logical-record segment becomes exactly one visible record; BufferedOutput.add_bytes only ever receives whole
   visible records, flushes *before* adding one that would not fit, and output_chunk_size >= max record length is
   enforced, so a flush can only fall between two visible records (the first physical write is the 80-byte label);
 * ByteWriter is created anew for each write; first physical write 'wb', later ones 'ab'; the byte count it adds is
   always len() of what it wrote;
 * everything derived from the data (dtype, width, dimension, index min / max / spacing) is computed from the whole
   row window before the file is touched; per-chunk work is an element-wise copy preceded by an element-wise range
   check, and each row is serialised on its own.
Judged independently of the library: byte comparison of files, own parsing of the visible-record chain, reading the
target back after every physical write, dlisio for decoded curves.

TRIED (all: identical bytes / prefix on a record boundary / size == reported total):
 1. record length 20, 22, 100, 8192, 16384 x input chunk None, 1, 2, 7, N, N+1, 1000 x output chunk = record length,
    same as float, +1, 2*len-1, file size, file size-80, file size+1, 2**20, float(2**21); two logical files, two
    frames of different row counts each, a 40-wide float64->float32 channel spanning many visible records, no-format
    records (bytes and str), a multi-record COMMENT set; file read back after EVERY physical write.
 2. segment-shortening path (0 < remaining < 12) and padded short segments under record length 20 / 22 across flushes.
 3. input_chunk_size=True, IntEnum member; output_chunk_size as numpy.float64, IntEnum, float; falsy values
    (0, 0.0, False, '') silently mean the 4 GiB default - same bytes.
 4. rejected forms: input chunk 0 / negative / float / numpy int (refused before the file is touched); output chunk
    NaN, inf, fractional, < record length, numpy int (refused; known truncation of the target applies).
 5. prior content of the target: random bytes 2x / 3x as long as the new file, shorter file, a symlink to a longer
    file, pathlib.Path target, the same path written several times in a row.
 6. data given at add_channel, as dict at write, as HDF5 path (str, pathlib.Path), as structured array.
 7. structured sources: packed native (view fast path), numpy.recarray, strided view, doubly reversed view, big-endian
    fields, align=True dtype, extra fields in another order (copy path), sub-array fields.
 8. row windows from_idx / to_idx on the fast path and the copy path with dividing / non-dividing chunk sizes;
    from_idx / to_idx as bool, numpy integers (small unsigned types overflow up front, independent of chunking),
    floats (refused for every chunk size).
 9. dict sources with Fortran-ordered 2-D arrays, numpy.matrix, numpy.memmap (of another file), big-endian arrays,
    an (N, 1)-shaped array (one-row chunks included).
10. HDF5 sources with big-endian data sets, chunked + gzip-compressed 2-D data sets.
11. declared casts float64->float32, float64->int32 (in range), uint8 / uint16 sources; per-chunk range check of a
    non-index channel vs whole-data check of the index channel: same verdict for every chunk size.
12. one DLISFile holding an object of almost every type (axis, long name, zone, parameter, equipment, tool,
    calibration measurement / coefficient / calibration, computation, process, splice, well reference point, path,
    message, comment, group, no-format, a channel outside any frame) written four times with different chunk sizes:
    four identical files.
13. a write refused for a bad chunk argument followed by a good write of the same object: equals a fresh write.
14. several DLISFile objects written alternately in one process to the same / different paths (lru_caches of
    struct_writer / segment_attributes hold immutable encodings only).
15. write inside high_compatibility_mode(): nothing in the writer path reads the flag.
16. frame data wider than one visible record with output chunk == record length (flush between the segments of one
    logical record: still a visible-record boundary).
17. output chunk exactly the file size, file size-80, file size+1: no empty / doubled final write changes the bytes.
18. record count announced to the progress bar vs records generated (an under-count would abort the write mid-file):
    equal for empty sets, several sets per type, no-format data, several logical files.
19. ByteWriter.write_bytes(size=0 / None), BufferedOutput.add_bytes size bookkeeping ('size or len(bts)').
20. storage-unit-label forms (sequence number as text, 60-character identifier, max_record_length re-assigned on the
    label object before the write): the label stays 80 bytes, the writer uses the re-assigned length.
21. no-format payloads as bytes, str, bytearray; long payloads spanning dozens of visible records.
22. one data set shared by two channels / two frames; frames with different row counts.
23. OrderedDict as data; data merged over data given at add_channel.
24. np.seterr(all='raise') / warnings as errors: no chunk-dependent warning is left (float casts are range-checked
    element-wise before numpy casts).
25. timeit wrapper (gc disabled during the write), h5py handles left open by earlier writes: no effect on bytes.
26. direct use of DLISWriter (write_storage_unit_label + write_logical_records) with the same chunk sizes.

OBSERVATIONS NOT COUNTED AS FINDINGS:
 * a write that FAILS because of a later row (NaN in a non-index channel with a declared integer cast; checked per
   loaded chunk in SourceDataWrapper.load_chunk) raises the same ValueError for every chunk size, but the partial file
   left behind differs (934 / 1028 / 1132 bytes for input_chunk_size None / 4 / 1); each still ends on a
   visible-record boundary. The statement speaks about the file a write produces; failed writes fall under the known
   item 'a write refused ... has already truncated the target file' and the failed-write monitors of C20.
 * an OS failure inside a physical write (RLIMIT_FSIZE) leaves a partial visible record on disk - environment fault.
 * Path(filename).resolve() in the final log line raises for a bytes path after the file is complete - bytes is not
   a file_name_type.

Running this module re-runs a compact version of sweep 1 (about 2 s) as a sanity check and prints `NO FINDINGS`.
"""

import contextlib
import io
import os
import tempfile
from datetime import datetime

import numpy as np


def _sweep() -> int:
    """Return the number of (input chunk, output chunk) combinations violating C10 in a small sweep."""

    from dliswriter import DLISFile
    from dliswriter.file import writer as W

    flushes: list = []
    orig = W.ByteWriter.write_bytes

    def tapped(self, bts, size=None):  # observe the file after every physical write
        orig(self, bts, size)
        with open(self.filename, 'rb') as f:
            flushes.append((f.read(), self.total_size))

    def boundaries(b: bytes) -> set:
        pos, out = 80, {80}
        while pos < len(b):
            assert b[pos + 2:pos + 4] == b'\xff\x01'
            pos += int.from_bytes(b[pos:pos + 2], 'big')
            out.add(pos)
        assert pos == len(b)
        return out

    n = 23
    rng = np.random.default_rng(1)
    data = {"D": np.arange(n) * 0.5, "A": rng.normal(size=(n, 3)).astype(np.float32),
            "C": rng.normal(size=(n, 40)) * 1e3, "T": np.arange(n // 2 + 1, dtype=np.int32)}

    def make(vrl: int):
        df = DLISFile(max_record_length=vrl)
        for li in range(2):
            sn = f"S{li}"
            lf = df.add_logical_file(fh_id=f"LF{li}", fh_sequence_number=li + 1)
            lf.add_origin(f"O{li}", creation_time=datetime(2020, 1, 2), file_set_number=7, set_name=sn)
            ch = {k: lf.add_channel(k, data=v, set_name=sn, cast_dtype=(np.float32 if k == 'C' else None))
                  for k, v in data.items()}
            lf.add_frame("F1", channels=[ch['D'], ch['A'], ch['C']], index_type='BOREHOLE-DEPTH', set_name=sn)
            lf.add_frame("F2", channels=[ch['T']], set_name=sn)
            nf = lf.add_no_format("NF", set_name=sn)
            lf.add_no_format_frame_data(nf, b"abc" * 500)
            lf.add_comment("CM", text=["x" * 200] * 10, set_name=sn)
        return df

    bad = 0
    W.ByteWriter.write_bytes = tapped
    try:
        with tempfile.TemporaryDirectory() as tmp:
            p = os.path.join(tmp, 'o.dlis')
            for vrl in (20, 100, 8192):
                with contextlib.redirect_stderr(io.StringIO()):
                    make(vrl).write(p, output_chunk_size=2 ** 20)
                with open(p, 'rb') as f:
                    ref = f.read()
                bounds = boundaries(ref)
                for ics in (None, 1, 7, 23, 24, True):
                    for ocs in (vrl, float(vrl), vrl + 1, len(ref), len(ref) + 1):
                        with open(p, 'wb') as f:
                            f.write(os.urandom(2 * len(ref)))  # prior content, longer than the new file
                        flushes.clear()
                        with contextlib.redirect_stderr(io.StringIO()):
                            make(vrl).write(p, input_chunk_size=ics, output_chunk_size=ocs)
                        with open(p, 'rb') as f:
                            b = f.read()
                        ok = b == ref and flushes[-1][1] == len(b)
                        for content, total in flushes:
                            ok = ok and len(content) == total and ref.startswith(content) and total in bounds
                        bad += not ok
    finally:
        W.ByteWriter.write_bytes = orig
    return bad


if __name__ == '__main__':
    violations = _sweep()
    if violations:
        print(f"(sanity sweep: {violations} unexpected mismatches - investigate)")
    print("NO FINDINGS")
