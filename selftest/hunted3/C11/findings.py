"""Findings for property C11 (all data sources are equivalent; the row window selects exactly its rows).

Run as:  cd /tmp/hunt3/C11 && PYTHONPATH=/tmp/hunt3/C11/src /venv/bin/python findings.py

FINDING 1 (file level): a valid row window whose bounds are numpy integer scalars of different widths
    (e.g. from_idx=np.uint8(200), to_idx=np.uint16(300)) together with an input chunk size makes the row arithmetic
    `self._from_idx + start` wrap around in the narrow type. With a structured-array source the write SUCCEEDS and the
    file silently holds the wrong rows (40 rows 260..299 instead of 100 rows 200..299, while INDEX-MIN/MAX say 200..299);
    with a dict / HDF5 source the very same call is refused with a broadcast ValueError; without chunking, or with the
    pre-sliced arrays, or with Python ints, the right file is written.

FINDING 2 (sub-module level, same root cause = no validation on the structured-array short cut):
    NumpyDataWrapper.load_chunk() hands out rows outside the wrapper's [from_idx, to_idx) window
    (load_chunk(0, 8) on a 3-row window returns 8 rows; load_chunk(-1, 2) returns the row before the window), where
    DictDataWrapper / HDF5DataWrapper raise ValueError for the same calls.

=====================================================================================================================
FINDINGS.md (the tool environment did not allow creating the file; its content follows)
=====================================================================================================================

Worktree /tmp/hunt3/C11 (HEAD 950dae5), numpy 2.5.3, h5py 3.16.0, dlisio 1.0.4.
Two findings, one root cause: the row window is kept as given, and the structured-array short cut does no range checks.
Finding 1 is reachable through DLISFile.write; finding 2 only through the public wrapper classes.

---------------------------------------------------------------------------------------------------------------------
Finding 1 - window bounds given as numpy integers of different widths:
            wrong rows (structured array) / refusal (dict, HDF5)

Input / call sequence

    n = 300
    d = {'DEPTH': np.arange(n) * 1.0, 'A': np.arange(n).astype(np.float32) + 0.5}
    struct = np.zeros(n, dtype=[('DEPTH', 'f8'), ('A', 'f4')]); struct['DEPTH'] = d['DEPTH']; struct['A'] = d['A']
    df = DLISFile(); lf = df.add_logical_file()
    lf.add_origin('O', creation_time=datetime(2020, 1, 1), file_set_number=1)
    chs = [lf.add_channel('DEPTH'), lf.add_channel('A')]
    lf.add_frame('FR', channels=chs, index_type='BOREHOLE-DEPTH')
    df.write(fn, data=struct, from_idx=np.uint8(200), to_idx=np.uint16(300),      # valid: 0 <= 200 < 300 <= 300
             input_chunk_size=60, output_chunk_size=2**20)

    (numpy integer scalars are what np.searchsorted, np.argmax, an element of an integer array etc. return; the two
    bounds only need to come from arrays of different integer widths.)

Required
    The file holds exactly rows 200..299 (100 frames), byte-identical to writing the pre-sliced arrays v[200:300],
    for every source kind and every chunk size.

Observed
  * structured-array source, input_chunk_size=60: the write succeeds (only a "RuntimeWarning: overflow encountered in
    scalar add"), but the file is not the expected one. dlisio: the frame has 40 rows, DEPTH 260.0 .. 299.0, frame
    numbers 1..40, while the FRAME object says INDEX-MIN 200.0 / INDEX-MAX 299.0 (computed from
    data[...][from_idx:to_idx], which does not go through the wrapping addition). 104 records are announced to the
    progress bar, 44 are written.
  * dict source and HDF5 source, same call:
    "ValueError: could not broadcast input array from shape (0,) into shape (60,)" - a valid window is refused, and the
    three source kinds do not behave alike.
  * the same window as Python ints (from_idx=200, to_idx=300), or the same numpy scalars without input_chunk_size, or
    the pre-sliced arrays: all give the expected file (byte-identical to each other) - so the outcome depends on the
    chunk size and on the type (not the value) of the bounds.
  * related refusals of valid windows, all sources: from_idx=np.uint8(200), to_idx=300 and from_idx=np.uint8(2)
    (open-ended) on 300 rows -> "OverflowError: Python integer 300 out of bounds for uint8"; from_idx=np.int8(1) on
    255 rows -> OverflowError.

Code location: src/dliswriter/utils/source_data_wrappers.py
  * SourceDataWrapper.__init__ keeps from_idx / to_idx as they come (self._from_idx = from_idx,
    self._n_rows = self._to_idx - self._from_idx), without operator.index() / int().
  * NumpyDataWrapper.load_chunk, short cut for an identically laid out source:
    "return self._data_source[self._from_idx + start:self._from_idx + stop]" - np.uint8(200) + 60 is evaluated in uint8
    (NEP 50: the Python int is the weak operand) and wraps to 4, so the first chunk is arr[200:4] (empty, silently: a
    slice clips) and the remainder chunk is arr[260:300]. There is no check of the number of rows obtained.
  * SourceDataWrapper.load_chunk (dict, HDF5): same arithmetic in
    "idx = slice(self._from_idx + start, self._from_idx + stop)"; here the wrong slice is noticed only by accident,
    when "chunk[key] = values" cannot broadcast.
  * MultiFrameData.__next__ (src/dliswriter/file/multi_frame_data.py): a data generator which ends early makes next()
    raise StopIteration, which silently ends the frame - fewer rows than len() announced go unnoticed.
  Fix direction: normalise both bounds with operator.index in SourceDataWrapper.__init__ (reject what has no
  __index__), and let the short cut of NumpyDataWrapper.load_chunk go through the range checks of the general path.

---------------------------------------------------------------------------------------------------------------------
Finding 2 - NumpyDataWrapper.load_chunk hands out rows outside the wrapper's window (sub-module level)

Input / call sequence

    from dliswriter.utils.source_data_wrappers import DictDataWrapper, NumpyDataWrapper, HDF5DataWrapper
    d = {'X': np.arange(10) * 1.0, 'Y': np.arange(10).astype(np.float32)}
    struct = <the same two columns as a structured array>;  h5 = <the same two data sets in an HDF5 file>
    m = {'X': 'X', 'Y': 'Y'}
    w = NumpyDataWrapper(struct, m, from_idx=2, to_idx=5)        # window: rows 2, 3, 4; w.n_rows == 3
    w.load_chunk(0, 8)['X']      # -> [2. 3. 4. 5. 6. 7. 8. 9.]
    w.load_chunk(-1, 2)['X']     # -> [1. 2. 3.]
    w.load_chunk(2, 1)['X'], w.load_chunk(4, None)['X']          # -> [] , []

Required
    A wrapper built with a row window gives access to exactly the rows of the window, whatever the kind of source.

Observed
    DictDataWrapper(d, m, from_idx=2, to_idx=5) and HDF5DataWrapper(h5, m, from_idx=2, to_idx=5) raise ValueError for
    all four calls ("Cannot load chunk up to row 8 because the data source has only 3 rows", "Start row cannot be
    negative", "Stop row cannot be smaller than start row", "Cannot load chunk from row 4 ..."). The structured-array
    wrapper returns 8 rows of a 3-row window (rows 5..9 lie behind to_idx), a row in front of from_idx, or nothing.
    Through DLISFile.write the chunk bounds are always in range, so this is only reachable by direct use of the public
    wrapper (or through finding 1, where the bounds wrap) - it is the missing safety net which makes finding 1 silent.

Code location: src/dliswriter/utils/source_data_wrappers.py, NumpyDataWrapper.load_chunk: the branch
    "if self._dtype == self._data_source.dtype and all(k == v ...)" returns the slice before any of the checks made in
    SourceDataWrapper.load_chunk (start < 0, start > n_rows, stop > n_rows, stop < start).

---------------------------------------------------------------------------------------------------------------------
What was tried and held (byte-identical files, or the same refusal, for inline / dict / structured array / HDF5)

Differential set-up: every case is compared byte for byte with a fresh file written from the pre-sliced arrays given
inline; a dlisio read-back of 60 random cases checked the absolute content (values, dtypes, frame numbers) as well.

 1. Random frames (1-7 channels, all eight supported dtypes, widths none/1/2/3/5/200/5000), every window
    0 <= f < t <= N incl. open-ended, single-row windows, N = 1, chunk sizes None/1/2/3/7/10/16/100 (> N), all sources.
 2. Permuted source order (dict key order, structured field order, HDF5 creation order), extra unused data sets/fields.
 3. dataset_name mappings: identity, full permutations among the channel names (crosswise), fresh names, mixed,
    nested HDF5 groups (g/D_x), soft links, leading slash.
 4. Several frames on one source, a channel shared by two frames, channel copies of one name in two frames pointing
    (via the dataset_name setter) at one data set, two logical files with own set names (same / different data sets).
 5. Repeated writes of one DLISFile with a different source kind / data / dtype / window / chunk size each time
    (60 x 4 writes) - always equal to a fresh build.
 6. Mutations between writes (cast_dtype, channel order in the frame, index_type, units, spacing, dataset_name,
    channel name) followed by a windowed write from a random source kind (60 x 5 steps) - equal to a fresh build.
 7. Refused writes (window too large, data set missing, uncastable value in the last chunk, unequal row counts)
    followed by a valid windowed write - equal to a fresh build, all sources.
 8. Special floats (NaN, +-inf, 1e300, 2**31 +- 0.5, 2**32, 255.5, -0.5, subnormals, -0.0, 2**63, 2**64) under
    declared casts to every supported dtype, index channel included, C- and F-ordered, field order permuted, chunk
    sizes None/1/3 with windows: outcome (bytes or exception type) identical over all 19 source/chunk variants (150 cases).
 9. Big-endian sources (dict, inline, structured, HDF5) for all eight dtypes as index, with / without casts, windows.
10. Structured arrays: np.recarray, align=True (with and without padding), field titles, fields laid out in reverse
    offset order, strided views (a[::2]), doubly reversed views, sub-array fields of width 1 and 0.
11. dict values: Fortran order, np.matrix, zero-width (N, 0), (N, 1).
12. HDF5: chunked + gzip, resizable, big-endian, enum-typed uint8, nested groups, soft link, pathlib.Path, '.HDF5'.
13. Window bounds as bool, 0-d arrays, np.int16/np.int8/np.int32/np.uint64 of one width, np.bool_ (refused alike),
    floats (refused alike), to_idx=0 / negative (refused alike).
14. Partially inline data completed by the dict given to write.
15. High-compatibility mode with windows and chunking, all sources.
16. Rows wider than a visible record (20000 bytes) with max_record_length 20 / 100 / 8192 / 16384, output chunk sizes
    2**14 and 2**20, windows and input chunks, all sources.
17. index_type=None (row-number index), decreasing / constant / non-uniform / single-row index under windows.
18. Direct calls of make_chunked_generator with 0 / negative / float chunk sizes (same behaviour for the three wrappers).

Looked at and judged outside the statement (not counted): a dict passed to write is refused when an UNUSED entry is not
an ndarray or has a non-str key (DictDataWrapper._check_source_dict checks the whole dict), whereas unused HDF5 data
sets / structured fields may be anything; an HDF5 file is recognised by its extension only (.h5 / .hdf5); data sets of
unequal length are refused even when the window lies inside all of them; dataset_name='' / '.' can only be served by a
dict; two equally named channels in one frame are refused for every source.
"""

import os
import sys
import contextlib
import logging
import tempfile
import warnings
from datetime import datetime

import numpy as np
import h5py

logging.disable(logging.CRITICAL)

from dliswriter import DLISFile  # noqa: E402
from dliswriter.utils.source_data_wrappers import DictDataWrapper, NumpyDataWrapper, HDF5DataWrapper  # noqa: E402

TMP = tempfile.mkdtemp(prefix='c11_findings_')
_counter = [0]


def _tmp(ext: str = '.dlis') -> str:
    _counter[0] += 1
    return os.path.join(TMP, f'f{_counter[0]}{ext}')


@contextlib.contextmanager
def _quiet_stderr():
    """Silence the progress bar (which writes to file descriptor 2)."""

    sys.stderr.flush()
    saved = os.dup(2)
    devnull = os.open(os.devnull, os.O_WRONLY)
    try:
        os.dup2(devnull, 2)
        yield
    finally:
        sys.stderr.flush()
        os.dup2(saved, 2)
        os.close(devnull)
        os.close(saved)


def _build(inline=None):
    df = DLISFile()
    lf = df.add_logical_file()
    lf.add_origin('O', creation_time=datetime(2020, 1, 1), file_set_number=1)
    chs = [lf.add_channel(n, data=None if inline is None else inline[n]) for n in ('DEPTH', 'A')]
    lf.add_frame('FR', channels=chs, index_type='BOREHOLE-DEPTH')
    return df


def _write(df, **kw) -> bytes:
    fn = _tmp()
    with _quiet_stderr():  # progress bar
        df.write(fn, output_chunk_size=2 ** 20, **kw)
    with open(fn, 'rb') as f:
        return f.read()


def _curves(bts: bytes):
    import dlisio
    fn = _tmp()
    with open(fn, 'wb') as f:
        f.write(bts)
    with dlisio.dlis.load(fn) as (lf,):
        fr = lf.frames[0]
        return fr.curves(), fr.index_min, fr.index_max


def finding_1() -> bool:
    n = 300
    d = {'DEPTH': np.arange(n) * 1.0, 'A': np.arange(n).astype(np.float32) + 0.5}
    struct = np.zeros(n, dtype=[('DEPTH', np.float64), ('A', np.float32)])
    struct['DEPTH'], struct['A'] = d['DEPTH'], d['A']
    h5_name = _tmp('.h5')
    with h5py.File(h5_name, 'w') as f:
        for k, v in d.items():
            f.create_dataset(k, data=v)

    f_idx, t_idx = np.uint8(200), np.uint16(300)  # a valid window: 0 <= 200 < 300 <= 300

    expected = _write(_build(inline={k: v[200:300] for k, v in d.items()}))     # pre-sliced arrays
    same_with_ints = _write(_build(), data=struct, from_idx=200, to_idx=300, input_chunk_size=60)
    unchunked = _write(_build(), data=struct, from_idx=f_idx, to_idx=t_idx)
    assert expected == same_with_ints == unchunked

    with warnings.catch_warnings():
        warnings.simplefilter('ignore')  # RuntimeWarning: overflow encountered in scalar add
        got_struct = _write(_build(), data=struct, from_idx=f_idx, to_idx=t_idx, input_chunk_size=60)

    refused = {}
    for kind, data in (('dict', d), ('h5', h5_name)):
        try:
            with warnings.catch_warnings():
                warnings.simplefilter('ignore')
                _write(_build(), data=data, from_idx=f_idx, to_idx=t_idx, input_chunk_size=60)
            refused[kind] = None
        except ValueError as exc:
            refused[kind] = str(exc)

    curves, index_min, index_max = _curves(got_struct)
    wrong_rows = (got_struct != expected and len(curves) == 40 and curves['DEPTH'][0] == 260.0
                  and (index_min, index_max) == (200.0, 299.0))
    others_refuse = all(v is not None and 'broadcast' in v for v in refused.values())
    return bool(wrong_rows and others_refuse)


def finding_2() -> bool:
    n = 10
    d = {'X': np.arange(n) * 1.0, 'Y': np.arange(n).astype(np.float32)}
    struct = np.zeros(n, dtype=[('X', np.float64), ('Y', np.float32)])
    struct['X'], struct['Y'] = d['X'], d['Y']
    h5_name = _tmp('.h5')
    with h5py.File(h5_name, 'w') as f:
        for k, v in d.items():
            f.create_dataset(k, data=v)
    mapping = {'X': 'X', 'Y': 'Y'}
    kw = dict(from_idx=2, to_idx=5)  # window: rows 2, 3, 4
    wrappers = {'dict': DictDataWrapper(d, mapping, **kw), 'struct': NumpyDataWrapper(struct, mapping, **kw),
                'h5': HDF5DataWrapper(h5_name, mapping, **kw)}

    results = {}
    for kind, w in wrappers.items():
        for args in ((0, 8), (-1, 2)):
            try:
                results[kind, args] = w.load_chunk(*args)['X'].tolist()
            except ValueError:
                results[kind, args] = 'ValueError'
    wrappers['h5'].close()

    return (results['struct', (0, 8)] == [2., 3., 4., 5., 6., 7., 8., 9.]      # 8 rows of a 3-row window
            and results['struct', (-1, 2)] == [1., 2., 3.]                      # starts before the window
            and all(results[k, a] == 'ValueError' for k in ('dict', 'h5') for a in ((0, 8), (-1, 2))))


FINDINGS = [
    (finding_1, "window bounds given as numpy integers of different widths (np.uint8 / np.uint16) + input chunks: "
                "structured-array source silently writes the wrong rows, dict / HDF5 sources refuse the same call"),
    (finding_2, "NumpyDataWrapper.load_chunk returns rows outside its [from_idx, to_idx) window where the dict / HDF5 "
                "wrappers raise"),
]


if __name__ == '__main__':
    for i, (func, description) in enumerate(FINDINGS, start=1):
        try:
            violated = func()
        except Exception as exc:  # a finding which cannot be evaluated is not reproduced
            violated = False
            description += f" [error while reproducing: {type(exc).__name__}: {exc}]"
        print(f"FINDING {i}: {description} -> {'VIOLATED' if violated else 'not reproduced'}")
