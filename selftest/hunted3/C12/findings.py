"""Reproductions for property C12 (fail-closed: a write either raises or yields a faithful, well-formed file).

Run as:  cd /tmp/hunt3/C12 && PYTHONPATH=/tmp/hunt3/C12/src /venv/bin/python findings.py      (< 1 s)

Every function builds a small file through the public API, writes it, and judges the outcome with dlisio
(an independent reader) and plain Python comparisons; nothing of the library is used for the verdict.
It returns True if the violation is observed.

(FINDINGS.md could not be created by the tooling; its content follows.)

=====================================================================================================================
C12 - third hunting round, worktree /tmp/hunt3/C12 (950dae5)
=====================================================================================================================

The library is very hardened by now: about 9 000 randomised API call sequences (several logical files, rejected
calls, renames, re-assigned origin references, re-assigned attribute values, repeated writes), 1 500 randomised data
sources (dict / structured / aligned / big-endian / HDF5, crosswise mappings, casts, row windows, chunk sizes) and
about 25 000 single "odd value per parameter" writes were all decoded with an independent strict RP66 parser
(scratch/rp66.py) and with dlisio in raise-on-everything mode, and compared with the in-memory specification
(scratch/fuzz1.py ... fuzz5.py).  Apart from the known items only the four findings below came out.  1 and 2 are
the ones I consider solid; 3 and 4 are genuine but sit next to items of the "already known" list (the difference is
spelled out).

---------------------------------------------------------------------------------------------------------------------
Finding 1 - two ORIGIN objects with the same origin reference are written (the setter bypasses add_origin's check)
---------------------------------------------------------------------------------------------------------------------
Call sequence
    df = DLISFile(); lf = df.add_logical_file()
    o1 = lf.add_origin('ORIGIN')              # origin reference 0
    ... two channels, one frame ...
    o2 = lf.add_origin('ORIGIN-2')            # origin reference 1
    lf.add_origin('X', origin_reference=1)    # -> RuntimeError "There's already an origin with origin_reference 1
                                              #    in this logical file."  (the library knows it is not representable)
    o2.origin_reference = o1.origin_reference # accepted
    df.write(path, output_chunk_size=2**20)   # returns normally

Required: an origin reference identifies ONE origin of the logical file (it is the "O" part of every object name;
the library itself refuses a second origin with a reference in use).  Not representable -> raise.

Observed: the file holds ORIGIN(origin=0, copy=0, 'ORIGIN') and ORIGIN(origin=0, copy=0, 'ORIGIN-2'); every
channel / frame / the file header refer to origin 0, which now names two different origins (different
FILE-SET-NUMBER, CREATION-TIME, ...).  dlisio: [o.origin for o in f.origins] == [0, 0].  Own strict parser:
"two origins with one origin number".  Which origin the objects belong to cannot be decoded.

Where: EFLRItem.origin_reference setter (logical_record/core/eflr/eflr_item.py:97-116; _validate_origin_reference
only checks isinstance(v, int)); uniqueness is tested only in LogicalFile.next_available_origin_ref
(file/file.py:1413-1428); the write-time check LogicalFile._check_references (file/file.py:2152-2164) builds
origin_references as a list and only tests membership, never uniqueness.

---------------------------------------------------------------------------------------------------------------------
Finding 2 - SPACING = inf written for a finite 64-bit float index
---------------------------------------------------------------------------------------------------------------------
Input: index channel np.array([-1.5e308, 1.5e308]) (float64, no cast), add_frame(..., index_type='TIME'), write.

Required: data that are written faithfully must not be described by wrong metadata; a spacing that cannot be
represented should be left out (as for a non-uniform index) or the write refused.

Observed: the write returns; the frame has INDEX-MIN = -1.5e308, INDEX-MAX = 1.5e308 and SPACING = inf (FDOUBL
7ff0000000000000): "constant index spacing of infinity" for two finite samples.  This is the 64-bit twin of the
fixed defect "float32 index spacing overflow" (5327cdd): the difference is still taken in the width of the data.
(With rows [-1.5e308, 1.5e308, 1.7e308] non-uniformity is noticed and no SPACING is written.)

Where: FrameItem._compute_spacing_and_direction (logical_record/eflr_types/frame.py:170-198): np.diff overflows to
inf, only NaN differences are screened, len(diff_unique) == 1 -> inf is returned as the spacing and assigned by
assign_if_none(self.spacing, spacing) (line 158).

---------------------------------------------------------------------------------------------------------------------
Finding 3 - non-ASCII text is accepted and silently written as something else (date-times, numbers)
---------------------------------------------------------------------------------------------------------------------
Inputs (none of them can be encoded as ASCII):
    lf.add_origin('ORIGIN-2', creation_time='２０２０/01/02　03:04:05')  # full-width year, U+3000
    lf.add_parameter('PARAM', values=['１２'])                                        # full-width "12"
    lf.add_zone('ZONE', maximum='١٢')                                               # Arabic-Indic "12"
    (same for Axis coordinates, Zone minimum, Message time, CalibrationMeasurement begin_time)

Required by the statement: "non-ASCII text ... raise an exception".

Observed: all calls and the write succeed.  Decoded: CREATION-TIME = DTIME 2020-01-02 03:04:05,
PARAMETER.VALUES = SLONG [12], ZONE.MAXIMUM = FDOUBL 12.0 - content the user did not write, from text that cannot
be represented at all.  The library treats exactly this as a defect elsewhere: the storage-unit sequence number is
tested with sequence_number.isascii() and .isdigit() (misc/storage_unit_label.py:59, fix 39c835b); the other
str->number / str->date-time routes did not get that test.

Relation to the known list: "numeric-looking text in Parameter / Axis values is turned into numbers" is known; new
is (a) that NON-ASCII text takes that route instead of being refused and (b) the date-time route (creation_time,
Zone minimum / maximum, Message time, begin_time), which is not on the list.

Where: DTimeAttribute.parse_dtime (logical_record/core/attribute/subtypes.py:157-175; datetime.strptime matches
Unicode digits for %Y and any Unicode white space for the blank), DTimeAttribute._convert_value (float(value),
line 152), convert_numeric (utils/internal/value_checkers.py:35-44; int() / float() accept any Unicode digit).

---------------------------------------------------------------------------------------------------------------------
Finding 4 - the struct memo writes the text of an earlier, equal-comparing object
---------------------------------------------------------------------------------------------------------------------
Call sequence (one process; also across different DLISFile objects, the memo is process-global):
    lf.add_origin('ORIGIN-A', file_type=Decimal('1.10'))
    lf.add_origin('ORIGIN-B', file_type=Decimal('1.1'))
    df.write(...)

Required: identifier attributes are written as str(value) (accepted design) -> ORIGIN-B FILE-TYPE = '1.1'.

Observed: ORIGIN-B's FILE-TYPE is decoded as '1.10' - the bytes cached for ORIGIN-A's value.
Decimal('1.1') == Decimal('1.10'), same hash, same type, so lru_cache(typed=True) takes them for one key; the fixes
756d0df / e2e0d01 ("do not let the write_struct memo confuse values that compare equal but are encoded
differently") only separated 1 / 1.0 / True and the sign of zero.

Relation to the known list: "identifier attributes writing str() of arbitrary objects" is known / accepted; here
the file does NOT contain str() of the object given but that of another object, and the result depends on what was
written earlier in the process.  (Reachable only through non-text values of IDENT attributes: FILE-TYPE,
FILE-SET-NAME, NAME-SPACE-NAME, DIRECTION, CONSUMER-NAME, METHOD, message TYPE.)

Where: utils/internal/struct_writer.py:154-187 (write_struct -> _write_struct memo keyed by (code, value);
write_struct_ident / write_struct_ascii encode str(value)).

---------------------------------------------------------------------------------------------------------------------
What else was tried (no violation found: everything either raised or was decoded faithfully)
---------------------------------------------------------------------------------------------------------------------
 1. visible record lengths 20..256 and 16384 x rows 1..7 x slot widths 0..31 x output_chunk_size == record length:
    own VR/LRS parser (lengths, evenness, >= 16, pad counts, predecessor/successor flags, type per segment) + dlisio
 2. empty no-format payload, bytes / bytearray / str payloads, frames with a zero-width channel, single-row frames
 3. attribute counts 127/128/16383/16384/20000, texts of 127/128/16383/16384/20000 characters, identifiers 255/256
 4. origin references 127/128/16383/16384/2**30-1/2**30, True, numpy ints, floats; copy numbers 255/256
 5. objects created before the first origin; explicit origin_reference for the first origin; rejected first origin
    followed by origins in other sets (defining origin / file header reference stay consistent)
 6. two and three logical files, same object names, NO-FORMAT data in each, tiny record lengths
 7. every parameter of every add_* method with ~130 odd values (None, '', 255/256 chars, non-ASCII, NUL, numeric
    text, bytes, str subclasses, numpy scalars / 0-d / 1-element arrays, bool, huge ints, 10**400, NaN, +-inf, -0.0,
    Fraction, Decimal, complex, naive / aware / out-of-range datetimes, date, nested / ragged / empty / mixed lists,
    tuples, sets, iterators, dict and AttrSetup forms with missing / wrong / over-long / non-ASCII / enum units):
    file == memory for everything that was written; str->number conversions only as known
 8. every reference-valued parameter with items of every type in 13 forms (single, list, tuple, duplicate, nested,
    AttrSetup, dict, None / text mixed in, set, iterator, object array)
 9. FileHeaderItem / StorageUnitLabel re-assigned after creation (sequence numbers 0, str, bool, 10**10, long /
    non-ASCII ids, float / numpy / odd record lengths)
10. ChannelItem.dataset_name re-assigned to int / list / slice / Ellipsis / tuple / bytes (dict, structured, HDF5)
11. structured sources: aligned, big-endian, reversed views, width-1 sub-arrays, recarray fields, np.matrix,
    broadcast (zero-stride) arrays, negative strides, crosswise channel / data set names, subsets in other orders
12. HDF5 sources: big-endian, chunked + gzip, nested groups, groups instead of data sets, scalar / empty / bool /
    string / float16 data sets, different row counts (first / later / inside the window), pathlib paths
13. all 8x8 declared casts with from_idx / to_idx / input_chunk_size, float -> int / narrower float range checks,
    index statistics after the cast
14. derived values over several writes: data replaced (other dtype / width / length), cast set / removed, dimension
    set, index type switched on, spacing / index_min assigned between writes, failed writes in between
15. float64 index with infinities, subnormal spacing, all-equal index, non-monotonic index
16. random API sequences with rejected calls in between: wrong types, other logical file's sets / channels, bad
    domains, bad creation times, bad file set numbers, over-long / blank / non-ASCII names, origin references of no
    origin, no-format data for non-NO-FORMAT objects, renames, attribute values re-assigned to wrong kinds
17. all object types with every attribute in one file (LONG-NAME, PATH, SPLICE, GROUP of groups, CALIBRATION chain,
    WELL-REFERENCE, MESSAGE, COMMENT ...) read through dlisio's typed accessors
18. lru_cache keys of the struct writer (1 / 1.0 / True, signed zeros, numpy scalar types, str subclasses)
19. output_chunk_size forms (float with zero fraction, == record length, fractional, numpy ints, inf, nan, 0)
20. from_idx / to_idx forms (numpy ints, bool, float, negative, 0, beyond one of two frames of different length)
21. non-text set names / '' / None combinations; sets left empty by rejected calls and re-used later
22. high-compatibility context around whole sequences (everything refused at creation or at write)
23. Unicode digits in the storage-unit sequence number (refused: isascii) -> led to Finding 3 for the other parsers
24. direct construction of items (eflr_types.XItem(parent=item.parent)) with / without origin reference
25. a channel in two frames, the index channel of one frame as a plain channel of another, one dataset for two channels
26. Channel.source / Group.object_list / Computation.source pointing to frames, origins, the file header, itself
"""

import logging
import os
import sys
import tempfile
from datetime import datetime
from decimal import Decimal

import numpy as np

logging.disable(logging.CRITICAL)

from dliswriter import DLISFile  # noqa: E402
from dlisio import dlis  # noqa: E402

_TMP = tempfile.mkdtemp(prefix='c12_')


def _base(n=3, index=None, index_type='TIME'):
    """A minimal valid file: one origin, two channels, one frame."""

    df = DLISFile()
    lf = df.add_logical_file()
    origin = lf.add_origin('ORIGIN')
    idx = np.arange(n, dtype=np.float64) if index is None else index
    c1 = lf.add_channel('IDX', data=idx)
    c2 = lf.add_channel('VAL', data=np.arange(len(idx), dtype=np.float32))
    fr = lf.add_frame('FR', channels=(c1, c2), index_type=index_type)
    return df, lf, origin, fr


def _write(df, name):
    path = os.path.join(_TMP, name)
    # (silence the progress bar, which writes to the process's standard error)
    sys.stderr.flush()
    saved = os.dup(2)
    devnull = os.open(os.devnull, os.O_WRONLY)
    os.dup2(devnull, 2)
    try:
        df.write(path, output_chunk_size=2 ** 20)
    finally:
        sys.stderr.flush()
        os.dup2(saved, 2)
        os.close(saved)
        os.close(devnull)
    return path


def finding_1():
    """Two ORIGIN objects with one and the same origin reference are written (setter bypasses add_origin's check)."""

    df, lf, o1, fr = _base()
    o2 = lf.add_origin('ORIGIN-2')                      # gets the reference 1
    try:
        lf.add_origin('ORIGIN-3', origin_reference=1)   # the library itself refuses a duplicate here ...
        return False
    except RuntimeError:
        pass
    o2.origin_reference = o1.origin_reference           # ... but not here
    try:
        path = _write(df, 'f1.dlis')
    except Exception:
        return False                                    # fail-closed: fine

    with dlis.load(path) as (f,):
        refs = [o.origin for o in f.origins]
        n_channels_of_0 = sum(1 for c in f.channels if c.origin == refs[0])
    # two different origins claim the reference that all the other objects use
    return len(refs) == 2 and refs[0] == refs[1] and n_channels_of_0 == 2


def finding_2():
    """SPACING = inf is written for a finite 64-bit float index (difference overflows)."""

    df, lf, o, fr = _base(index=np.array([-1.5e308, 1.5e308]))
    try:
        path = _write(df, 'f2.dlis')
    except Exception:
        return False

    with dlis.load(path) as (f,):
        frame = f.frames[0]
        spacing = frame.attic['SPACING'].value[0]
        index = frame.curves()['IDX']
    return bool(np.isfinite(index).all() and np.isinf(spacing))


def finding_3():
    """Non-ASCII text (full-width / Arabic-Indic digits, ideographic space) is accepted and written as something else."""

    df, lf, o, fr = _base()
    text_time = '\uff12\uff10\uff12\uff10/01/02\u300003:04:05'       # '２０２０/01/02<U+3000>03:04:05'
    text_number = '\uff11\uff12'                                      # '１２'
    text_float = '\u0661\u0662'                                       # '١٢'
    for t in (text_time, text_number, text_float):
        try:
            t.encode('ascii')
            return False
        except UnicodeEncodeError:
            pass                                                      # none of them can be written as text
    try:
        lf.add_origin('ORIGIN-2', creation_time=text_time)
        lf.add_parameter('PARAM', values=[text_number])
        lf.add_zone('ZONE', maximum=text_float)
        path = _write(df, 'f3.dlis')
    except Exception:
        return False

    with dlis.load(path) as (f,):
        ct = f.object('ORIGIN', 'ORIGIN-2').attic['CREATION-TIME'].value[0]
        pv = f.object('PARAMETER', 'PARAM').attic['VALUES'].value[0]
        zm = f.object('ZONE', 'ZONE').attic['MAXIMUM'].value[0]
    return isinstance(ct, datetime) and ct.year == 2020 and pv == 12 and zm == 12.0


def finding_4():
    """The struct memo writes the text of an EARLIER, equal-comparing object: Decimal('1.1') comes out as '1.10'."""

    df, lf, o, fr = _base()
    lf.add_origin('ORIGIN-A', file_type=Decimal('1.10'))
    ob = lf.add_origin('ORIGIN-B', file_type=Decimal('1.1'))
    expected = str(ob.file_type.value)                                # '1.1' (identifiers are written as str(value))
    try:
        path = _write(df, 'f4.dlis')
    except Exception:
        return False

    with dlis.load(path) as (f,):
        written = f.object('ORIGIN', 'ORIGIN-B').attic['FILE-TYPE'].value[0]
    return expected == '1.1' and written == '1.10'


FINDINGS = [
    (finding_1, "an origin reference assigned after creation gives two ORIGIN objects the same origin number; "
                "the write succeeds (add_origin refuses the same thing)"),
    (finding_2, "finite float64 index [-1.5e308, 1.5e308] is written with SPACING = inf"),
    (finding_3, "non-ASCII digits / spaces in date-time and numeric strings are accepted and written as "
                "a date-time / numbers instead of being refused"),
    (finding_4, "write_struct memo: Decimal('1.1') given as an identifier is written as '1.10' "
                "after an equal Decimal('1.10') has been written"),
]


if __name__ == '__main__':
    for i, (func, description) in enumerate(FINDINGS, start=1):
        try:
            violated = func()
        except Exception as exc:    # a reproduction must not crash the run
            violated = False
            description += f" [reproduction raised {type(exc).__name__}: {exc}]"
        print(f"FINDING {i}: {description} -> {'VIOLATED' if violated else 'not reproduced'}")
