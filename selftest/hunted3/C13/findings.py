"""Adversarial findings for property C13 (frame index metadata is truthful for the rows written).

Run:  cd /tmp/hunt3/C13 && PYTHONPATH=/tmp/hunt3/C13/src /venv/bin/python findings.py

FINDING 1 (low severity, numeric edge): a 64-bit float index whose single step exceeds the float64 range
(e.g. rows [-1.6e308, 1.6e308]) gets SPACING = +inf (or -inf when decreasing) written, although all index
values are finite; the statement requires SPACING to be present only if it equals the (signed) difference of
consecutive index values - which is not representable here, so SPACING should be absent and DIRECTION
(INCREASING / DECREASING) written instead.  Cause: FrameItem._compute_spacing_and_direction
(src/dliswriter/logical_record/eflr_types/frame.py, lines 170-198): np.diff on float64 overflows to inf, the single
"unique" difference inf is returned as the uniform spacing.  (The same overflow for 32-bit float indices was fixed
in a previous round by computing in 64 bits; 64-bit indices were left.)

Everything else that was tried (see FINDINGS.md) held.
"""
import logging
import os
import tempfile
import warnings

import numpy as np
import dlisio

from dliswriter import DLISFile

logging.disable(logging.CRITICAL)


def _write_and_read(index, index_type='BOREHOLE-DEPTH', **write_kwargs):
    """Write one frame (index channel + one more channel), read FRAME attributes and the index curve back."""

    df = DLISFile()
    lf = df.add_logical_file()
    lf.add_origin('O', file_set_number=1)
    idx = lf.add_channel('IDX', data=index)
    val = lf.add_channel('VAL', data=np.arange(len(index), dtype=np.float32))
    lf.add_frame('FR', channels=[idx, val], index_type=index_type)

    path = os.path.join(tempfile.mkdtemp(prefix='c13_'), 'out.dlis')
    with warnings.catch_warnings():
        warnings.simplefilter('ignore')
        df.write(path, output_chunk_size=2 ** 20, **write_kwargs)

    with dlisio.dlis.load(path) as (f, *_):
        fr = f.frames[0]
        attic = fr.attic

        def get(label):
            return attic[label].value[0] if label in attic.keys() else None

        res = {k: get(k) for k in ('INDEX-MIN', 'INDEX-MAX', 'SPACING', 'DIRECTION')}
        res['rows'] = [float(x) for x in fr.curves()['IDX']]
    os.remove(path)
    return res


def finding_1():
    """float64 index, step larger than the float64 range: SPACING=inf is written for finite index values."""

    violated = []

    # (a) two rows, increasing
    r = _write_and_read(np.array([-1.6e308, 1.6e308]))
    rows = r['rows']
    assert rows == [-1.6e308, 1.6e308] and r['INDEX-MIN'] == -1.6e308 and r['INDEX-MAX'] == 1.6e308
    # the statement: SPACING, if present, equals the difference of consecutive (finite) index values
    violated.append(r['SPACING'] is not None and not np.isfinite(r['SPACING']) and r['DIRECTION'] is None)

    # (b) decreasing, reached through a row window of a longer (non-uniform) index
    r = _write_and_read(np.array([0., 1.7e308, -1.7e308, 5.]), from_idx=1, to_idx=3)
    violated.append(r['rows'] == [1.7e308, -1.7e308] and r['SPACING'] == -np.inf and r['DIRECTION'] is None)

    return all(violated)


FINDINGS = [
    (finding_1, "a float64 index whose step exceeds the float64 range gets SPACING=+-inf (finite index values; "
                "should be no SPACING, DIRECTION instead)"),
]


if __name__ == '__main__':
    for n, (func, description) in enumerate(FINDINGS, start=1):
        try:
            observed = func()
        except Exception as exc:  # a reproduction which cannot run is not a reproduction
            print(f"FINDING {n}: {description} -> not reproduced ({type(exc).__name__}: {exc})")
        else:
            print(f"FINDING {n}: {description} -> {'VIOLATED' if observed else 'not reproduced'}")
