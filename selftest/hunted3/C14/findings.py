r"""C14 - output depends only on the current specification, not on process history: findings (hunt 3).

(FINDINGS.md could not be created by the tooling; its content is this module docstring.)

Run as:  cd /tmp/hunt3/C14 && PYTHONPATH=/tmp/hunt3/C14/src /venv/bin/python findings.py      (< 1 s)
Worktree /tmp/hunt3/C14 (HEAD 950dae5), sources imported from /tmp/hunt3/C14/src.

Summary: the model-level state that two earlier rounds went after (values derived at a write, set order, copy numbers,
OBNAME cache, date-time memo, merged data) held up against everything tried, including a differential fuzzer (see
"What else was tried"). Two leaks are left; both need an unusual - but accepted - input, so both are of low severity.
They are nevertheless plain violations of the statement ("no state cached per process or per object leaks from one
file or one write into another").

=======================================================================================================================
Finding 1 - the struct memo hands the text of an EARLIER FILE's value to an equal-but-differently-printed value
=======================================================================================================================
Input / call sequence:

    from pathlib import PureWindowsPath          # (on Windows: pathlib.Path)
    from decimal import Decimal
    def build(consumer_name, file_type):
        df = DLISFile(); lf = df.add_logical_file()
        lf.add_origin('O', file_set_number=7, creation_time=T0, file_type=file_type)
        ch = lf.add_channel('IDX', data=np.arange(4.0)); lf.add_frame('FR', channels=[ch])
        nf = lf.add_no_format('NF', consumer_name=consumer_name)     # 'e.g. an external file specification'
        lf.add_no_format_frame_data(nf, 'payload')
        return df
    build(PureWindowsPath('C:/DATA/RUN2.BIN'), Decimal('2.50')).write(p1, output_chunk_size=2**20)  # some other file
    build(PureWindowsPath('c:/data/run2.bin'), Decimal('2.5')).write(p2, output_chunk_size=2**20)   # file under test

Identifier attributes without a converter (NoFormat.consumer_name, Origin.file_type / file_set_name / name_space_name,
Frame.direction, Calibration.method, Message.type) accept any object and write str() of it (that much is on the
"already known" list). The two path objects compare equal and hash alike (Windows paths compare case-insensitively),
and so do the two Decimals - but their str() differ.

Required: file 2 is a new DLISFile; its bytes must be those a fresh process writes for it:
CONSUMER-NAME = 'c:\data\run2.bin', FILE-TYPE = '2.5' (checked: a fresh process writes exactly that; dlisio reads
['c:\\data\\run2.bin'] and '2.5').

Observed: file 2 carries the values of file 1: dlisio reads CONSUMER-NAME = 'C:\DATA\RUN2.BIN' and FILE-TYPE = '2.50'
from p2 (the bytes C:\DATA\RUN2.BIN are in p2, c:\data\run2.bin is not). With the two write calls swapped, both files
carry the lower-case / '2.5' spelling. The same happens inside one DLISFile: assign
nf.consumer_name.value = PureWindowsPath('c:/data/run2.bin') after a first write, and the second write still has the
old spelling.

Code location: src/dliswriter/utils/internal/struct_writer.py: write_struct() -> _write_struct() is
@lru_cache(maxsize=65536, typed=True), keyed on (representation_code, value, sign). typed=True only separates values
of DIFFERENT types; two objects of one type that are == (and hash alike) share one entry, although write_struct_ident /
write_struct_ascii encode str(value), which is not a function of the equality class. (Signed zeros, OBNAME/OBJREF and
DTIME were taken out of the memo in earlier rounds; arbitrary objects under IDENT were not. Other types with the same
trait: numpy.datetime64('2020-01-01') / ('2020-01-01T00:00'), complex(0.0) / complex(-0.0),
packaging.version.Version('1.0') / ('1.0.0').)

=======================================================================================================================
Finding 2 - building a second DLISFile with the same FileHeaderItem re-targets the file header of the first
=======================================================================================================================
Input / call sequence:

    from dliswriter.logical_record.eflr_types.file_header import FileHeaderItem, FileHeaderSet
    header = FileHeaderItem('HDR', parent=FileHeaderSet())        # e.g. a module-level "company header"
    def build(origin_references):
        df = DLISFile(); lf = df.add_logical_file(file_header=header)      # documented argument
        for i, r in enumerate(origin_references):
            lf.add_origin(f'O{i}', file_set_number=7, creation_time=T0, origin_reference=r)
        ch = lf.add_channel('IDX', data=np.arange(4.0)); lf.add_frame('FR', channels=[ch])
        return df
    df1 = build([3, 5]); df1.write(pa, output_chunk_size=2**20)
    build([5])                                  # another file is built (it does not even have to be written)
    df1.write(pb, output_chunk_size=2**20)      # df1 has not been touched

Required: pb byte-identical to pa (= what a fresh process writes for df1: FILE-HEADER object (origin 3, copy 0, '0'),
the reference of df1's defining origin).

Observed: pa != pb. First difference at byte 125, in the FILE-HEADER object name:
'...ID\x14p\x03\x00\x010!...' in pa vs '...ID\x14p\x05\x00\x010!...' in pb; dlisio: fileheader.origin == 5 in pb.
The change is silent because 5 happens to be one of df1's origins; with build([7]) as the second file, the second
df1.write is refused instead ("Origin reference 7 of FileHeaderItem... is not that of any origin of the logical
file") - not what a fresh process does either.

Code location: src/dliswriter/file/file.py, LogicalFile.add_origin (l. 1597-1598):
'self.file_header_item.origin_reference = o.origin_reference' mutates the caller-supplied header object whenever a
logical file gets its first origin. The guard added in round 2 (_check_sets_not_shared: "is the file header of two
logical files") only looks at self.physical_file.logical_files, i.e. at the logical files of ONE DLISFile; a header
shared by logical files of two DLISFile objects goes unnoticed, and per-object state (the origin reference stored on
the header) leaks from one file into the other.
(Caveat: the user does share one mutable object between two files. But add_logical_file(file_header=...) invites a
pre-built header, nothing says it is consumed, the same object passed twice to ONE file is explicitly refused, and
StorageUnitLabel - the other pre-built object the API accepts - can be shared without any effect.)

=======================================================================================================================
What else was tried (no violation found)
=======================================================================================================================
All comparisons byte-for-byte against a build of the final specification alone (fresh DLISFile; flagged cases
re-checked in a fresh interpreter).
 1. NumericAttribute conversion depending on the representation code inferred from the PREVIOUS value
    (_convert_number): all un-coded numeric attributes end up as Python floats whatever was there before - no effect.
 2. Frame INDEX-MIN/MAX/SPACING/DIRECTION and their units across writes: index type None -> set, channel units changed
    / removed, user-assigned value or units before and after a write, row windows (from_idx/to_idx) on one write only,
    input_chunk_size differing per write.
 3. Channel DIMENSION / ELEMENT-LIMIT / representation code / default LONG-NAME across writes: write(data=...)
    overrides with another dtype and shape on one write only, cast dtype set and removed again, channel renamed and
    renamed back, channels of a frame re-ordered / dropped / restored, index channel becoming a non-index channel.
 4. A write failing late (NaN under a declared int cast, detected when the chunk is loaded, after the EFLRs were
    produced) followed by a good write.
 5. Partly consumed generate_logical_records() generators, and generate_logical_records() without a write.
 6. Writes in and out of high_compatibility_mode() of one object (refused and accepted ones).
 7. Rejected add_* calls (all object types, fresh and already-used set names, '' vs None), before / between / after
    successful ones, and property look-ups (channels, frames, origins, defining_origin) at any point: set and type
    order, copy numbers, data-set names, origin references unaffected.
 8. Origins: explicit vs automatic references, items created before the first origin, second origin in an earlier /
    later set, origin reference of an item changed and restored around a write.
 9. Logical file added after a first write; two logical files with own set names.
10. File header ID + origin FILE-ID changed and restored around a write; SUL max_record_length changed and restored.
11. Struct memo: values of different types (1 / 1.0 / True, numpy scalars), signed zeros, NaNs, same value under
    different representation codes, eviction - only Finding 1 came out of this.
12. 'ushort' memo of the segment attributes, LRMeta.lr_type_struct (per class, also for subclasses), cached obname
    (name / origin reference / rejected rename / OBJREF path / FrameData and no-format records).
13. Other files built and written in between that reuse all names with other values, types, copy numbers, origins.
14. HDF5 source: file replaced between two writes (handles are released after a write; they are only kept alive by a
    retained exception / traceback of a failed write - the next h5py.File(..., 'w') then fails, no effect on bytes).
15. timeit (gc switched off during the write), progressbar, numpy error state, hash randomisation (no set is ever
    iterated for output), module-level / class-level mutable attributes (dtime_formats, converter tables, ...):
    nothing is written to them by the library.
16. Hand-built OriginItem without FILE-ID (FILE-ID derived at the first write is kept): needs a private set object,
    not reachable through the public API - dropped.
17. copy.deepcopy(DLISFile): fails (EFLRSetsDict.__init__ takes no default factory) - not a C14 matter.
18. A differential fuzzer (scratch/fz.py, scratch/fz2.py): random clean build programs (1-2 logical files, 12 object
    types, random set names, AttrSetup / dict forms, record lengths 64 / 200 / 8192) against the same programs with
    random "noise" between the steps - extra writes with other options, hc-mode writes, rejected calls, look-ups,
    other files, data overrides, partly consumed generators, and mutate-[write]-restore of names, cast dtypes, units,
    frame channels, index types, origin references, header IDs, record length. 600 seeds x 2 noise models, clean and
    noisy runs in separate interpreters: 0 differences.
"""

import logging
import os
import tempfile
from datetime import datetime
from decimal import Decimal
from pathlib import PureWindowsPath

import numpy as np

logging.disable(logging.CRITICAL)

import dliswriter.file.writer as _writer_module                                     # noqa: E402
from dliswriter import DLISFile                                                     # noqa: E402
from dliswriter.logical_record.eflr_types.file_header import FileHeaderItem, FileHeaderSet    # noqa: E402

_writer_module.progressbar = lambda it, **kw: it    # no progress bar on stderr (does not touch the bytes)

T0 = datetime(2020, 1, 2, 3, 4, 5)
_TMP = tempfile.mkdtemp(prefix='c14_')
_counter = [0]


def _write(df: DLISFile, **kwargs) -> tuple[bytes, str]:
    _counter[0] += 1
    path = os.path.join(_TMP, f'out{_counter[0]}.dlis')
    df.write(path, output_chunk_size=2 ** 20, **kwargs)
    with open(path, 'rb') as f:
        return f.read(), path


def _dlisio_load(path):
    import dlisio
    dlisio.common.set_encodings(['latin1'])
    return dlisio.dlis.load(path)


# ----------------------------------------------------------------------------------------------------------------------
def finding_1() -> bool:
    """Struct memo: IDENT values that compare equal, but print differently, leak from one file into the next.

    File 1 (another DLISFile, written earlier in the process) names its no-format data C:/DATA/RUN2.BIN,
    file 2 (a new DLISFile) names its data c:/data/run2.bin - as pathlib paths ('an external file specification').
    File 2 is written with the spelling of file 1.  Same for Decimal('2.50') / Decimal('2.5') as ORIGIN:FILE-TYPE.
    """

    def build(consumer_name, file_type):
        df = DLISFile()
        lf = df.add_logical_file()
        lf.add_origin('O', file_set_number=7, creation_time=T0, file_type=file_type)
        ch = lf.add_channel('IDX', data=np.arange(4.0))
        lf.add_frame('FR', channels=[ch])
        nf = lf.add_no_format('NF', consumer_name=consumer_name)
        lf.add_no_format_frame_data(nf, 'payload')
        return df

    first_name, first_type = PureWindowsPath('C:/DATA/RUN2.BIN'), Decimal('2.50')
    second_name, second_type = PureWindowsPath('c:/data/run2.bin'), Decimal('2.5')
    assert first_name == second_name and str(first_name) != str(second_name)
    assert first_type == second_type and str(first_type) != str(second_type)

    _write(build(first_name, first_type))                      # process history: some other file
    bts, path = _write(build(second_name, second_type))        # the file under test: a new DLISFile

    # what a fresh process writes for the second specification: str() of the values given
    expected_name, expected_type = str(second_name), str(second_type)

    # independent reading of the file
    try:
        with _dlisio_load(path) as (f, *_):
            nf = f.object('NO-FORMAT', 'NF')
            got_name = nf.attic['CONSUMER-NAME'].value[0]
            got_type = f.origins[0].file_type
    except Exception:  # dlisio not usable: look at the bytes
        got_name = expected_name if expected_name.encode() in bts else \
            (str(first_name) if str(first_name).encode() in bts else None)
        got_type = str(first_type) if b'\x042.50' in bts else (expected_type if b'\x032.5' in bts else None)

    return got_name != expected_name and got_name == str(first_name) \
        and got_type != expected_type and got_type == str(first_type)


# ----------------------------------------------------------------------------------------------------------------------
def finding_2() -> bool:
    """A file header object handed to two DLISFile objects: building the second file re-targets the header of the first.

    add_origin() of the second file's logical file assigns ITS first origin's reference to the (shared) FileHeaderItem.
    The first DLISFile - not touched in between - is then written with another FILE-HEADER object name
    (origin 5 instead of 3), silently; if 5 were not among its origins, the write would be refused.
    """

    header = FileHeaderItem('HDR', parent=FileHeaderSet())

    def build(origin_references):
        df = DLISFile()
        lf = df.add_logical_file(file_header=header)
        for i, r in enumerate(origin_references):
            lf.add_origin(f'O{i}', file_set_number=7, creation_time=T0, origin_reference=r)
        ch = lf.add_channel('IDX', data=np.arange(4.0))
        lf.add_frame('FR', channels=[ch])
        return df

    df1 = build([3, 5])
    before, _ = _write(df1)

    build([5])                      # another file is merely built (not even written)

    after, path = _write(df1)       # the same, untouched DLISFile written again

    try:
        with _dlisio_load(path) as (f, *_):
            fh_origin_after = f.fileheader.origin
    except Exception:
        fh_origin_after = None

    # (a fresh process writing df1 gives 'before': the header belongs to the defining origin, reference 3)
    return before != after and fh_origin_after in (5, None)


# ----------------------------------------------------------------------------------------------------------------------
FINDINGS = [
    (finding_1, "IDENT values that are equal but print differently (pathlib paths differing in case, Decimal('2.5') / "
                "Decimal('2.50')) are written with the text memoised for an earlier file"),
    (finding_2, "building a second DLISFile with the same FileHeaderItem changes the FILE-HEADER origin written "
                "by the first, untouched DLISFile"),
]


if __name__ == '__main__':
    for n, (func, description) in enumerate(FINDINGS, start=1):
        try:
            violated = bool(func())
        except Exception as exc:  # a reproduction that breaks is not a reproduction
            print(f"FINDING {n}: {description} -> not reproduced ({type(exc).__name__}: {exc})")
            continue
        print(f"FINDING {n}: {description} -> {'VIOLATED' if violated else 'not reproduced'}")
