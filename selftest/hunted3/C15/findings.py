"""C15 (writability never hinges on byte-size coincidences) - hunt round 3.

(FINDINGS.md could not be created by the tool; its content is this docstring.)

RESULT: NO FINDINGS.  After reading the whole write path (file.py, writer.py, logical_record_bytes.py,
segment_attributes.py, frame_data.py, no_format_frame_data.py, eflr_set.py / eflr_item.py, attribute.py, struct_writer.py,
storage_unit_label.py, file_header.py, source_data_wrappers.py, multi_frame_data.py) and some 12 000 generated files, no
input was found for which the library as it is (HEAD 950dae5) refuses, or mis-writes, a valid specification because of the
number of bytes its records occupy, nor an accepted maximum record length that cannot be written with.

Oracles (independent of the library): an own parser of the physical layer (SUL, visible-record headers, segment headers,
flags, pad counts, reassembly: scratch/h.py::phys), bytewise comparison of reassembled no-format bodies with the payloads,
dlisio with an error handler raising on every severity, comparison of frame.curves() with the arrays handed in.

WHAT WAS TRIED (all clean)

Physical layer / segmentation
 1. Brute force of LogicalRecordBytes.make_segments: every even capacity 12..118 x every body length 1..699, capacities
    8184 / 16376 x lengths around 1, 2, 3 capacities +-14: even length, >= 16, <= capacity + 4, flags, pad count,
    reassembly == body (scratch/t4.py).
 2. End-to-end sweep of EVERY accepted maximum record length (20, 22, ..., 16384; 8183 files): 1-byte frame, frame whose
    row is exactly mx bytes, no-format payloads of 0, 2, capacity-4, capacity-3, capacity-2, 2*capacity-2 bytes, written
    with output_chunk_size == mx (scratch/t10.py).
 3. output_chunk_size equal to the record length (20, 32, 8192, 16384), one above, as float (20.0, 16384.0), odd (23, 47);
    buffer filled exactly; final flush of an empty buffer.
 4. Re-balanced next-to-last segment shorter than 12 bytes (capacity 12..22): padded middle segments, accepted by dlisio.
 5. Record length changed between two writes of one DLISFile (8192 -> 20 -> 16384).
 6. Two / three logical files, interleaved no-format records, announced record count (real progress bar always in the loop).

Sizes of names and values
 7. Names of 1, 127, 128, 255 characters for EVERY add_* object type (22 set types), set names of the same length, two
    objects per name (copy numbers 0 / 1), references through OBNAME (GROUP.OBJECT-LIST) and OBJREF (CHANNEL.SOURCE), at
    record lengths 20, 26, 8192, 16384; decoded by dlisio (scratch/t8.py).
 8. Storage set identifier of 60, file header id of 65, units of 255 characters.
 9. A name of 256 characters refused at write, shortened to 255, written.
10. Text attributes of 0, 127, 128, 16383, 16384, 70000 characters (UVARI length boundaries), also inside lists.
11. Attribute counts 127, 128, 16383, 16384, 70000 (AXIS.COORDINATES), record lengths 20 and 8192.
12. Origin references 0, 127, 128, 16383, 16384, 2**30-1 (OBNAME of 4 / 5 / 7 bytes -> IFLR bodies of 4..9 bytes).
13. Frame numbers crossing 128 and 16384 (20000 one-byte rows at record length 20; input chunk sizes 1, 16384, None).

Row widths
14. One uint8 / int8 channel (6-byte body), one-column 2-D channel (n, 1), zero-width channel (n, 0) beside a normal one,
    widths 2, 3, 5, 17, 127, 128, 129, 3000, 70000, 200000 x float64.
15. 300 channels in one frame (304-byte rows at record length 20).
16. The same through every source kind: arrays at add_channel, dict at write, structured array (zero-copy path), HDF5
    (1-D, (n,1), (n,w)), with / without declared cast, input chunk sizes 1, 2, 7, 1000.
17. Rows of exactly the record length, of 5*mx+1 bytes (odd, many capacities).

No-format payloads
18. Lengths 0, 1, 2, 3, 7, 8, 9, 11, 12, 13, capacity-5..capacity+1, 2*capacity(+1), 3*capacity-7, 3*capacity+11, random
    bytes incl. trailing 0x00 / 0x01, bytes and str, under names of 1..255 characters; compared bytewise.
19. No-format object without data records; records under the second of two same-named objects.

Call sequences / configurations
20. Random end-to-end fuzz (scratch/fuzz.py, 3000 seeds): record length from the whole range, 1..3 logical files, 1..3
    frames, 1..6 channels, all 8 dtypes, casts, index types, name lengths 1..255, payload lengths tied to the capacity,
    descriptions up to 20000 characters, four source kinds, chunk sizes. 0 failures.
21. High-compatibility mode at the size extremes.
22. Several DLISFile objects with different record lengths in one process (class-level caches are not size dependent).
23. Refused write (too long name) followed by a corrected one.
24. Forms of max_record_length: bool, float, numpy integer, IntEnum - refused by the writer's check or identical to int;
    odd / 18 / 16386 refused. None accepted-but-unwritable.
25. DLISWriter / StorageUnitLabel used directly with 20 and 16384.
26. OBNAME of a 255-character frame name spanning 22 segments at record length 20: dlisio finds the frame data.
27. File header sequence number of 10 digits, SUL sequence number 9999 (field widths 10 / 4).
28. Empty lists / empty strings as attribute values.

OBSERVATIONS OUTSIDE WHAT THE STATEMENT SPEAKS ABOUT (not counted; cliffs in counts / magnitudes, not record byte sizes)
 * One-row indexed frame in high-compatibility mode: add_frame(..., index_type='BOREHOLE-DEPTH', spacing=1.0) with a
   1-row index channel -> write() raises "Spacing of the index channel ... is not uniform" inside
   high_compatibility_mode() although the spacing was supplied; 2 rows are written.  _compute_spacing_and_direction
   returns (None, None) for one row and _setup_frame_params_from_data (frame.py:147-154) raises on `spacing is None`
   without looking at self.spacing.value.  (observation_hc_single_row below)
 * Integer attribute values >= 2**31 where the code is inferred (AXIS.COORDINATES, PARAMETER / COMPUTATION VALUES):
   add_axis('AX', coordinates=[2**31]) -> struct.error "'i' format requires ..." at write; 2**31-1 is written.
 * More than 256 same-named objects in one set: the 257th gets copy number 256 -> raw struct.error "'B' format" at write.
 * sul_sequence_number=10000 passes the constructor, refused only at write by the 4-character field (legitimate, late).

Run as:  cd /tmp/hunt3/C15 && PYTHONPATH=/tmp/hunt3/C15/src /venv/bin/python findings.py
"""

import logging
import os
import struct
import tempfile

import numpy as np

logging.disable(logging.CRITICAL)

from dliswriter import DLISFile, high_compatibility_mode  # noqa: E402

TMP = tempfile.mkdtemp(prefix='c15_findings_')


def _write(df, name='x.dlis', **kw):
    path = os.path.join(TMP, name)
    kw.setdefault('output_chunk_size', 2 ** 20)
    # the (real) progress bar draws on the process' stderr: silence it at file-descriptor level for the time of the write
    saved, devnull = os.dup(2), os.open(os.devnull, os.O_WRONLY)
    try:
        os.dup2(devnull, 2)
        df.write(path, **kw)
    finally:
        os.dup2(saved, 2)
        os.close(saved)
        os.close(devnull)
    return path


def _physical(path):
    """Independent parse of SUL / visible records / segments; returns [(is_eflr, type, body)]."""

    b = open(path, 'rb').read()
    mx = int(b[15:20])
    pos, recs, cur = 80, [], None
    while pos < len(b):
        vlen, ff, one = struct.unpack('>HBB', b[pos:pos + 4])
        assert (ff, one) == (255, 1) and vlen <= mx and vlen % 2 == 0 and vlen >= 20
        end, p = pos + vlen, pos + 4
        while p < end:
            slen, attr, typ = struct.unpack('>HBB', b[p:p + 4])
            assert slen >= 16 and slen % 2 == 0 and p + slen <= end
            body = b[p + 4:p + slen]
            if attr & 1:
                assert 1 <= body[-1] <= len(body)
                body = body[:-body[-1]]
            if not attr & 0x40:
                assert cur is None
                cur = [bool(attr & 0x80), typ, bytearray(body)]
            else:
                assert cur is not None and cur[1] == typ
                cur[2] += body
            if not attr & 0x20:
                recs.append((cur[0], cur[1], bytes(cur[2])))
                cur = None
            p += slen
        pos = end
    assert cur is None
    return recs


def probe_size_extremes():
    """A sample of the size extremes named by the statement; returns True if any of them cannot be written."""

    violated = False
    for mx in (20, 22, 30, 32, 8192, 16382, 16384):
        for name_len in (1, 128, 255):
            try:
                nm = 'N' * name_len
                df = DLISFile(max_record_length=mx)
                lf = df.add_logical_file()
                lf.add_origin(nm)
                ch = lf.add_channel(nm, data=np.arange(3, dtype=np.uint8))          # 1-byte rows
                wide = lf.add_channel('W', data=np.zeros((3, 5 * mx + 1), dtype=np.uint8))  # many capacities, odd
                lf.add_frame(nm, channels=(ch,))
                lf.add_frame('G', channels=(wide,))
                nf = lf.add_no_format(nm)
                payloads = [b'', b'ab', b'x' * (mx - 8 - 3), b'y' * (3 * (mx - 8) + 1)]
                for pl in payloads:
                    lf.add_no_format_frame_data(nf, pl)
                recs = _physical(_write(df, output_chunk_size=mx))
                got = [body for is_eflr, typ, body in recs if not is_eflr and typ == 1]
                assert len(got) == len(payloads) and all(g.endswith(pl) for g, pl in zip(got, payloads))
                assert sum(1 for is_eflr, typ, _ in recs if not is_eflr and typ == 0) == 6
            except Exception as exc:  # noqa
                print(f'   size probe failed for mx={mx}, name length {name_len}: {exc!r}')
                violated = True
    return violated


def observation_hc_single_row():
    """Outside the statement (row count, not bytes): a one-row indexed frame cannot be written in high-compatibility
    mode, even with an explicit spacing; two rows can."""

    def attempt(n):
        with high_compatibility_mode():
            df = DLISFile()
            lf = df.add_logical_file()
            lf.add_origin('O')
            ch = lf.add_channel('DEPT', data=np.arange(n, dtype=np.float64), units='m')
            lf.add_frame('FR', channels=(ch,), index_type='BOREHOLE-DEPTH', spacing=1.0)
            try:
                _write(df)
                return True
            except RuntimeError:
                return False

    return attempt(2) and not attempt(1)


if __name__ == '__main__':
    if probe_size_extremes():
        print('FINDING 1: a size-extreme specification could not be written -> VIOLATED')
    else:
        print('NO FINDINGS')
    print('observation (outside the statement, not counted): one-row indexed frame refused in high-compatibility '
          'mode even with explicit spacing ->', 'observed' if observation_hc_single_row() else 'not observed')
