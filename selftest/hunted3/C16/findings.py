"""C16 (no-format payloads come back exactly, in order, under their object) - hunting round 3.

Result: NO FINDINGS (tree at 950dae5). The tool refused to create FINDINGS.md, so its content is kept here.

Running this module performs a compact re-check of the central claim with an independent parser of the output
bytes (visible records -> segments -> logical records -> OBNAME + payload) and then prints `NO FINDINGS`.
Should the re-check ever disagree, it prints the disagreement instead (that would be a new finding). The re-check
was verified to fire when one byte is appended to 5-byte payloads by monkey-patching.

Judges: (1) own parser of the output bytes (scratch/h.py); (2) dlisio 1.0.4 Noformat.data() (scratch/t4.py).

Code read: logical_record/iflr_types/no_format_frame_data.py; core/logical_record/logical_record_bytes.py,
segment_attributes.py, logical_record.py; file/writer.py; file/file.py (generator, record count, add_no_format,
add_no_format_frame_data, _check_references, _check_sets_not_shared, add_origin); core/eflr/eflr_item.py (cached
obname, copy numbers), eflr_set.py, file/eflr_sets_dict.py; utils/internal/struct_writer.py, internal_enums.py,
converters.py; misc/storage_unit_label.py.

Attack ideas tried (all: property held, or the write was refused with an exception):
 1. Exhaustive sweep: every even max record length 20..138 plus 16382, 16384 x every payload size
    0..3*capacity+30 x object names of length 0, 1, 12 (scratch/t7.py).
 2. Sizes around 1x, 2x, 3x segment capacity (-16..+16), 0..40, 50 000, 70 000 bytes, random byte values (t1.py).
 3. Payloads whose last bytes look like pad bytes (0x01, 0x02, 0x03, 0x0c, size mod 256).
 4. Empty payload under an object with an empty name (3-byte body, 9 pad bytes); single-byte payloads.
 5. Record length 20 (segment capacity 12): last-but-one segment cut to 1..11 bytes and padded in mid-record.
 6. bytes / bytearray / str mixed; str with NUL, DEL, every code 0..127; numpy.bytes_ with trailing NULs, numpy.str_.
 7. bytearray mutated by the caller after add_no_format_frame_data and after assignment to .data (both copied).
 8. .data and .no_format_object re-assigned between two writes; the file written twice.
 9. Several NO-FORMAT objects, records interleaved; same-named objects in one set (copy numbers 0, 1, ...).
10. Several NO-FORMAT sets in one logical file; several logical files with same-named objects (t2.py, t5.py).
11. Object and data added before the first origin (origin reference back-filled by add_origin).
12. Object renamed to a fresh name after data were added and after a first write (cached OBNAME dropped).
13. Object moved to another origin; origin references 1, 127, 128, 16383, 16384, 2**30-1 (1/2/4-byte UVARI);
    2**30 and negative references refused by struct.
14. Name of 255 characters (accepted), 256 (refused at write); non-ASCII name (refused at write).
15. 256 / 257 same-named objects: copy number 256 refused (struct.error).
16. Rename-away then re-create (A0, A1; A0 -> R; new A gets copy 0): identities stay distinct.
17. add_no_format rejected (list for consumer_name; AttrSetup number+units for description; lower-case name in
    high-compatibility mode), then the same name added successfully: copy 0, payloads under it.
18. High-compatibility mode: objects, data, rename and write inside the context.
19. Non-ASCII str payload: UnicodeEncodeError in mid-write (partial file, exception raised); after correcting
    .data the next write to the same path is complete and exact.
20. Data added for an object of another logical file / another DLISFile / None: write refused.
21. Two DLISFile objects with different record lengths built and written alternately in one process.
22. output_chunk_size = max record length, 2**16 as float, 2**20, 2**22; payload much larger than the chunk.
23. Output path as pathlib.Path; longer file already at the target.
24. Record count announced to the progress bar with many NOFMT records, several sets and logical files.
25. Random API sequences (t5.py, 360 runs): add object / add data / re-assign data / re-assign object / rename /
    change origin, 1-3 logical files, record lengths 20..8192, two writes each, compared record by record.
26. dlisio as second judge for record lengths 20, 22, 30, 64, 256, 8192, 16384.
27. copy.deepcopy(DLISFile): TypeError (EFLRSetsDict), no silent divergence.
28. Searched for swallowed exceptions / StopIteration on the NOFMT path, global memoisation keyed on
    equal-but-different values, a third route to store a mutable payload: none.
29. Zero-row frame next to no-format data: write refused (not a C16 matter).
30. DLISFile(storage_unit_label=sul, max_record_length=n): n ignored in favour of the label's value; label and
    framing agree, payloads exact.

Not violations: a str payload is validated only at write time (exception, nothing wrong written silently);
the order guarantee is per logical file (records of different logical files are grouped under their file).
"""

import logging
import os
import struct
import tempfile

import numpy as np

logging.disable(logging.CRITICAL)

from dliswriter import DLISFile  # noqa: E402


def _parse(path):
    b = open(path, 'rb').read()
    pos, lrs, cur = 80, [], None
    while pos < len(b):
        vrl, ff, ver = struct.unpack('>HBB', b[pos:pos + 4])
        assert (ff, ver) == (0xff, 1)
        p, end = pos + 4, pos + vrl
        while p < end:
            sl, attr, typ = struct.unpack('>HBB', b[p:p + 4])
            assert sl >= 16 and sl % 2 == 0
            body = b[p + 4:p + sl]
            if attr & 0x01:
                body = body[:-body[-1]]
            if not attr & 0x40:
                assert cur is None
                cur = [bool(attr & 0x80), typ, bytearray()]
            cur[2] += body
            if not attr & 0x20:
                lrs.append((cur[0], cur[1], bytes(cur[2])))
                cur = None
            p += sl
        assert p == end
        pos = end
    assert cur is None
    return lrs


def _uvari(b, p):
    x = b[p]
    if x < 0x80:
        return x, p + 1
    if x < 0xc0:
        return struct.unpack('>H', b[p:p + 2])[0] & 0x3fff, p + 2
    return struct.unpack('>I', b[p:p + 4])[0] & 0x3fffffff, p + 4


def _noformats(path):
    out = []
    for is_eflr, typ, body in _parse(path):
        if is_eflr and typ == 0:
            out.append([])
        if not is_eflr and typ == 1:
            o, p = _uvari(body, 0)
            c, n = body[p], body[p + 1]
            name = body[p + 2:p + 2 + n].decode('ascii')
            out[-1].append(((o, c, name), body[p + 2 + n:]))
    return out


def recheck():
    """Return a list of disagreements (empty = the property held on the re-check)."""

    problems = []
    for vrl in (20, 22, 64, 8192, 16384):
        cap = vrl - 8
        df = DLISFile(max_record_length=vrl)
        want = []
        for i in range(2):
            t = str(i)
            lf = df.add_logical_file()
            lf.add_origin('O' + t, set_name='OS' + t)
            lf.add_origin('P' + t, set_name='OS' + t, origin_reference=16384)
            ch = lf.add_channel('I' + t, data=np.arange(3.), set_name='CS' + t)
            lf.add_frame('F' + t, channels=(ch,), set_name='FS' + t)
            objs = [lf.add_no_format(n, set_name='NS' + t) for n in ('A', 'A', '')]
            objs.append(lf.add_no_format('B', set_name='NS' + t, origin_reference=16384))
            w = []
            sizes = list(range(0, 16)) + [k * cap + d for k in (1, 2, 3) for d in range(-13, 14)] + [40000]
            for j, s in enumerate(s for s in sizes if s >= 0):
                raw = bytes((j * 31 + k * 7) & 0xff for k in range(s))
                o = objs[j % len(objs)]
                if j % 3 == 0:
                    d = bytearray(raw)
                elif j % 3 == 1:
                    raw = bytes(x & 0x7f for x in raw)
                    d = raw.decode('ascii')
                else:
                    d = raw
                lf.add_no_format_frame_data(o, d)
                if isinstance(d, bytearray) and d:
                    d[0] ^= 0xff    # the caller re-uses its buffer
                w.append(((o.origin_reference, o.copy_number, o.name), raw))
            objs[1].name = 'RENAMED'
            w = [(((k[0], k[1], 'RENAMED') if k == (0, 1, 'A') else k), d) for k, d in w]
            want.append(w)
        fd, path = tempfile.mkstemp(suffix='.dlis')
        os.close(fd)
        try:
            for chunk in (vrl, 2 ** 20):
                df.write(path, output_chunk_size=chunk)
                if _noformats(path) != want:
                    problems.append(f'vrl={vrl}, output_chunk_size={chunk}')
        finally:
            os.remove(path)
    return problems


if __name__ == '__main__':
    problems = recheck()
    if problems:
        for n, p in enumerate(problems, 1):
            print(f'FINDING {n}: no-format payloads differ from what was added ({p}) -> VIOLATED')
    else:
        print('NO FINDINGS')
