"""Adversarial findings for property C17 (high-compatibility mode enforces its restrictions and never leaks).

Run as:  cd /tmp/hunt3/C17 && PYTHONPATH=/tmp/hunt3/C17/src /venv/bin/python findings.py

(FINDINGS.md could not be created by the tool; its content follows.)

Library: worktree /tmp/hunt3/C17 (HEAD 950dae5).

Summary: the enforcement is funnelled through very few places (validate_string, ValidatorEnum.make_converter,
raise_or_warn, FrameItem._setup_frame_params_from_data, OriginItem.__init__) and every route of the public API found
ends in one of them; the context manager itself is a plain try/finally. Two violations were found, both of low
practical weight (one numeric corner case of the spacing test, one contrived bypass of the name check).

Finding 1 - an index running from -inf to +inf passes the uniform-spacing test
------------------------------------------------------------------------------
Inside `with high_compatibility_mode():`

    df = DLISFile(); lf = df.add_logical_file(); lf.add_origin('ORIGIN')
    c0 = lf.add_channel('DEPTH', data=np.array([-np.inf, 0.0, np.inf]), units='m')
    c1 = lf.add_channel('RPM', data=np.arange(3, dtype=np.uint16))
    lf.add_frame('MAIN', channels=(c0, c1), index_type='BOREHOLE-DEPTH')
    df.write(out, output_chunk_size=2**20)

Required: an indexed frame written inside the context is uniformly spaced; a breach raises (and is warned about outside).
Observed: the write succeeds; dlisio reads back index [-inf, 0., inf], SPACING = inf, INDEX-MIN = -inf, INDEX-MAX = inf.
Outside of the context the same input gives no "not uniform" warning either. (Any [-inf, x, +inf] behaves the same;
[-inf, 3, 5, 9, inf] is refused, with a numpy "invalid value encountered in divide" RuntimeWarning.)
Cause: FrameItem._compute_spacing_and_direction (src/dliswriter/logical_record/eflr_types/frame.py, ~l.165-210) guards
against NaN differences only (np.isnan(diff).any()); the differences here are [inf, inf], np.unique gives one value and
the shortcut `len(diff_unique) == 1` returns inf as the spacing. A finiteness check of the index / its differences is missing.
Weight: low (the infinite sibling of the known NaN-index item, but accepted silently in both modes).

Finding 2 (contrived) - deleting an attribute before re-assigning it skips the name check
-------------------------------------------------------------------------------------------
Inside the context:

    df = DLISFile(); lf = df.add_logical_file()
    del lf.file_header.header_id;             lf.file_header.header_id = 'my header'
    lf.add_origin('ORIGIN')
    c0 = lf.add_channel('DEPTH', data=np.arange(5.), units='m')
    c1 = lf.add_channel('RPM', data=np.arange(5, dtype=np.uint16))
    lf.add_frame('MAIN', channels=(c0, c1), index_type='BOREHOLE-DEPTH')
    del c1.name;                              c1.name = 'rpm (lower case)'
    del df.storage_unit_label.set_identifier; df.storage_unit_label.set_identifier = 'my storage set'
    df.write(out, output_chunk_size=2**20)

Required: names of objects, set identifier and header id match [A-Z0-9_-]+, or the call raises.
Observed: nothing raises or is logged; the file has storage set identifier 'my storage set', file header ID 'my header'
and a channel 'rpm (lower case)' (bytes 20..80 of the file and dlisio agree).
Cause: the re-assignment checks are conditional on the attribute being present: EFLRItem.__setattr__
(`if key == 'name' and 'name' in self.__dict__`, core/eflr/eflr_item.py l.166), FileHeaderItem.__setattr__
(eflr_types/file_header.py l.59), StorageUnitLabel.__setattr__ (misc/storage_unit_label.py l.50).
Weight: very low (nobody deletes `name`); the only way found to get an unchecked name into a file without private members.

Observations which are NOT violations of the statement (not counted)
---------------------------------------------------------------------
* FrameIndexType has five members; 'TIME' is missing (utils/enums.py l.208-215) although the library's own test files use
  index_type='TIME'. If RP66 v1 Fig. 5-9 lists TIME (believed so; could not be checked offline) the mode refuses a value
  of the standard's set and the warning outside of it is wrong. Over-restriction; the statement speaks of what gets through.
* A one-row indexed frame is refused inside the context as "not uniform"; a constant index is accepted with SPACING 0;
  two steps differing by 6 % ([0, 1, 2.06]) pass since each is within 3 % of their median (known tolerance item).
* high_compatibility_mode_decorator drops the return value of the decorated function; a decorated generator / coroutine
  function never runs its body. No leak of the mode either way.
* Non-LIFO manual __enter__/__exit__ of two context objects leaves the flag on (same root as the known process-global
  item); a context object entered by hand and dropped is reset at garbage collection.
* docs/userguide/compatibilityissues.rst shows `with high_compatibility_mode:` (no call) and `from dlis_writer import`.
* Two same-named channels (copy numbers 0, 1) in one frame are refused in both modes, so no unchecked signed data can
  hide behind the name-keyed dtype mapping.

Tried and held (inside the context unless stated otherwise)
-----------------------------------------------------------
 1. lower case / blank / empty / trailing-newline / non-ASCII upper-case / numpy.str_ names at creation and at rename,
    for channels, frames, origins, parameters, equipment, file header identifier.
 2. DLISFile(set_identifier=), sul.set_identifier =, add_logical_file(fh_id=), file_header.header_id =, own
    StorageUnitLabel / FileHeaderItem objects built inside the context.
 3. Rejected rename / rejected add_* followed by further calls and a write (no partial state).
 4. Signed data through dict, add_channel(data=), structured array (incl. big-endian), HDF5 (groups, big-endian),
    2-D channels, signed cast_dtype on unsigned data, signed data under an unsigned cast_dtype.
 5. cast_dtype forms: numpy type, np.dtype, aliases (np.short, np.intc), cast dtype derived at an earlier write.
 6. Channel in no frame, in two frames, twice in one frame, appended in place to frame.channels.value, channel of
    another logical file / another DLISFile in a frame, frames built directly with eflr_types.FrameItem.
 7. Two logical files, two frame sets, two channel sets, two origin sets.
 8. file_set_number as AttrSetup(units=) only, {'value': None}, AttrSetup(None); origins after a rejected origin.
 9. Non-uniform index: zig-zag, one outlier, NaN, single row, two rows, constant, decreasing, huge finite values,
    uint32 near wrap-around, uint8 alternating 0/255, float32.
10. Non-uniformity hidden / revealed by from_idx / to_idx, input_chunk_size, a data= dict at write time overriding the
    channel's own data, several writes of one file with changing data.
11. Index under a declared cast (float -> int making it irregular, float64 -> float32).
12. Index type switched on after a first un-indexed write.
13. Units: units= of a channel, AttrSetup(units=), dict form, attr.units =, '', other case, enum member, unit
    expressions, units copied from the index channel to INDEX-MIN/MAX/SPACING.
14. Index type / equipment type / location: wrong case, '', members of the other enum, None, lists, numpy strings,
    assignment after creation through .value and set_attributes.
15. Context handling: nested, every kind of exception inside (KeyError, StopIteration, GeneratorExit, KeyboardInterrupt,
    SystemExit), decorator, @high_compatibility_mode() as ContextDecorator, recursion, re-use of one context object,
    400 random sequences of these interleaved with build+write of breaching / clean files.
16. Outside the context every restricted aspect is accepted with a warning, and the file is written.
17. Same-named channels (copy numbers) in one frame vs. the name-keyed dtype mapping of the signed-integer check.
18. Write inside after a failed write inside (state derived by the failed write does not survive).
19. Objects the library creates on its own with generated names: none; places writing units other than
    Attribute.units / ChannelItem.units: none.
20. Laziness: all mode-dependent checks run eagerly inside write() before the writer is created.
"""

import logging
import os
import re
import tempfile

import numpy as np
import dlisio

from dliswriter import DLISFile, high_compatibility_mode
from dliswriter.configuration import global_config

logging.getLogger('dliswriter').setLevel(logging.ERROR)
dlisio.common.set_encodings(['latin1'])

_TMP = tempfile.mkdtemp(prefix='c17_')
HC_NAME = re.compile(r'[A-Z0-9_-]+')


class _Catcher(logging.Handler):
    def __init__(self):
        super().__init__(level=logging.WARNING)
        self.records = []

    def emit(self, record):
        self.records.append(record)


def finding_1():
    """Index -inf, 0, +inf of an indexed frame passes the uniform-spacing test (SPACING = inf is written)."""

    out = os.path.join(_TMP, 'f1.dlis')
    index = np.array([-np.inf, 0.0, np.inf])

    def build_and_write():
        df = DLISFile()
        lf = df.add_logical_file()
        lf.add_origin('ORIGIN')
        c0 = lf.add_channel('DEPTH', data=index, units='m')
        c1 = lf.add_channel('RPM', data=np.arange(3, dtype=np.uint16))
        lf.add_frame('MAIN', channels=(c0, c1), index_type='BOREHOLE-DEPTH')
        df.write(out, output_chunk_size=2 ** 20)

    try:
        with high_compatibility_mode():
            build_and_write()
    except Exception:
        return False  # refused: the property holds
    assert global_config.high_compat_mode is False

    # independent judgement: read the index back and test it for uniform spacing
    with dlisio.dlis.load(out) as (f,):
        fr = f.frames[0]
        written = fr.curves()['DEPTH']
        spacing = fr.spacing
    steps = np.diff(written)
    finite_uniform = bool(np.isfinite(written).all() and np.allclose(steps, steps[0]))

    # ... and outside of the context the same input is not even warned about
    catcher = _Catcher()
    lg = logging.getLogger('dliswriter')
    old = lg.level
    lg.setLevel(logging.WARNING)
    lg.addHandler(catcher)
    try:
        build_and_write()
    finally:
        lg.removeHandler(catcher)
        lg.setLevel(old)
    warned = any('not uniform' in r.getMessage() for r in catcher.records)

    return (not finite_uniform) and np.isinf(spacing) and not warned


def finding_2():
    """`del item.name` followed by an assignment gives an object a lower-case name inside the context (same for
    `del sul.set_identifier` and `del file_header.header_id`); the file is written without complaint."""

    out = os.path.join(_TMP, 'f2.dlis')
    try:
        with high_compatibility_mode():
            df = DLISFile()
            lf = df.add_logical_file()
            del lf.file_header.header_id
            lf.file_header.header_id = 'my header'
            lf.add_origin('ORIGIN')
            c0 = lf.add_channel('DEPTH', data=np.arange(5.), units='m')
            c1 = lf.add_channel('RPM', data=np.arange(5, dtype=np.uint16))
            lf.add_frame('MAIN', channels=(c0, c1), index_type='BOREHOLE-DEPTH')

            del c1.name
            c1.name = 'rpm (lower case)'
            del df.storage_unit_label.set_identifier
            df.storage_unit_label.set_identifier = 'my storage set'

            df.write(out, output_chunk_size=2 ** 20)
    except Exception:
        return False

    with open(out, 'rb') as fh:
        sul_id = fh.read(80)[20:80].decode('ascii').strip()
    with dlisio.dlis.load(out) as (f,):
        names = [c.name for c in f.channels]
        header_id = f.fileheader.id.strip()
    bad = [n for n in names + [sul_id, header_id] if HC_NAME.fullmatch(n) is None]
    return len(bad) == 3


FINDINGS = [
    (finding_1, "an index of -inf, 0, +inf is accepted as uniformly spaced inside the context (SPACING=inf), "
                "and is not warned about outside of it"),
    (finding_2, "(contrived) `del obj.name; obj.name = ...` (also set_identifier, header_id) inside the context skips "
                "the name check; lower-case names with blanks are written"),
]

if __name__ == '__main__':
    for i, (fn, text) in enumerate(FINDINGS, start=1):
        try:
            res = fn()
        except Exception as exc:  # a finding which crashes is not reproduced
            res = False
            text += f" [error: {type(exc).__name__}: {exc}]"
        print(f"FINDING {i}: {text} -> {'VIOLATED' if res else 'not reproduced'}")
