"""C18 (frames and logical files are isolated from one another) - hunt round 3.

(The harness refused the creation of FINDINGS.md; its content is this docstring.)

RESULT: NO FINDINGS.  After reading the implementation and trying the attacks listed below, no input outside the
"already known" list was found for which the unmodified library (HEAD 950dae5) violates the statement.
The functions below are the five sharpest probes, kept as executable evidence: each returns True if a violation is
observed; all return False on this tree, so the module prints NO FINDINGS.

Every outcome was judged independently of the library:
- dlisio: per-logical-file inventories, frame -> channel lists, curves;
- an own parser of the output bytes (h.py): visible records -> segments -> logical records, split at FILE-HEADER
  EFLRs; set type / set name of each EFLR; OBNAME + frame number + payload of each IFLR.

WHY THE OBVIOUS ROUTES ARE CLOSED (code read)
- file/eflr_sets_dict.py::try_add_set: a set that is new to a logical file but already holds items is refused at add
  time.  Every add_* of file/file.py goes through get_or_make_set + try_add_set (all 22 call sites checked, including
  the doubled look-ups in add_group / add_zone).  '' and None are one key.
- The only way for two logical files to register one set is the empty set left by a rejected call (known);
  _check_sets_not_shared then refuses the write from whichever side holds items.
- _check_references walks every Attribute of every own item (lists / tuples recursively), the file header and the
  no-format records.  Every converter that accepts an EFLRItem only accepts it bare or in a list / tuple, so no
  container can hide a reference.
- Copy numbers are per set (eflr_item.py::_compute_copy_number), origin numbering and _data_dict are per logical file,
  and there is no class-level mutable state left (only constants; obname is a per-item cached_property invalidated on
  name / origin / copy change; OBNAME / OBJREF are excluded from the lru_cache in struct_writer.py).
- Frames: FrameItem.channel_name_mapping and the SourceDataWrapper are built per frame; MultiFrameData.__iter__
  restarts at 0 and numbers from 1; n_rows comes from the frame's own first data set and all data sets of the frame
  must agree (make_chunked_generator).  The direct-slice path of NumpyDataWrapper.load_chunk is only taken for an
  identical dtype and an identity mapping (padded, re-ordered, big-endian and multi-field-view dtypes compare unequal
  in numpy 2.5 and take the copy path).

ATTACK IDEAS TRIED (scripts p1.py .. p7.py, fuzz.py in this directory; all outcomes conform to the statement)
 1. Two frames with equally named index channels T (copies 0 / 1) and equally named frames F (copies 0 / 1), different
    row counts, plus a second logical file with the same names: rows, counts, numbering correct.
 2. One channel object in two frames (non-hc mode): each frame gets its own columns.
 3. Two equally named channels (copies 0 / 1) in ONE frame, and one channel twice in one frame: refused
    (ValueError: Channel names in data ... do not match), nothing mixed.
 4. Second logical file using default set names after the first one did (origin, channel, frame; set_name=''): each
    call refused at once; continuing with distinct names gives a clean file (probe_1).
 5. Partially shared names (COMMON / None / own name drawn per call) over 1-4 logical files with shuffled add_* calls:
    model-based fuzzer fuzz.py, 1000 seeds; rejections exactly where the model expects them, inventories / rows /
    no-format payloads per logical file equal to the model.
 6. Objects added before the origin in both files, origins with explicit references (3 / 7), interleaved: back-fill
    stays within the logical file, file headers carry their own file's origin (probe_4).
 7. Origin reference of every object of one logical file re-assigned afterwards (40000, 3-byte UVARI).
 8. Two origins in one file, objects spread over them, two frames F under different origins.
 9. A foreign object through EVERY reference parameter of every add_* (calibration, calibration-measurement, channel,
    computation, group, parameter, path, process, splice, tool; 31 parameters) in 5 forms: plain, AttrSetup, dict,
    tuple, assigned after creation = 156 cases, all refused (p6.py).
10. Foreign object through frame.channels.value, channel.source (channel, file header, origin object of the other
    file), long_name, group.object_list, add_no_format_frame_data: refused.
11. First file referring to the LATER file's objects (symmetric case): refused.
12. Write, then add a frame and a third logical file, write again; third write with a row window: order of logical
    files, headers, rows correct every time (probe_4).
13. Refused write (foreign reference) followed by a corrected write: clean.
14. HDF5 source (str and pathlib.Path): data sets of different lengths per frame and per logical file, group paths,
    a leading slash, input_chunk_size=2.
15. One structured array as the only source for all frames of all logical files: 2-D column, int16 / float32 columns,
    crosswise dataset_name, T__1 for the second T, window + chunking (probe_3).
16. Structured sources with padded / re-ordered / big-endian dtypes, multi-field views, strided arrays.
17. Unequal lengths inside the second frame: refused (ValueError), no row of another channel repeated.
18. from_idx / to_idx with frames of different lengths (the shorter one refuses); to_idx=0, negative values.
19. Frames without index type in a window: INDEX-MIN / MAX = 1 / n, numbering from 1.
20. Channels of one frame living in two CHANNEL sets, frames in two FRAME sets.
21. No-format data of equally named objects in two logical files, added alternately as str / bytes / bytearray, one
    payload re-assigned (probe_5).
22. High-compatibility mode with two logical files.
23. Visible record lengths 20, 22, 28, 64 and 16384 with several logical files (fuzzer): logical-file boundaries and
    headers intact in both parsers.
24. Renaming objects to fresh names between creation and write (fuzzer op 'rename'); data set names stay.
25. Data set name generation: explicit A__1 before automatic ones, a channel named like another one's data set,
    names after a rename: always unique within the logical file, separate between logical files.
26. A logical file without objects at the end: write refused, nothing dropped silently.
27. A rejected add_* (shared set) in file TWO, then more calls: no _data_dict entry, no set registered, no origin
    back-fill from the rejected call.
28. Look-ups that create dictionary entries (lf.frames, lf.channels, lf.origins before any object): no effect.
29. Two set classes with one set type string (would allow two equal (type, name) sets in one file): none exist.
30. One FileHeaderItem for two logical files (refused); default headers comparing == (FileHeaderItem.__eq__):
    identity is used in all checks, a reference to the other file's equal header is refused.
31. add_logical_file(file_header=<an OriginItem>): not type-checked there, but add_origin fails (AttributeError
    header_id); nothing written.
32. origin_reference=True (written as 1), numpy integers (TypeError): no cross talk.
33. Frame created with foreign channels first, corrected later (frame.channels.value = own): written correctly
    (the FRAME set then precedes the CHANNEL set; not a matter of C18).
34. Two DLISFile objects in one process using the same names, written alternately: no shared state.
35. Record count announced to the progress bar with several sets / logical files / no-format data: equal to what
    the generator yields (no ValueError from the bar in any of the runs above).

OBSERVATIONS THAT ARE NOT FINDINGS
- Point 3: a frame cannot hold two channels of one name, because rows are looked up by channel name
  (FrameItem.channel_name_mapping); the configuration is refused, not mixed.
- Point 17: the equal-length check runs when the frame's rows are first produced, i.e. in the middle of the write;
  the exception leaves a partial output file.  The statement does not speak about that.
"""
import logging
import os
import tempfile

import numpy as np

logging.disable(logging.CRITICAL)

from dliswriter import DLISFile, AttrSetup  # noqa: E402

import h  # noqa: E402  (own byte-level parser + dlisio dump)

TMP = tempfile.mkdtemp(prefix='c18_findings_')


def _write(df, name, **kw):
    p = os.path.join(TMP, name)
    df.write(p, output_chunk_size=2 ** 20, **kw)
    return p


def _rows(p):
    return [[(r[1], r[2], [float(x) for x in np.frombuffer(r[3], '>f8')]) for r in lf if r[0] == 'FDATA']
            for lf in h.layout(p)]


def probe_1():
    """a default-named add_* call in a second logical file is refused at once; the file written afterwards is clean"""
    df = DLISFile()
    l1 = df.add_logical_file(fh_id='ONE')
    l2 = df.add_logical_file(fh_id='TWO')
    l1.add_origin('O')
    t1 = l1.add_channel('T', data=np.arange(3.))
    l1.add_frame('F', channels=(t1,))
    refused = 0
    for call in (lambda: l2.add_origin('X'), lambda: l2.add_origin('X', set_name=''),
                 lambda: l2.add_channel('T', data=np.arange(2.)), lambda: l2.add_frame('F', channels=(t1,))):
        try:
            call()
        except RuntimeError:
            refused += 1
    l2.add_origin('O', set_name='B')
    t2 = l2.add_channel('T', data=np.arange(2.) + 10, set_name='B')
    l2.add_frame('F', channels=(t2,), set_name='B')
    p = _write(df, 'p1.dlis')
    exp = [[((0, 0, 'F'), 1, [0.]), ((0, 0, 'F'), 2, [1.]), ((0, 0, 'F'), 3, [2.])],
           [((0, 0, 'F'), 1, [10.]), ((0, 0, 'F'), 2, [11.])]]
    d = h.dump(p)
    inv_ok = [x['channels'] for x in d] == [[('T', 0, 0)], [('T', 0, 0)]] and [x['fh'][0][1] for x in d] == ['ONE', 'TWO']
    return not (refused == 4 and _rows(p) == exp and inv_ok)


def probe_2():
    """an object of logical file ONE given to any reference attribute of TWO (plain / AttrSetup / dict / assigned later)
    is never written"""
    for form in ('plain', 'attrsetup', 'dict', 'after'):
        df = DLISFile()
        l1 = df.add_logical_file(fh_id='ONE')
        l2 = df.add_logical_file(fh_id='TWO')
        l1.add_origin('O')
        l2.add_origin('O', set_name='B')
        t1 = l1.add_channel('T', data=np.arange(3.))
        t2 = l2.add_channel('T', data=np.arange(2.), set_name='B')
        l1.add_frame('F', channels=(t1,))
        l2.add_frame('F', channels=(t2,), set_name='B')
        z1 = l1.add_zone('Z')
        v = {'plain': [z1], 'attrsetup': AttrSetup(value=[z1]), 'dict': {'value': (z1,)}, 'after': None}[form]
        par = l2.add_parameter('P', values=[1.], zones=v, set_name='B')
        if form == 'after':
            par.zones.value = z1
        try:
            _write(df, 'p2.dlis')
            return True
        except RuntimeError:
            pass
    return False


def probe_3():
    """equally named channels / frames in several frames and logical files, one structured array as the only source,
    a row window and chunked reading: each frame gets its own columns, numbered from 1"""
    src = np.zeros(5, dtype=[('T', 'f8'), ('A', 'f8'), ('T__1', 'f8'), ('X', 'f8', (2,))])
    src['T'] = np.arange(5)
    src['A'] = np.arange(5) * 2
    src['T__1'] = np.arange(5) + 70
    src['X'] = np.arange(10).reshape(5, 2) + 100
    df = DLISFile()
    l1 = df.add_logical_file(fh_id='ONE')
    l1.add_origin('O')
    t, a, tt, x = l1.add_channel('T'), l1.add_channel('A'), l1.add_channel('T'), l1.add_channel('X')
    l1.add_frame('F', channels=(t, a))
    l1.add_frame('F', channels=(tt, x))
    l2 = df.add_logical_file(fh_id='TWO')
    l2.add_origin('O', set_name='B')
    x2 = l2.add_channel('A', dataset_name='X', set_name='B')
    t2 = l2.add_channel('T', set_name='B')
    l2.add_frame('F', channels=(x2, t2), set_name='B')
    p = _write(df, 'p3.dlis', data=src, from_idx=1, to_idx=4, input_chunk_size=2)
    exp = [[((0, 0, 'F'), 1, [1., 2.]), ((0, 0, 'F'), 2, [2., 4.]), ((0, 0, 'F'), 3, [3., 6.]),
            ((0, 1, 'F'), 1, [71., 102., 103.]), ((0, 1, 'F'), 2, [72., 104., 105.]), ((0, 1, 'F'), 3, [73., 106., 107.])],
           [((0, 0, 'F'), 1, [102., 103., 1.]), ((0, 0, 'F'), 2, [104., 105., 2.]), ((0, 0, 'F'), 3, [106., 107., 3.])]]
    return _rows(p) != exp


def probe_4():
    """objects added before the origins, origins with explicit references, interleaved calls, a second write after
    more frames and a further logical file have been added"""
    df = DLISFile()
    l1 = df.add_logical_file(fh_id='ONE')
    l2 = df.add_logical_file(fh_id='TWO')
    t1 = l1.add_channel('T', data=np.arange(3.))
    t2 = l2.add_channel('T', data=np.arange(2.) + 10, set_name='B')
    z1 = l1.add_zone('Z')
    z2 = l2.add_zone('Z', set_name='B')
    l2.add_origin('O2', origin_reference=7, set_name='B')
    l1.add_frame('F', channels=(t1,))
    l1.add_origin('O1', origin_reference=3)
    l2.add_frame('F', channels=(t2,), set_name='B')
    l1.add_parameter('P', zones=[z1], values=[1.])
    l2.add_parameter('P', zones=[z2], values=[2.], set_name='B')
    _write(df, 'p4a.dlis')
    u1 = l1.add_channel('T', data=np.arange(1.) + 50)
    l1.add_frame('F', channels=(u1,))
    l3 = df.add_logical_file(fh_id='THREE')
    l3.add_origin('O3', set_name='C')
    t3 = l3.add_channel('T', data=np.arange(2.) + 20, set_name='C')
    l3.add_frame('F', channels=(t3,), set_name='C')
    p = _write(df, 'p4b.dlis')
    d = h.dump(p)
    inv = [(x['fh'][0][1], x['origins'], x['channels'], x['objects']['ZONE'], x['objects']['PARAMETER'],
            x['objects']['FILE-HEADER']) for x in d]
    exp_inv = [('ONE', [('O1', 3, 0, 'ONE')], [('T', 3, 0), ('T', 3, 1)], [('Z', 3, 0)], [('P', 3, 0)], [('0', 3, 0)]),
               ('TWO', [('O2', 7, 0, 'TWO')], [('T', 7, 0)], [('Z', 7, 0)], [('P', 7, 0)], [('0', 7, 0)]),
               ('THREE', [('O3', 0, 0, 'THREE')], [('T', 0, 0)], [], [], [('0', 0, 0)])]
    exp_rows = [[((3, 0, 'F'), 1, [0.]), ((3, 0, 'F'), 2, [1.]), ((3, 0, 'F'), 3, [2.]), ((3, 1, 'F'), 1, [50.])],
                [((7, 0, 'F'), 1, [10.]), ((7, 0, 'F'), 2, [11.])],
                [((0, 0, 'F'), 1, [20.]), ((0, 0, 'F'), 2, [21.])]]
    return inv != exp_inv or _rows(p) != exp_rows


def probe_5():
    """no-format data of equally named objects in two logical files, added alternately"""
    df = DLISFile()
    l1 = df.add_logical_file(fh_id='ONE')
    l2 = df.add_logical_file(fh_id='TWO')
    l1.add_origin('O')
    l2.add_origin('O', set_name='B')
    t1 = l1.add_channel('T', data=np.arange(1.))
    t2 = l2.add_channel('T', data=np.arange(1.), set_name='B')
    l1.add_frame('F', channels=(t1,))
    l2.add_frame('F', channels=(t2,), set_name='B')
    n1 = l1.add_no_format('N')
    n2 = l2.add_no_format('N', set_name='B')
    l1.add_no_format_frame_data(n1, 'one-a')
    l2.add_no_format_frame_data(n2, b'two-a')
    l1.add_no_format_frame_data(n1, bytearray(b'one-b'))
    l2.add_no_format_frame_data(n2, 'two-b')
    p = _write(df, 'p5.dlis')
    got = [[r[2] for r in lf if r[0] == 'NOFORM'] for lf in h.layout(p)]
    return got != [[b'one-a', b'one-b'], [b'two-a', b'two-b']]


if __name__ == '__main__':
    observed = [f.__name__ for f in (probe_1, probe_2, probe_3, probe_4, probe_5) if f()]
    if observed:
        for n, name in enumerate(observed, 1):
            print(f'FINDING {n}: {name} -> VIOLATED')
    else:
        print('NO FINDINGS')
