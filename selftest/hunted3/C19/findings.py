"""C19 "Writing never alters the caller's data" - adversarial hunt, round 3.  (This docstring is FINDINGS.md.)

Worktree /tmp/hunt3/C19 at 950dae5, numpy 2.5.3, h5py 3.16.0.  Library sources untouched.
Run:  cd /tmp/hunt3/C19 && PYTHONPATH=/tmp/hunt3/C19/src /venv/bin/python findings.py 2>/dev/null

RESULT: NO FINDINGS
===================
After reading every place where the library touches numeric data and after ~3500 randomised plus ~40 targeted
scenarios, no input, configuration or call sequence was found which changes an array, the data dict, the structured
array, or the HDF5 / memory-mapped file of the caller.  This module keeps a compact regression of the attacks
(`attack_*`, each returns True if a change of the caller's data is observed - none is) and one borderline observation
which is NOT counted (`observation_1`).  Exploratory scripts: scratch/ (`fuzz.py <from> <to>` = randomised harness).

Why the property holds (code reading) - the complete list of places which touch the caller's numeric data:
  * LogicalFile.add_channel (file.py:775): `self._data_dict[name] = data` - reference kept, never written.
  * LogicalFile._make_multi_frame_data (file.py:2280): `self._data_dict | data` -> new dict; the caller's dict is only
    read (also for defaultdict / OrderedDict, whose __ror__ builds a new object).
  * SourceDataWrapper.determine_dtypes: `dset[0:1]`, `.dtype`, `np.dtype(..).newbyteorder('=')` (new dtype object).
  * SourceDataWrapper.__getitem__: `data[from:to]` view, only read (.shape, .dtype, index statistics).
  * SourceDataWrapper.load_chunk: `chunk = np.zeros(..)`; `chunk[key] = values` - cast and byte-order change happen
    while copying INTO the library's chunk.
  * check_float_cast: np.asarray, `.astype` (copy=True default), np.trunc, comparisons.
  * NumpyDataWrapper.load_chunk fast path: view `arr[a:b]` of the caller's array (known / accepted); its only consumer
    is FrameData._make_body_bytes.
  * FrameItem._setup_frame_params_from_data: `[:]` view, `.astype` copy, min / max, boolean-mask indexing (copy),
    np.diff / np.unique / np.median on library-owned arrays.
  * FrameData._make_body_bytes: `s.byteswap().tobytes()` - byteswap with the default inplace=False.
  * HDF5DataWrapper.__init__: `h5py.File(name, 'r')`.
  * NoFormatFrameData.data: bytes(bytearray) copy.   Attribute.convert_value: new lists; arrays refused as values.
  No augmented assignment, `out=`, inplace=True, .sort(), .resize(), .setflags(), `.shape =`, `.dtype =`, .fill() on any
  array in src/dliswriter (grep), no pop / update / clear / del on a caller's container.

Attack ideas tried (all: caller's data unchanged).  Oracle = plain Python: sha256 of the raw memory of the ROOT buffer of
every array (bytes outside a view, padding and gaps of structured dtypes included), tobytes(), shape, strides, dtype,
flags, id(base); (key, id(value)) list of the data dict; sha256 + size + mtime_ns of HDF5 / memory-mapped files.
  1. all 8 supported source dtypes x both byte orders x {C, Fortran, strided rows, column slice of a wider buffer, row
     window of a longer buffer, negative strides, zero-stride broadcast_to, writeable=False, np.frombuffer(bytes)};
  2. unsupported source dtypes (int64, uint64, float16, bool) with a declared cast;
  3. every cast dtype (numpy type and np.dtype instance, big-endian np.dtype('>f4') as cast);
  4. input_chunk_size None / 1 / 2 / 5 / > n; output_chunk_size 2**12..2**20; max_record_length 20 / 256 / 8192 / 16384;
  5. row windows inside, at the edges, and refused ones (negative, empty, beyond the data);
  6. inline data, write(data=dict), mixture of both, structured array, HDF5 path (str and pathlib.Path);
  7. 1-3 frames per logical file, 1-2 logical files sharing one dict / structured array / HDF5 file, several DLISFile
     objects per process;
  8. two and three writes of one object with cast dtype / chunk size / window / data changed in between; a write inside
     high_compatibility_mode() after one outside;
  9. failed writes: NaN / inf / out-of-range float under an integer cast met only in the LAST chunk (file partly
     produced), float64 -> float32 overflow, negative -> unsigned;
 10. failed writes: data sets of different lengths, missing data set, non-ndarray dict value, non-str key;
 11. failed writes: refused output_chunk_size, output directory missing (failure inside ByteWriter), second logical
     file failing after the first went through;
 12. failed writes in high-compatibility mode: signed integer channel, non-uniform index spacing;
 13. structured arrays: align=True padding, explicit overlapping offsets with gaps, big-endian fields, sub-array fields,
     view into a larger array, [::2] stride, read-only, np.recarray; padding pre-filled with 0xAB;
 14. structured arrays with identity mapping (fast path: chunks are views), crosswise dataset_name mapping, subset of
     fields, casts, failing cast;
 15. HDF5: contiguous, chunked, gzip, fletcher32, big-endian data sets, nested groups, with / without leading slash;
     sha256, size, mtime after ok and failed writes and after garbage collection of the wrappers;
 16. np.memmap sources in modes r, r+, c (plain and structured / fast path): sha256 + mtime of the mapped file after
     write and flush();
 17. one buffer behind several channels: overlapping windows, a reversed view, the same array in two logical files
     with different casts;
 18. np.matrix, np.recarray, np.memmap (ndarray subclasses) as values;
 19. dict subclasses as data: defaultdict (the missing key is made in the library's merged copy, not in the caller's
     dict), OrderedDict;
 20. caller's np.seterr(all='raise') during write (denormals, 1e300): data unchanged, error state restored;
 21. index handling: -0.0 / 0.0, NaN, single row, constant, decreasing, unsigned / narrow integer index, float32 index;
 22. channels renamed / dataset_name re-assigned / cast_dtype changed between writes;
 23. no-format payloads: bytearray (copied), np.bytes_, bytes, str; memoryview / ndarray payloads refused, unchanged;
 24. attribute value containers: nested lists (Parameter values), tuple / list (channel min / max), AttrSetup and
     {'value':.., 'units':..} forms, lists of zones / channels: same objects, same content after two writes;
 25. numpy arrays as attribute values (values=arr, values=[arr]): refused (TypeError), unchanged;
 26. direct use of SourceDataWrapper.make_wrapper, load_chunk, make_chunked_generator, MultiFrameData, FrameData;
 27. transient change (write and restore): excluded by running the scenarios on writeable=False arrays,
     np.frombuffer(bytes) and mode='r' memmaps - no "read-only" error is ever raised;
 28. caller holding its own h5py handle on the source ('r', 'r+' clean, 'r+' with unflushed changes): observation below.

OBSERVATION (not counted as a finding) - observation_1()
  If the caller itself keeps the source HDF5 file open read-write and has changes it has not flushed yet (e.g.
  `h['x'].attrs['k'] = 5`), the bytes of the file on disk differ before / after `df.write(out, data='file.h5')`:
  the library opens a second, read-only handle (HDF5DataWrapper.__init__, source_data_wrappers.py:312); inside one
  process HDF5 shares the underlying file between the handles; when the wrapper is released at the end of write
  (HDF5DataWrapper.__del__ -> close(), source_data_wrappers.py:319-333) HDF5 flushes the shared metadata cache, i.e. the
  caller's own pending changes.  Controls: caller's handle 'r' -> unchanged; 'r+' without pending changes -> unchanged;
  'r+' flushed by the caller before the write -> unchanged; a plain `h5py.File(fn, 'r').close()` instead of df.write ->
  the same change.  The caller's handle and open objects stay valid.  What reaches the disk is exactly what the caller
  had queued (what h.flush() / h.close() writes anyway); no data set content differs.  The property quantifies over data
  sources, dtypes, layouts, casts, chunks and windows, not over a file the caller is in the middle of modifying, so
  this is reported for the record only.
  Also seen, outside the statement: add_origin without file_set_number draws from the caller's global numpy random
  state (origin.py:81, np.random.randint) - process state, not data.
"""

import collections
import copy
import gc
import hashlib
import logging
import os
import shutil
import tempfile
import warnings

import numpy as np
import h5py

logging.disable(logging.CRITICAL)
warnings.simplefilter('ignore')


from dliswriter import DLISFile, AttrSetup, high_compatibility_mode  # noqa: E402

TMP = tempfile.mkdtemp(prefix='c19_findings_')


def _sha(fn):
    with open(fn, 'rb') as f:
        return hashlib.sha256(f.read()).hexdigest()


def _root(a):
    while isinstance(a.base, np.ndarray):
        a = a.base
    return a


def _snap(a):
    """Everything observable about an array: bytes of the whole underlying buffer, own bytes, metadata."""
    r = _root(a)
    rr = r if r.flags.c_contiguous else r.T  # (the roots used here are C- or F-contiguous)
    raw = rr.reshape(-1).view('u1').tobytes()  # raw memory, including padding / gaps of structured dtypes
    return (raw, a.tobytes(), a.shape, a.strides, str(a.dtype), a.flags.writeable,
            a.flags.c_contiguous, a.flags.f_contiguous, id(a.base))


def _mk(nlf=1, **kw):
    df = DLISFile(**kw)
    lfs = []
    for i in range(nlf):
        lf = df.add_logical_file(fh_sequence_number=i + 1)
        lf.add_origin(f'O{i}', file_set_number=i + 1, set_name=None if i == 0 else f'S{i}')
        lfs.append(lf)
    return df, lfs


def _write(df, name, hc=False, **kw):
    kw.setdefault('output_chunk_size', 2 ** 20)
    import io, contextlib
    try:
        with contextlib.redirect_stderr(io.StringIO()), contextlib.redirect_stdout(io.StringIO()):
            if hc:
                with high_compatibility_mode():
                    df.write(os.path.join(TMP, name + '.dlis'), **kw)
            else:
                df.write(os.path.join(TMP, name + '.dlis'), **kw)
        return 'ok'
    except Exception as exc:
        return type(exc).__name__


def attack_layouts_dtypes_casts():
    """dict + inline data: every supported dtype x byte order x layout x cast, chunked and windowed, ok and failing."""
    rng = np.random.default_rng(0)
    sup = ['int8', 'int16', 'int32', 'uint8', 'uint16', 'uint32', 'float32', 'float64']
    violated = False
    k = 0
    for src in sup + ['int64', 'float16', 'bool']:
        for bo in '<>':
            dt = np.dtype(src).newbyteorder(bo)
            n = 23
            big = (rng.uniform(0, 100, size=(2 * n + 6, 7))).astype(dt)
            layouts = {
                'strided_offset': big[3:3 + 2 * n:2, 1:4],
                'fortran': np.asfortranarray(big[:n, :3]),
                'negative': big[:n, :3][::-1],
                'readonly_frombuffer': np.frombuffer(big[:n, :3].tobytes(), dtype=dt).reshape(n, 3),
                'broadcast': np.broadcast_to(big[:1, :3], (n, 3)),
            }
            for lname, arr in layouts.items():
                k += 1
                cast = sup[k % 8] if (k % 3 or src not in sup) else None
                idx = np.arange(n).astype(dt)[::-1][::-1]
                d = {'IMG': arr}
                before = {'IDX': _snap(idx), 'IMG': _snap(arr)}
                ids = [(kk, id(v)) for kk, v in d.items()]
                df, (lf,) = _mk(max_record_length=(256, 8192, 20)[k % 3])
                try:
                    a = lf.add_channel('IDX', data=idx, cast_dtype=np.dtype('float64') if src not in sup else None)
                    b = lf.add_channel('IMG', cast_dtype=None if cast is None else getattr(np, cast))
                    lf.add_frame('F', channels=(a, b), index_type=(None, 'TIME')[k % 2])
                except Exception:
                    continue
                for w in range(2):  # two writes of one object, different chunking / window
                    _write(df, 'a', hc=(k % 7 == 0), data=d, input_chunk_size=(None, 1, 5, 100)[(k + w) % 4],
                           from_idx=(0, 2)[w], to_idx=(None, n - 3)[w])
                if _snap(idx) != before['IDX'] or _snap(arr) != before['IMG'] \
                        or [(kk, id(v)) for kk, v in d.items()] != ids:
                    violated = True
    return violated


def attack_failed_writes():
    """writes failing at various stages: NaN / out-of-range casts in a late chunk, row mismatch, missing data set,
    bad windows, non-uniform index in high-compatibility mode, writer failure (directory missing), second logical
    file failing after the first one went through."""
    violated = False
    n = 40
    base = {'A': np.arange(n, dtype='>f8'), 'B': np.linspace(-5, 5, n * 2).reshape(n, 2).astype('<f4')}
    base['B'][n - 1, 1] = np.nan
    cases = [
        dict(cast=np.int16, kw=dict(input_chunk_size=7)),                  # NaN met in the last chunk, mid-file
        dict(cast=np.uint8, kw=dict()),                                   # negative -> uint8 refused
        dict(cast=None, kw=dict(from_idx=n)), dict(cast=None, kw=dict(to_idx=n + 1)),
        dict(cast=None, kw=dict(from_idx=5, to_idx=5)), dict(cast=None, kw=dict(from_idx=-1)),
        dict(cast=None, drop='B', kw=dict()),                             # missing data set
        dict(cast=None, cut='B', kw=dict(input_chunk_size=3)),            # row mismatch
        dict(cast=None, kw=dict(output_chunk_size=10)),                   # refused output chunk size
        dict(cast=None, out='/nonexistent-dir-c19/x'),                    # failure inside the byte writer
        dict(cast=None, hc=True, jitter=True, kw=dict()),                 # non-uniform index refused in hc mode
    ]
    for c in cases:
        d = {k: v.copy() for k, v in base.items()}
        if c.get('jitter'):
            d['A'][3] += 0.4
        if c.get('cut'):
            d[c['cut']] = d[c['cut']][:-1]
        keep = {k: v for k, v in d.items()}
        if c.get('drop'):
            del d[c['drop']]
        before = {k: _snap(v) for k, v in keep.items()}
        ids = [(k, id(v)) for k, v in d.items()]
        df, (l1, l2) = _mk(2)
        a = l1.add_channel('A')
        l1.add_frame('F', channels=(a,), index_type='TIME')
        b = l2.add_channel('B', cast_dtype=c['cast'], set_name='S1')
        a2 = l2.add_channel('A', set_name='S1')
        l2.add_frame('G', channels=(a2, b), index_type='TIME', set_name='S1')
        kw = dict(c.get('kw', {}))
        if 'out' in c:
            try:
                df.write(c['out'], data=d, output_chunk_size=2 ** 20)
            except Exception:
                pass
        else:
            _write(df, 'f', hc=c.get('hc', False), data=d, **kw)
        if any(_snap(v) != before[k] for k, v in keep.items()) or [(k, id(v)) for k, v in d.items()] != ids:
            violated = True
    return violated


def attack_structured_arrays():
    """structured array: aligned padding, explicit overlapping offsets, big-endian and sub-array fields, views into a
    larger buffer, strided, read-only, recarray; identity / crosswise / subset mappings; casts; chunks; windows."""
    violated = False
    n = 31
    dts = [
        np.dtype([('A', '<f8'), ('B', '<i4', (3,)), ('C', '<u1')], align=True),
        np.dtype([('A', '>f4'), ('B', '>u2', (2,)), ('C', '<i2')]),
        np.dtype({'names': ['A', 'B', 'C'], 'formats': ['<f8', '<u4', '<i2'], 'offsets': [0, 4, 16], 'itemsize': 24}),
    ]
    for di, sdt in enumerate(dts):
        for layout in ('plain', 'view', 'strided', 'ro', 'rec'):
            big = np.zeros(2 * n + 5, dtype=sdt)
            big.view('u1')[:] = 0xAB  # padding bytes have a known content, too
            arr = {'plain': big[:n], 'view': big[2:2 + n], 'strided': big[1:1 + 2 * n:2], 'ro': big[:n],
                   'rec': big[:n].view(np.recarray)}[layout]
            arr['C'] = np.arange(n) % 100
            arr['A'] = np.arange(n) if di != 2 else arr['A']
            if layout == 'ro':
                arr.setflags(write=False)
            before = _snap(arr)
            for variant in range(4):
                df, (lf,) = _mk()
                if variant == 0:    # identity mapping -> chunks are views of the caller's array
                    chs = [lf.add_channel(nm) for nm in ('A', 'B', 'C')]
                elif variant == 1:  # crosswise mapping
                    chs = [lf.add_channel('A', dataset_name='C'), lf.add_channel('B'),
                           lf.add_channel('C', dataset_name='A', cast_dtype=np.float32)]
                elif variant == 2:  # subset, casts
                    chs = [lf.add_channel('C', cast_dtype=np.uint16), lf.add_channel('B', cast_dtype=np.float64)]
                else:               # failing cast
                    chs = [lf.add_channel('C'), lf.add_channel('A', cast_dtype=np.int8)]
                    if arr.flags.writeable:
                        arr['A'][n - 2] = 1e9 if di != 2 else arr['A'][n - 2]
                        before = _snap(arr)
                lf.add_frame('F', channels=chs, index_type=(None, 'TIME')[variant % 2])
                for kw in (dict(), dict(input_chunk_size=4, from_idx=3, to_idx=n - 2)):
                    _write(df, 's', data=arr, **kw)
                if _snap(arr) != before:
                    violated = True
    return violated


def attack_hdf5_and_memmap():
    """HDF5 sources (contiguous / chunked / gzip / fletcher32, big-endian, nested groups, str and Path), ok and failing
    writes: sha256 and mtime of the file; np.memmap sources in modes r, r+, c: sha256 and mtime of the mapped file."""
    import pathlib
    violated = False
    fn = os.path.join(TMP, 'src.h5')
    n = 50
    with h5py.File(fn, 'w') as f:
        f.create_dataset('idx', data=np.arange(n, dtype='>f8'))
        f.create_dataset('g/img', data=np.arange(n * 4, dtype='<i4').reshape(n, 4), chunks=(7, 4), compression='gzip')
        f.create_dataset('g/h/bad', data=np.array([1.5, np.nan] * (n // 2), dtype='>f4'), chunks=True, fletcher32=True)
        f.create_dataset('short', data=np.arange(n - 1, dtype='u1'))
    sha0, mt0, size0 = _sha(fn), os.stat(fn).st_mtime_ns, os.path.getsize(fn)
    for variant in range(5):
        df, (l1, l2) = _mk(2)
        a = l1.add_channel('I', dataset_name='idx')
        b = l1.add_channel('IMG', dataset_name='/g/img', cast_dtype=(None, np.float32, np.uint8, None, None)[variant])
        chans = [a, b]
        if variant == 3:
            chans.append(l1.add_channel('BAD', dataset_name='g/h/bad', cast_dtype=np.int16))
        if variant == 4:
            chans.append(l1.add_channel('SHORT', dataset_name='short'))
        l1.add_frame('F', channels=chans, index_type='TIME')
        a2 = l2.add_channel('I', dataset_name='idx', set_name='S1', cast_dtype=np.float32)
        l2.add_frame('G', channels=(a2,), set_name='S1')
        src = fn if variant % 2 else pathlib.Path(fn)
        _write(df, 'h', data=src, input_chunk_size=(None, 1, 9, 11, 13)[variant], from_idx=(0, 5)[variant % 2],
               to_idx=(None, n - 5)[variant % 2])
        _write(df, 'h', hc=True, data=src)
        del df, l1, l2, a, b, a2, chans
        gc.collect()
        if (_sha(fn), os.stat(fn).st_mtime_ns, os.path.getsize(fn)) != (sha0, mt0, size0):
            violated = True

    mfn = os.path.join(TMP, 'mm.bin')
    np.arange(1000, dtype='>f8').tofile(mfn)
    for mode in ('r', 'r+', 'c'):
        sha0, mt0 = _sha(mfn), os.stat(mfn).st_mtime_ns
        mm = np.memmap(mfn, dtype='>f8', mode=mode, shape=(500, 2))
        df, (lf,) = _mk()
        a = lf.add_channel('A', data=mm[:, 0])
        b = lf.add_channel('B', data=mm, cast_dtype=np.float32)
        lf.add_frame('F', channels=(a, b), index_type='TIME')
        _write(df, 'm', input_chunk_size=7, from_idx=3, to_idx=400)
        if mode != 'r':
            mm.flush()
        del mm, df, lf, a, b
        gc.collect()
        if (_sha(mfn), os.stat(mfn).st_mtime_ns) != (sha0, mt0):
            violated = True
    return violated


def attack_containers_and_aliases():
    """dict subclasses as data (defaultdict: no key made in the caller's dict), one buffer behind several channels of
    two logical files (overlapping, reversed views, different casts), attribute value containers (nested lists,
    AttrSetup, dict form), bytearray / numpy.bytes_ no-format payloads, numpy error state set to 'raise'."""
    violated = False

    d = collections.defaultdict(lambda: np.zeros(5), {'A': np.arange(5.)})
    df, (lf,) = _mk()
    lf.add_frame('F', channels=(lf.add_channel('A'), lf.add_channel('B')))
    _write(df, 'c', data=d)
    violated |= list(d) != ['A']

    buf = np.arange(20.)
    buf0 = buf.copy()
    df, (l1, l2) = _mk(2)
    chs = (l1.add_channel('A', data=buf[:10]), l1.add_channel('B', data=buf[::-1][:10], cast_dtype=np.int16),
           l1.add_channel('C', data=buf[5:15], cast_dtype=np.float32))
    l1.add_frame('F', channels=chs, index_type='TIME')
    l2.add_frame('F', channels=(l2.add_channel('A', data=buf[:10], set_name='S1', cast_dtype=np.uint8),), set_name='S1')
    old = np.seterr(all='raise')
    try:
        _write(df, 'c', input_chunk_size=3)
        _write(df, 'c', data={'A': buf[10:]})
    finally:
        np.seterr(**old)
    violated |= buf.tobytes() != buf0.tobytes()

    vals = [[1, 2, 3], [4, 5, 6]]
    coords = [1.5, '2', 3]
    setup = AttrSetup(value=vals, units='m')
    dsetup = {'value': coords, 'units': 's'}
    snapshot = copy.deepcopy((vals, coords, dsetup))
    ba = bytearray(b'abc' * 10)
    df, (lf,) = _mk()
    zs = [lf.add_zone('Z1', domain='TIME', minimum=1, maximum=2), lf.add_zone('Z2', domain='TIME', minimum=1, maximum=2)]
    zs0 = list(zs)
    lf.add_axis('AX', coordinates=dsetup)
    lf.add_parameter('P', values=setup, zones=zs)
    nf = lf.add_no_format('NF')
    lf.add_no_format_frame_data(nf, ba)
    lf.add_no_format_frame_data(nf, np.bytes_(b'qq'))
    chl = [lf.add_channel('A', data=np.arange(3.), minimum_value=[0.], maximum_value=(5,))]
    lf.add_frame('F', channels=chl)
    _write(df, 'c')
    _write(df, 'c')
    violated |= (vals, coords, dsetup) != snapshot or setup.value is not vals or zs != zs0 or len(chl) != 1 \
        or ba != bytearray(b'abc' * 10)
    return violated


def observation_1():
    """NOT COUNTED AS A FINDING (borderline; outside what the property quantifies over).

    If the caller itself holds an open read-write h5py handle on the source file with changes it has not flushed yet,
    closing the library's second (read-only) handle at the end of write() makes the HDF5 library flush the caller's own
    pending metadata: the bytes on disk differ before / after write().  What lands on disk is exactly what the caller had
    queued (no library data; identical to what h.flush() would write); any h5py.File(fn, 'r').close() in the process has
    the same effect.  Returns True if the on-disk bytes changed.
    """

    fn = os.path.join(TMP, 'own.h5')
    with h5py.File(fn, 'w') as f:
        f['d'] = np.arange(10.)
        f['x'] = np.arange(10.) * 2
    h = h5py.File(fn, 'r+')
    h['x'].attrs['k'] = 5  # pending, not flushed
    before = _sha(fn)
    df, (lf,) = _mk()
    lf.add_frame('F', channels=(lf.add_channel('d'), lf.add_channel('x')), index_type='TIME')
    _write(df, 'o', data=fn)
    after = _sha(fn)
    h.close()
    return before != after


ATTACKS = [attack_layouts_dtypes_casts, attack_failed_writes, attack_structured_arrays, attack_hdf5_and_memmap,
           attack_containers_and_aliases]


if __name__ == '__main__':
    import dliswriter
    assert dliswriter.__file__.startswith('/tmp/hunt3/C19/src'), dliswriter.__file__
    try:
        bad = [f.__name__ for f in ATTACKS if f()]
        if bad:
            for i, name in enumerate(bad, 1):
                print(f"FINDING {i}: {name} observed a change of the caller's data -> VIOLATED")
        else:
            print('NO FINDINGS')
        print(f"(observation 1, not counted: caller's own unflushed HDF5 changes flushed when the library's handle "
              f"closes -> {'observed' if observation_1() else 'not observed'})")
    finally:
        shutil.rmtree(TMP, ignore_errors=True)
