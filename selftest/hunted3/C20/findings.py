"""C20 "A rejected call leaves no trace in later files" -- hunting round 3
========================================================================

(The tool refused to create FINDINGS.md; as the task prescribes, its content is kept here, in the module docstring.)

Tree: /tmp/hunt3/C20 at 950dae5 (sources untouched). Interpreter /venv/bin/python, PYTHONPATH=/tmp/hunt3/C20/src
(checked: dliswriter.__file__ is the worktree's copy).

Run:  cd /tmp/hunt3/C20 && PYTHONPATH=/tmp/hunt3/C20/src /venv/bin/python findings.py      ->  NO FINDINGS


RESULT: NO FINDINGS
-------------------
After a thorough search I found no new, genuine violation of C20 -- i.e. nothing beyond the items of the "already known"
list of the task (the empty set that a rejected call leaves in logical file A and that logical file B then uses;
set_attributes(a=ok, b=<rejected>); DIMENSION of Parameter / Computation / Calibration-Measurement kept from the first --
possibly failed -- write; the target file truncated by a refused write; renames onto used names; ...).
This module re-runs a compact selection of the probes (each compares the file of a history containing rejected calls /
failing writes with the file of the same history without them, byte for byte) and prints NO FINDINGS.

What the code does today, as established by reading and by the experiments below:

* EFLRItem.__init__ (logical_record/core/eflr/eflr_item.py:60-77) registers the item with its set as the very last step;
  no subclass does anything that can raise after super().__init__ (only OriginItem continues, with assignments that
  cannot fail); none of the 21 LogicalFile.add_* wrappers does anything that can raise after the item is built
  (add_channel stores the data array only afterwards, add_origin only hands out references afterwards).
  A whole-object-graph snapshot before / after ~7 000 rejected add_* calls and rejected assignments showed ONE kind of
  residue only: the empty EFLRSet (in df._eflr_sets and lf._eflr_sets) made by get_or_make_set / try_add_set before the
  item is built. Rejected assignments leave no residue at all.
* That empty set is harmless inside its own logical file: EFLRSetsDict.try_add_set (file/eflr_sets_dict.py:36-55)
  re-positions empty sets / set types at the next successful call; DLISFile.generator, the record count,
  defining_origin, _check_sets_not_shared all skip sets without items. Its only consequence is the known one
  (another logical file adopting it).
* Everything a write derives is book-kept and re-derived: channel DIMENSION / ELEMENT-LIMIT / cast dtype /
  representation code / default LONG-NAME (channel.py: _derived_from_data, forget_values_derived_from_data, called for
  all channels of a logical file at the start of generate_logical_records), frame INDEX-MIN / INDEX-MAX / SPACING /
  DIRECTION and their units (frame.py: _derived_from_data, cleared at the top of _setup_frame_params_from_data), the
  OBNAME cache (dropped by __setattr__). Origin.field_name='WILDCAT' and file_id defaults are deterministic. The struct
  memo (_write_struct) does not memoise exceptions and gives the bytes a fresh process gives (checked against fresh
  sub-processes).
* The process-global HC flag is restored (finally) by the context manager and the decorator after rejected calls and
  failing writes inside the context; numpy.random is consumed by accepted add_origin calls only; timeit re-enables the
  garbage collector; HDF5 source files are closed again after a failed write.


METHOD
------
1. Reading: file/file.py (all add_*, check_objects, generate_logical_records, write), file/eflr_sets_dict.py,
   file/writer.py, file/multi_frame_data.py, logical_record/core/**, all eflr_types/*, iflr_types/*,
   misc/storage_unit_label.py, utils/**.
2. A differential fuzzer (scratch/fuzz.py, helper scratch/h.py): random programs over ALL 21 add_* methods (references
   between objects, 1-2 logical files, several set names incl. '', AttrSetup / dict forms, enum members, tuples, numpy
   scalars, explicit origin references, late origins). The polluted run interleaves rejected steps, the clean run leaves
   them out; both final files must be equal byte for byte. A "rejected" step that turns out to be accepted is dropped
   from both runs. Stages:
   1: rejected add_* calls (bad name / origin reference / any keyword corrupted in 8 ways / AttrSetup-dict forms / bad
      enum / bad reference class / unknown keyword / channels=[] / bad data / bad dataset name / HC name breach, with set
      names that are used later, never used again, or shared with valid calls);
   2: + rejected assignments (11 kinds) and failing writes (17 causes) at random positions;
   3: + more valid / invalid calls AFTER the failing writes; failing writes use OTHER data (other dtypes, widths, index
      values, row counts, row windows) so that everything derived differs from the final write;
   4: + valid steps inside high_compatibility_mode(), data given at add_channel instead of at write, final write with
      input_chunk_size / from_idx / to_idx;
   5: + attempted (successful or not) writes in BOTH runs, i.e. rejections between successful writes;
   6: + valid assignments in both runs (dimension, element limit, cast dtype, long name, units, rename to a fresh name,
      index min / max / spacing / units / direction / index type, description, a channel leaving a frame) among the
      failing writes.
   About 14 000 programs in total: 0 differences, 0 polluted-only write failures. The harness was validated with
   in-memory seeded defects (try_add_set without re-positioning -> 41/60 programs differ;
   forget_values_derived_from_data disabled -> 24/60).
3. scratch/snap.py / snaprun.py: deep snapshot of the whole DLISFile object graph before and after every rejected step
   of 400 programs (residue: empty sets only, see above).
4. scratch/cross.py: polluted history in a long-lived process (warm struct memo) vs. clean history in a fresh
   sub-process: 36/36 equal.
5. Hand-written scenarios (below).


ATTACK IDEAS TRIED (all: no violation, unless marked "known")
-------------------------------------------------------------
Rejected add_* calls
 1. Every keyword of every add_* corrupted (object(), bytes, complex, set, [object()], {'valu': 1}, {'value': object()},
    AttrSetup(value=object())), at every position of a history, followed by valid calls re-using the name and the set.
 2. Wrong name types (int, None, bytes, list); wrong origin_reference types ('1', 1.5, [0], numpy.int64).
 3. Values outside strict enumerations (zone domain, process status, calibration phase, property indicators -- also one
    bad element in a list of good ones) and outside soft enumerations under HC mode (units, index type, equipment type).
 4. Invalid references: wrong item class in zones, channels, parts, frame_type, coefficients, group_list, ...; text
    instead of an item; one bad element in a list / tuple of good ones.
 5. AttrSetup / dict forms whose value is accepted and whose units are then rejected (units=5, units on a unit-less
    attribute), and dicts with an unknown key after a good 'value'.
 6. add_channel: non-array data, non-text dataset_name, duplicate dataset_name, complex / int64 / float16 / text
    cast_dtype, fractional dimension; then channels of the same name (dataset names X__1, data dict untouched).
 7. add_frame: [], non-list, list with a non-channel, encrypted=5 / 'perhaps', bad index_type.
 8. add_origin: bad creation_time text, bad numbers, duplicate explicit reference (raised after the set was made),
    file_set_number=AttrSetup(3, units=5), as first origin with objects waiting for a reference, between origins of two
    differently named origin sets (which origin is the defining one, default references of later objects, file-header
    reference), in HC mode (default file set number = number of origins) and outside (consumption of numpy.random).
 9. Rejected call that is the first / the only one to name a set or a set type, set_name='' vs None, then valid calls in
    other sets of the type, then in the same set (order of sets and of set types in the file).
10. Rejected add_logical_file (bad fh_id, too long, fh_sequence_number 0 / '1' / True, bad identifier, HC breach,
    unknown keyword), rejected DLISFile(...) / StorageUnitLabel(...) constructions between valid ones.
11. Calls rejected in the second logical file because the set holds the first logical file's objects (try_add_set
    raising), then valid calls there; calls rejected in one of two interleaved DLISFile objects.
12. Calls rejected inside `with high_compatibility_mode():` (also nested, and through the decorator), flag checked
    afterwards; valid lower-case names accepted again outside.
13. Known, not reported again: a set left empty by logical file A and then used by B (incl. the variants "A retries with
    the same set name after B", "A's first origin afterwards" -- the write is refused in all of them).
Rejected assignments
14. attr.value / attr.units with wrong types on every attribute class, item.name = 5, item.origin_reference = 'x',
    channel.cast_dtype = numpy.int64 (after a write derived the dtype), item.attr = 5, set_attributes(bogus=1),
    origin.file_set_number.value = 3, frame.channels.value = [ch, 'x'], channel.representation_code.value = 2,
    file_header.header_id = 5, file_header.origin_reference = None: atomic, nothing changes (snapshots).
15. Rejected assignments between two successful writes with different data (derived markers untouched).
Failing writes, cause removed afterwards, compared with a fresh specification
16. Incomplete file (no origin / channels / frames), then completed by valid add_* calls (set order).
17. No data; data lacking only the last frame of the last logical file (earlier frames and logical files fully set up);
    unsupported source dtype; 3-D data; width contradicting a declared dimension / element limit / axis.
18. Different row counts inside a frame (raised while frame data are generated, after every EFLR was encoded and every
    default set), NaN under a declared integer cast of the index channel (then cast_dtype re-assigned).
19. input_chunk_size=0, from_idx=100, row windows, data=5, output_chunk_size too small, bad output path.
20. storage_unit_label.max_record_length = 11, file_header.sequence_number = -1 (first record, after all set-up), a name
    / a text value with non-ASCII characters (fails in the middle of the EFLRs), an origin reference of no origin, header
    id changed without the origin's file id -- each restored afterwards.
21. Write inside HC mode refused for non-uniform index spacing (after INDEX-MIN / MAX / units were derived), for signed
    integers, for a channel outside any frame; then written outside HC / with other data / after adding the frame.
22. Duplicate channel in a frame, emptied channel list, channel of another logical file / another DLISFile referenced
    (refused at write), then corrected by assignment; no-format data attached to a non-object or with a non-text payload.
23. Failing writes with data of other dtypes / widths / index order / row numbers / windows than the final write, several
    in a row, interleaved with valid and invalid add_* calls and with valid assignments to exactly the attributes a write
    derives (user value must win, derived value must go).
24. Failing write between two successful writes; rejected calls between two successful writes.
25. Failing write in the second logical file after the first one was processed completely.
Process-wide / environmental traces
26. Struct memo (lru_cache) after failing encodes; polluted run in a warm process vs. clean run in a fresh process.
27. HC flag after exceptions (context manager, nested, decorator, exception thrown into the generator).
28. numpy.random state and HC default file set numbers after rejected add_origin calls.
29. HDF5 source: failed write (missing data set), file then extended in 'a' mode (handle was released), second write
    equals a fresh specification's; file also released after a successful write.
30. timeit's gc.disable() after a raising write (re-enabled); numpy.errstate contexts (restored).
31. Re-using the output path of a failed (partial) write: re-opened with 'wb' (the partial file of a failed write that is
    never repeated is the known "refused write has already truncated the target").
Other
32. Mutation of caller-owned arguments by rejected calls (lists, tuples, dicts, AttrSetup objects): none.
33. Copy numbers / dataset names / origin references of objects added after rejections, incl. same names in the same set,
    renames to fresh names before / after, late first origin.
34. Direct use of generate_logical_records / check_objects (public) as "failed write".
35. Self-referencing / very deep nested values (RecursionError is raised before anything is assigned).

Side observation (outside C20, not a finding): IdentAttributes without a converter (Calibration.method,
NoFormat.consumer_name, Message._type, Frame.direction, Origin.file_set_name / file_type / name_space_name) and
Channel.source accept any object at add_* time (object(), bytes, complex, sets); the error appears only at write time.
This is the known "identifier attributes writing str() of arbitrary objects" item, met here only because such calls could
not be used as REJECTED calls in the fuzzer.

Files: findings.py (4 compact probes, 0.5 s); scratch/fuzz.py, h.py, snap.py, snaprun.py, cross.py, fresh_clean.py
(exploration tools: `python scratch/fuzz.py <from> <to> [2-6]`); scratch/stage*.log (their last outputs).
"""
import logging
import os
import sys
import tempfile
from datetime import datetime

sys.path.insert(0, os.path.join(os.path.dirname(os.path.abspath(__file__)), 'src'))

import numpy as np  # noqa: E402
import dliswriter.file.writer as _writer_module  # noqa: E402
from dliswriter import DLISFile, AttrSetup, enums, high_compatibility_mode  # noqa: E402

logging.disable(logging.CRITICAL)
_writer_module.progressbar = lambda it, **kw: it  # display only; the loop over the records is untouched

CT = datetime(2020, 1, 2, 3, 4, 5)
N = 6


def _write(df, **kw):
    kw.setdefault('output_chunk_size', 2 ** 20)
    fd, path = tempfile.mkstemp(suffix='.dlis')
    os.close(fd)
    try:
        df.write(path, **kw)
        with open(path, 'rb') as f:
            return f.read()
    finally:
        os.remove(path)


def _rejected(f, *a, **k):
    try:
        f(*a, **k)
    except Exception:
        return True
    raise AssertionError(f"probe is stale: {f} accepted {a} {k}")


def _data(alt=False):
    if alt:  # other dtypes, other widths, other index values, another number of rows
        return {'I': (np.arange(N + 2) ** 2).astype(np.float32)[::-1].copy(), 'B': np.arange((N + 2) * 2, dtype=np.int16).reshape(N + 2, 2),
                'C': np.arange(N + 2, dtype=np.uint8)}
    return {'I': np.arange(N) * 0.5, 'B': np.arange(N * 3.).reshape(N, 3), 'C': np.arange(N, dtype=np.uint16)}


def _history(polluted, hc_adds=False):
    """One long history over most object types; the polluted variant interleaves rejected calls of every kind."""

    df = DLISFile()
    if polluted:
        _rejected(df.add_logical_file, fh_id=5)
        _rejected(df.add_logical_file, fh_sequence_number=0)
    lf = df.add_logical_file()
    if polluted:
        # objects before the first origin, first add_origin rejected (several ways), empty origin set named first
        _rejected(lf.add_origin, 'O', creation_time='no date', set_name='OS2')
        _rejected(lf.add_origin, 'O', origin_reference='3')
        _rejected(lf.add_origin, 'O', run_number='x', file_set_number=AttrSetup(3, units=5))
    z0 = lf.add_zone('Z', domain='TIME', maximum=10, minimum=1)
    o1 = lf.add_origin('O', file_set_number=7, creation_time=CT, origin_reference=4)
    if polluted:
        _rejected(lf.add_origin, 'O', origin_reference=4)
        _rejected(lf.add_origin, 'O', set_name='OS2', well_name=5)
    o2 = lf.add_origin('O', file_set_number=8, creation_time=CT, set_name='OS2')

    def bad(method, **kw):
        if polluted:
            _rejected(getattr(lf, method), **kw)

    bad('add_axis', name='AX', spacing='x')
    bad('add_axis', name='AX', coordinates=[object()], set_name='AS2')
    ax = lf.add_axis('AX', coordinates=[1, 2, 3], set_name='AS2')
    bad('add_axis', name=5)
    ax2 = lf.add_axis('AX', coordinates=AttrSetup([1.5, 2.5]), spacing={'value': 1, 'units': 'm'})
    bad('add_long_name', name='LN', quantity=5)
    ln = lf.add_long_name('LN', quantity='q')
    bad('add_channel', name='I', units=5)
    bad('add_channel', name='I', cast_dtype=np.complex64)
    bad('add_channel', name='I', data=[1, 2])
    bad('add_channel', name='I', dataset_name=7)
    bad('add_channel', name='I', properties=['BOGUS'], set_name='CS2')
    bad('add_channel', name='I', axis='x', origin_reference='4')
    i = lf.add_channel('I', units='s', long_name=ln)
    bad('add_channel', name='B', dataset_name='I')
    bad('add_channel', name='B', dimension=[1.5])
    b = lf.add_channel('B', axis=ax, set_name='CS2', properties=[enums.Property.AVERAGED])
    bad('add_channel', name='B', long_name=5, set_name='CS2')
    b2 = lf.add_channel('B', set_name='CS2', dataset_name='C')
    bad('add_frame', name='F', channels=[])
    bad('add_frame', name='F', channels=[i, 'x'])
    bad('add_frame', name='F', channels=[i], encrypted=5)
    bad('add_frame', name='F', channels=(i, b), index_type=5, set_name='FS')
    f1 = lf.add_frame('F', channels=(i, b), index_type='BOREHOLE-DEPTH', set_name='FS')
    bad('add_frame', name='F', channels=[b2], spacing='x')
    f2 = lf.add_frame('F', channels=[b2])
    bad('add_zone', name='Z', domain='BOGUS')
    bad('add_zone', name='Z', maximum=object())
    z1 = lf.add_zone('Z', domain=enums.ZoneDomain.BOREHOLE_DEPTH, maximum=AttrSetup(3, 'm'))
    bad('add_parameter', name='P', zones=[ax])
    bad('add_parameter', name='P', values=[b'x'])
    p = lf.add_parameter('P', zones=[z0, z1], values=[1, 2], long_name='pl')
    bad('add_computation', name='CO', values=['x'])
    bad('add_computation', name='CO', properties=['NOPE'])
    co = lf.add_computation('CO', values=[2.5], source=p)
    bad('add_equipment', name='E', status=2)
    bad('add_equipment', name='E', height='x')
    e = lf.add_equipment('E', status=1, eq_type='Tool', height=AttrSetup(1, 'm'))
    bad('add_tool', name='T', parts=[p])
    t = lf.add_tool('T', parts=[e], channels=[i], status=0)
    bad('add_process', name='PR', status='BOGUS')
    bad('add_process', name='PR', input_channels=[z0])
    pr = lf.add_process('PR', status='COMPLETE', input_channels=[i], output_computations=[co], parameters=[p])
    bad('add_splice', name='SP', output_channel=z0)
    sp = lf.add_splice('SP', output_channel=b, input_channels=[i, i], zones=[z0, z1])
    bad('add_well_reference_point', name='W', magnetic_declination='x')
    w = lf.add_well_reference_point('W', magnetic_declination=1.5, coordinate_1_name='LAT')
    bad('add_path', name='PA', frame_type=i)
    bad('add_path', name='PA', value=[f1])
    pa = lf.add_path('PA', frame_type=f1, well_reference_point=w, value=[i], time=AttrSetup(3, 's'))
    bad('add_message', name='M', time=object())
    bad('add_message', name='M', text=[5])
    m = lf.add_message('M', time=CT, text=['a', 'b'])
    bad('add_comment', name='CM', text=5)
    cm = lf.add_comment('CM', text='single')
    bad('add_no_format', name='NF', description=5)
    nf = lf.add_no_format('NF', consumer_name='X')
    bad('add_no_format', name='NF', origin_reference=1.5)
    nf2 = lf.add_no_format('NF')
    lf.add_no_format_frame_data(nf2, 'payload of the second')
    bad('add_calibration_coefficient', name='CC', coefficients=['x'])
    cc = lf.add_calibration_coefficient('CC', coefficients=[1, 2], references=[3, 4])
    bad('add_calibration_measurement', name='CMS', phase='BOGUS')
    bad('add_calibration_measurement', name='CMS', sample_count=1.5)
    cms = lf.add_calibration_measurement('CMS', phase='AFTER', measurement_source=i, measurement=[1, 2], begin_time=CT)
    bad('add_calibration', name='CA', coefficients=[cms])
    ca = lf.add_calibration('CA', calibrated_channels=[b], coefficients=[cc], measurements=[cms], parameters=[p])
    bad('add_group', name='G', group_list=[ca])
    bad('add_group', name='G', object_list=['x'])
    g = lf.add_group('G', object_list=[i, z0, p])
    g2 = lf.add_group('G', group_list=[g], description='d')
    if polluted:
        with high_compatibility_mode():
            _rejected(lf.add_zone, 'lower case')
            _rejected(lf.add_channel, 'X', units='not-a-unit')
            _rejected(lf.add_frame, 'X', channels=[i], index_type='TIME')
        # rejected assignments
        _rejected(setattr, i, 'name', 5)
        _rejected(setattr, i, 'origin_reference', 'x')
        _rejected(setattr, i, 'cast_dtype', np.int64)
        _rejected(setattr, i.units, 'value', 5)
        _rejected(setattr, f1.channels, 'value', [i, 'x'])
        _rejected(setattr, f1.index_min, 'value', 'x')
        _rejected(setattr, b.dimension, 'value', [1.5])
        _rejected(setattr, o1.file_set_number, 'value', 3)
        _rejected(setattr, i, 'units', 'm')
        _rejected(i.set_attributes, bogus=1)
    # a second logical file (own set names)
    lf2 = df.add_logical_file(fh_id='SECOND', fh_sequence_number=2)
    if polluted:
        _rejected(lf2.add_channel, 'I', set_name='L2', units=5)
        _rejected(lf2.add_channel, 'I')     # the unnamed channel set holds the first logical file's channels
    lf2.add_origin('O2', file_set_number=9, creation_time=CT, set_name='L2')
    k = lf2.add_channel('K', set_name='L2')
    if polluted:
        _rejected(lf2.add_frame, 'F2', channels=[k], set_name='L2', direction=5, encrypted='perhaps')
    lf2.add_frame('F2', channels=[k], set_name='L2')
    return df, dict(lf=lf, lf2=lf2, i=i, b=b, b2=b2, f1=f1, f2=f2, p=p, k=k, o1=o1)


def _all_data(alt=False):
    d = _data(alt)
    d['K'] = np.arange(N + (2 if alt else 0), dtype=np.float32)
    return d


def probe_rejected_calls_of_every_kind():
    df1, _ = _history(False)
    df2, _ = _history(True)
    return _write(df1, data=_all_data()) != _write(df2, data=_all_data())


def probe_failing_writes_then_cause_removed():
    """Failing writes of many kinds (with other data, so that everything derived differs), each followed by the removal
    of its cause; the final file is compared with that of a fresh specification."""

    df1, _ = _history(False)
    df2, h = _history(True)
    lf, i, b, f1 = h['lf'], h['i'], h['b'], h['f1']

    def failing(**kw):
        kw.setdefault('data', _all_data(alt=True))
        _rejected(_write, df2, **kw)

    failing(data=None)                                  # no data at all
    d = _all_data(alt=True); d.pop('K'); failing(data=d)    # last frame of the last logical file lacks its data
    d = _all_data(alt=True); d['B'] = d['B'][:-1]; failing(data=d)   # rows differ: fails while frame data are generated
    failing(input_chunk_size=0)                         # after all frames have been set up from the data
    failing(from_idx=100)
    failing(data=5)
    failing(output_chunk_size=10)
    df2.storage_unit_label.max_record_length = 11; failing(); df2.storage_unit_label.max_record_length = 8192
    lf.file_header.sequence_number = -1; failing(); lf.file_header.sequence_number = 1   # first record, after all set-up
    i.name = 'né'; failing(); i.name = 'I'              # fails in the channel set, after the origin / axis / ... sets
    old = h['p'].origin_reference; h['p'].origin_reference = 77; failing(); h['p'].origin_reference = old
    f1.description.value = 'café'; failing(); f1.description.value = 'coffee'
    d = _all_data(); d['I'] = np.array([0, 1, 5, 6, 7, 20.])
    with high_compatibility_mode():
        failing(data=d)                                 # HC breach found at write time (index spacing not uniform)
    f1.description.value = 'coffee'
    df1_f1 = [fr for fr in df1.logical_files[0].frames if fr.parent.set_name == 'FS'][0]
    df1_f1.description.value = 'coffee'
    return _write(df1, data=_all_data()) != _write(df2, data=_all_data())


def probe_rejected_assignment_and_failed_write_between_two_writes():
    def run(polluted):
        df, h = _history(False)
        d0 = _all_data(alt=True); d0['B'] = np.arange((N + 2) * 3, dtype=np.float32).reshape(N + 2, 3)
        first = _write(df, data=d0, from_idx=1, to_idx=5)
        if polluted:
            _rejected(setattr, h['i'], 'cast_dtype', np.int64)
            _rejected(setattr, h['b'].element_limit, 'value', ['x'])
            _rejected(h['lf'].add_channel, 'D', set_name='CS2', minimum_value='x')
            d = _all_data(); d['I'] = np.array([0, 1, 5, 6, 7, 20.])
            with high_compatibility_mode():
                _rejected(_write, df, data=d)
            d = _all_data(); d['B'] = np.zeros((N, 2, 2))
            _rejected(_write, df, data=d)
        more = h['lf'].add_channel('D', set_name='CS2', dataset_name='B9')
        h['f2'].channels.value = [h['b2'], more]
        d = _all_data(); d['B9'] = np.arange(N, dtype=np.uint8)
        return first, _write(df, data=d)
    return run(False) != run(True)


def probe_hc_origin_defaults_and_random_numbers():
    def run(polluted, hc):
        np.random.seed(3)
        df = DLISFile(); lf = df.add_logical_file()

        def go():
            if polluted:
                _rejected(lf.add_origin, 'O', creation_time='x')
                _rejected(lf.add_origin, 'O', creation_time=CT, programs=[1])
            o1 = lf.add_origin('O', creation_time=CT)
            if polluted:
                _rejected(lf.add_origin, 'O', creation_time=CT, origin_reference=o1.origin_reference)
            o2 = lf.add_origin('O', creation_time=CT)
            return [o.file_set_number.value for o in (o1, o2)], [o.origin_reference for o in (o1, o2)], [o.copy_number for o in (o1, o2)]
        if hc:
            with high_compatibility_mode():
                r = go()
        else:
            r = go()
        c = lf.add_channel('A', data=np.arange(4.)); lf.add_frame('F', channels=[c])
        return r, _write(df)
    return any(run(False, hc) != run(True, hc) for hc in (False, True))


PROBES = [
    (probe_rejected_calls_of_every_kind, "rejected add_* / assignment calls of every kind over 21 object types, two logical files"),
    (probe_failing_writes_then_cause_removed, "13 failing writes (other data) each followed by the removal of its cause"),
    (probe_rejected_assignment_and_failed_write_between_two_writes, "rejections and failed writes between two successful writes"),
    (probe_hc_origin_defaults_and_random_numbers, "origin defaults (random / HC file set number, references, copies) after rejected add_origin"),
]


if __name__ == '__main__':
    violated = []
    for probe, descr in PROBES:
        try:
            observed = probe()
        except AssertionError:
            raise       # a call that the probe expects to be rejected was accepted: the probe is stale
        except Exception as exc:  # e.g. the final write of the polluted history is refused
            observed, descr = True, f"{descr} ({type(exc).__name__}: {exc})"
        if observed:
            violated.append(descr)
    if violated:
        # (not expected: kept so that a change of behaviour does not go unnoticed)
        for n, descr in enumerate(violated, 1):
            print(f"FINDING {n}: {descr} -> VIOLATED")
    else:
        print("NO FINDINGS")
