#!/usr/bin/env python3
"""selftest/mkmeta.py <seed-id> <round> <repo-commit> "<needs to manifest>" -- write seeded/<id>/meta.json from confirm.log"""
import json, os, sys
sid, rnd, commit, needs = sys.argv[1:5]
d = os.path.join(os.path.dirname(os.path.dirname(os.path.abspath(__file__))), 'seeded', sid)
p = os.path.join(d, 'meta.json')
meta = json.load(open(p)) if os.path.exists(p) else {}
conf = open(os.path.join(d, 'confirm.log')).read().splitlines()[0] if os.path.exists(os.path.join(d, 'confirm.log')) else ''
meta.update({
    'property': sid.split('-')[0],
    'origin': f'independent sub-agent (round {rnd}, at /repo {commit}), given only the property text, a scratch worktree and one-line descriptions of what the earlier changes for this property need',
    'status': meta.get('status', 'confirmed'),
    'files': [f for f in ('patch.diff', 'demo.py', 'NOTES.md') if os.path.exists(os.path.join(d, f))],
    'needs_to_manifest': needs or meta.get('needs_to_manifest', ''),
    'confirmed_by': f'selftest/confirm_seed.sh <id> [full] (scratch worktree of /repo HEAD {commit}: demo.py exits 0 without the patch and 1 with it; repository suite, hooks off, passes with the patch)',
    'confirm_result': conf,
})
json.dump(meta, open(p, 'w'), indent=1)
