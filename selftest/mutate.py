#!/venv/bin/python
"""Mutation self-test (DESIGN.md section 9.3): apply single-edit changes to a scratch copy of /repo/src
(outside /repo and /verif), run the intended check's quick tier against it, expect exit 1.

usage: selftest/mutate.py [id ...]        (no ids: all)
Results are appended to selftest/results.md by hand after review; nothing here is a registered check.
"""
import json, os, shutil, subprocess, sys, tempfile, time

ROOT = os.path.dirname(os.path.dirname(os.path.abspath(__file__)))
sys.path.insert(0, os.path.join(ROOT, 'selftest'))
from mutations import MUTATIONS   # noqa


def run_one(m, tier='quick'):
    tmp = tempfile.mkdtemp(prefix='vfmut-')
    try:
        shutil.copytree('/repo/src', os.path.join(tmp, 'src'), ignore=shutil.ignore_patterns('__pycache__', 'tests'))
        p = os.path.join(tmp, 'src', 'dliswriter', m['file'])
        s = open(p).read()
        if s.count(m['old']) != 1:
            return m['id'], 'PATTERN-NOT-UNIQUE(%d)' % s.count(m['old']), ''
        open(p, 'w').write(s.replace(m['old'], m['new']))
        out = {}
        for prop in m['props']:
            env = dict(os.environ, VF_REPO=tmp, VF_EVIDENCE_DIR=os.path.join(tmp, 'ev'), VF_REPLAY_DIR=os.path.join(tmp, 'rp'))
            t0 = time.time()
            r = subprocess.run([os.path.join(ROOT, 'check'), prop, tier], env=env, capture_output=True, text=True)
            first = next((l for l in r.stdout.splitlines() if l.startswith('  kind=')), '')
            out[prop] = (r.returncode, round(time.time() - t0, 1), first.strip()[:160])
        return m['id'], out, ''
    finally:
        shutil.rmtree(tmp, ignore_errors=True)


if __name__ == '__main__':
    ids = sys.argv[1:]
    sel = [m for m in MUTATIONS if not ids or m['id'] in ids]
    for m in sel:
        mid, out, _ = run_one(m)
        if isinstance(out, str):
            print(f'{mid:28s} {out}')
            continue
        for prop, (rc, dt, first) in out.items():
            status = 'CAUGHT' if rc == 1 else ('MISSED' if rc == 0 else f'rc={rc}')
            print(f'{mid:28s} {prop} {status:7s} {dt:5.1f}s  {first}')
