"""Catalogue of realistic single-edit breaking changes (see DESIGN.md section 9.3)."""
LRB = 'logical_record/core/logical_record/logical_record_bytes.py'
WR = 'file/writer.py'
MUTATIONS = [
    dict(id='seg-startpos-not-shortened', props=['C02'], file=LRB,
         old="                n_bytes -= (12 - future_remaining_size)",
         new="                n_bytes -= (13 - future_remaining_size)"),
    dict(id='seg-successor-on-last', props=['C02'], file=LRB,
         old="            is_last = end_pos == self._size", new="            is_last = end_pos > self._size"),
    dict(id='seg-pad-flag-dropped', props=['C01'], file=LRB,
         old="            segment_attributes.has_padding = True", new="            segment_attributes.has_padding = False"),
    dict(id='seg-first-flag', props=['C02'], file=LRB,
         old="            is_first=(start_pos == 0),", new="            is_first=(start_pos == 0 and is_last),"),
    dict(id='vr-length-field', props=['C01'], file=WR,
         old="        return RepresentationCode.UNORM.convert(size) + self._fmt_version + body",
         new="        return RepresentationCode.UNORM.convert(size - (size % 4)) + self._fmt_version + body"),
    dict(id='buffer-writes-whole', props=['C01'], file=WR,
         old="        self._writer.write_bytes(self._bts[:self._filled_size], self._filled_size)",
         new="        self._writer.write_bytes(self._bts[:max(self._filled_size, 64)], self._filled_size)"),
]
