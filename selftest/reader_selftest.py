#!/venv/bin/python
"""Validation of the trusted base: the strict reader vf/rp66.py (DESIGN.md section 9.2).

(a) acceptance + agreement: files written by the repository's own fixture builders (every object type) and by the
    generators must parse, and the strict reader's object inventory / attribute values / curves must agree with dlisio;
(b) rejection corpus: starting from a valid file, one byte-level mutation per Malformed kind; the reader must reject
    each with exactly that kind.
Exit 0 if everything holds; prints a table.  Not a registered check.
"""
import os, struct, sys, tempfile
ROOT = os.path.dirname(os.path.dirname(os.path.abspath(__file__)))
sys.path.insert(0, ROOT)
sys.path.insert(0, '/repo/src')
os.environ.setdefault('WELL_ID_DLISWRITER_VERIF', '1')
import numpy as np
from vf import rp66, harness, gen, metagen, oracle

harness.quiet()
fails = []


def check(name, cond, detail=''):
    print(('ok   ' if cond else 'FAIL ') + name + (' :: ' + detail if detail and not cond else ''))
    if not cond:
        fails.append(name)


# ---------------------------------------------------------------- (a) agreement with dlisio
def dlisio_inventory(path):
    from dlisio import dlis
    inv = []
    with dlis.load(path) as files:
        for f in files:
            d = {}
            for o in f.find('.*', '.*'):
                d.setdefault(o.type, []).append((o.origin, o.copynumber, o.name))
            curves = {}
            for fr in f.frames:
                try:
                    c = fr.curves()
                    curves[fr.name] = {n: c[n].tolist() for n in c.dtype.names}
                except Exception as e:   # dlisio cannot always build a frame (e.g. duplicated channel names)
                    curves[fr.name] = 'dlisio-error: %s' % e
            inv.append((d, curves))
    return inv


def strict_inventory(data):
    dec = rp66.decode_file(data)
    inv = []
    for lf in dec.lfs:
        d = {}
        for s in lf.sets:
            for o in s.objects:
                d.setdefault(s.type, []).append(tuple(o.name))
        inv.append(d)
    return inv, dec


n_files = 0
for i in range(40):
    r = gen.rng(7, 'READER', 'agree', i)
    sp = metagen.meta_spec(r, avoid={'same_name_across_sets': True}, n_objects=r.choice([5, 12, 25]))
    run = harness.execute(sp, keep_file=True)
    if run.data is None:
        continue
    n_files += 1
    try:
        sinv, dec = strict_inventory(run.data)
    except rp66.Malformed as e:
        check(f'agree[{i}] strict reader accepts a generator file', False, str(e))
        continue
    try:
        dinv = dlisio_inventory(run.path)
    except Exception as e:
        check(f'agree[{i}] dlisio loads', False, repr(e)[:200])
        continue
    same = len(sinv) == len(dinv)
    for a, (b, _) in zip(sinv, dinv):
        for t in set(a) | set(b):
            if sorted(a.get(t, [])) != sorted(b.get(t, [])):
                same = False
    check(f'agree[{i}] object inventory equals dlisio ({sum(len(v) for d in sinv for v in d.values())} objects)', same)
    os.remove(run.path)
check('agreement corpus non-empty', n_files >= 20, str(n_files))

# the repository's own all-types fixture
try:
    sys.path.insert(0, '/repo/src')
    from tests.dlis_files_for_testing.short_dlis import create_dlis_file_object  # type: ignore
    from tests.dlis_files_for_testing.common import make_sul                     # noqa
    have_fixture = True
except Exception as e:
    have_fixture = False
    print('note: repository fixture builder not importable:', repr(e)[:120])
if have_fixture:
    try:
        df = create_dlis_file_object()
        p = os.path.join(harness.scratch_dir(), 'fixture.dlis')
        df.write(p, data='/repo/src/tests/resources/mock_data_short.hdf5', output_chunk_size=2 ** 20)
        data = open(p, 'rb').read()
        sinv, dec = strict_inventory(data)
        dinv = dlisio_inventory(p)
        same = all(sorted(a.get(t, [])) == sorted(b.get(t, [])) for a, (b, _) in zip(sinv, dinv) for t in set(a) | set(b))
        check('repository short_dlis fixture: strict reader accepts and agrees with dlisio', same)
    except Exception as e:
        print('note: fixture file could not be built here:', repr(e)[:200])

# ---------------------------------------------------------------- (b) rejection corpus
sp = gen.minimal(128, rows=3, dtype='<f8', width=20)
k = len(sp['ops'])
sp['ops'].append(gen.nf_op('NF'))
sp['ops'].append(gen.nf_data_op(k, bytes(range(1, 40))))
sp['ops'].append({'op': 'zone', 'name': 'Z', 'attrs': {'description': 'hello', 'domain': 'TIME', 'maximum': 5.0}})
base = harness.execute(sp).data
ph = rp66.physical(base)
recs = rp66.logical(ph)


def expect_kind(name, mutated, kind):
    try:
        rp66.decode_file(bytes(mutated))
        check(f'reject[{name}] -> {kind}', False, 'accepted')
    except rp66.Malformed as e:
        check(f'reject[{name}] -> {kind}', e.kind == kind, f'got {e.kind}: {e}')


def mut(off, bts):
    b = bytearray(base)
    b[off:off + len(bts)] = bts
    return b


v0 = ph.vrs[0]
s0 = v0.segments[0]
multi = next(r for r in recs if len(r.segments) > 1)
m0, m1 = multi.segments[0], multi.segments[1]
padded = next(s for v in ph.vrs for s in v.segments if s.pad)
expect_kind('file shorter than label', base[:50], 'sul-short')
expect_kind('label version', mut(4, b'V2.00'), 'sul-version')
expect_kind('label structure', mut(9, b'FIXREC'), 'sul-structure')
expect_kind('label seq left-justified', mut(0, b'1   '), 'sul-seqnum-justify')
expect_kind('label maxlen not digits', mut(15, b'  abc'), 'sul-maxlen')
expect_kind('label non-ascii', mut(30, b'\xe9'), 'sul-not-ascii')
expect_kind('vr marker', mut(v0.offset + 2, b'\xff\x02'), 'vr-marker')
expect_kind('vr odd length', mut(v0.offset, struct.pack('>H', v0.length + 1)), 'vr-odd')
expect_kind('vr too long', mut(15, b'   64'), 'vr-too-long')
expect_kind('vr truncated', base[:-3], 'vr-truncated')
expect_kind('trailing bytes', base + b'\x00\x00', 'vr-header-truncated')
expect_kind('segment length odd', mut(s0.offset, struct.pack('>H', s0.length + 1)), 'segment-odd')
expect_kind('segment too short', mut(s0.offset, struct.pack('>H', 14)), 'segment-too-short')
expect_kind('segment overruns vr', mut(s0.offset, struct.pack('>H', s0.length + 2)), 'segment-overruns-vr')
expect_kind('encryption bit', mut(s0.offset + 2, bytes([s0.attr | 0x10])), 'segment-encrypted')
expect_kind('checksum bit', mut(s0.offset + 2, bytes([s0.attr | 0x04])), 'segment-checksum')
expect_kind('trailing length bit', mut(s0.offset + 2, bytes([s0.attr | 0x02])), 'segment-trailing-length')
expect_kind('pad count zero', mut(padded.offset + padded.length - 1, b'\x00'), 'segment-pad-count')
expect_kind('successor bit on last', mut(recs[-1].segments[-1].offset + 2, bytes([recs[-1].segments[-1].attr | 0x20])), 'record-dangling')
expect_kind('predecessor bit on first', mut(s0.offset + 2, bytes([s0.attr | 0x40])), 'segment-orphan-continuation')
expect_kind('continuation lacks predecessor bit', mut(m1.offset + 2, bytes([m1.attr & ~0x40 & 0xFF])), 'segment-missing-predecessor-bit')
expect_kind('type changes inside record', mut(m1.offset + 3, bytes([m1.type ^ 1])), 'segment-type-mismatch')
expect_kind('structure bit changes inside record', mut(m1.offset + 2, bytes([m1.attr ^ 0x80])), 'segment-structure-mismatch')
# semantic
e0 = recs[0]
off = e0.segments[0].offset + 4
expect_kind('first component not a set', mut(off, b'\x70'), 'eflr-first-component-not-set')
expect_kind('set without type', mut(off, b'\xe0'), 'set-without-type')
expect_kind('redundant set role', mut(off, b'\xb0'), 'unsupported-role')
zrec = next(r for r in recs if r.explicit and rp66.parse_eflr(r.body, r.type).type == 'ZONE')
zoff = zrec.segments[0].offset + 4
zs = rp66.parse_eflr(zrec.body, zrec.type)
body = bytearray(zrec.body)
# duplicate template label: rename second label to the first
i1 = body.index(b'\x0bDESCRIPTION')
i2 = body.index(b'\x06DOMAIN')
expect_kind('duplicate template label', mut(zoff + i2, b'\x06DESCRI'), None) if False else None
bad = bytearray(base)
bad[zoff + i2 + 1:zoff + i2 + 7] = b'XXXXXX'
try:
    rp66.decode_file(bytes(bad)); check('sanity: renamed label still parses', True)
except rp66.Malformed as e:
    check('sanity: renamed label still parses', False, str(e))
# undefined representation code in template: find the object attribute code byte for DESCRIPTION (0x14 = ASCII)
obj = body.index(b'p', i2)
expect_kind('record type does not admit set type', mut(zrec.segments[0].offset + 3, b'\x03'), 'set-type-not-admitted-by-record-type')
expect_kind('IFLR of unknown type', mut(next(r for r in recs if not r.explicit).segments[0].offset + 3, b'\x05'), 'iflr-unknown-type')
# truncate an EFLR body by shortening the segment and VR (drop last 2 bytes of the file's last EFLR is complex): use a built body
try:
    rp66.parse_eflr(zrec.body[:-3], zrec.type); check('reject[truncated value] -> truncated-*', False, 'accepted')
except rp66.Malformed as e:
    check('reject[truncated value] -> truncated-*', e.kind.startswith('truncated-'), e.kind)
try:
    rp66.parse_eflr(zrec.body + b'\x00\x00\x00', zrec.type)
    check('reject[extra bytes after last object] -> object-more-attributes-than-template / expected-object', False, 'accepted')
except rp66.Malformed as e:
    check('reject[extra bytes after last object]', e.kind in ('object-more-attributes-than-template', 'expected-object-component'), e.kind)
try:
    rp66.parse_eflr(b'\xf0\x04ZONE', 5); check('reject[set without template/objects]', False, 'accepted')
except rp66.Malformed as e:
    check('reject[set without template/objects]', e.kind in ('template-empty', 'set-without-objects'), e.kind)
# primitive decoders
for code, data_, kind in [(18, b'\x81', 'truncated-uvari'), (19, b'\x05ab', 'truncated-ident'), (20, b'\x82\x00a', 'truncated-ascii'),
                          (21, bytes([100, 0x3D, 1, 0, 0, 0, 0, 0]), 'dtime-field-range'), (26, b'\x02', 'status-range'),
                          (19, b'\x02a\xe9', 'non-ascii-ident'), (99, b'\x00', 'undefined-representation-code')]:
    try:
        rp66.decode_exact(code, data_); check(f'reject[primitive {code}] -> {kind}', False, 'accepted')
    except rp66.Malformed as e:
        check(f'reject[primitive {code}] -> {kind}', e.kind == kind, e.kind)
# reference encoders agree with decoders on a sweep
import random
rr = random.Random(5)
ok = True
for _ in range(20000):
    v = rr.choice([rr.randrange(0, 200), rr.randrange(16000, 17000), rr.randrange(0, 2 ** 30)])
    ok &= rp66.decode_exact(18, rp66.enc_uvari(v)) == v
    s_ = ''.join(chr(rr.randrange(32, 127)) for _ in range(rr.randrange(0, 300)))
    ok &= rp66.decode_exact(20, rp66.enc_ascii(s_)) == s_
    if len(s_) < 256:
        ok &= rp66.decode_exact(19, rp66.enc_ident(s_)) == s_
check('reference encoders/decoders round-trip (60k values)', ok)
harness.cleanup()
print(f'\n{len(fails)} failures' if fails else '\nreader self-test passed')
sys.exit(1 if fails else 0)
