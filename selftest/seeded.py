#!/venv/bin/python
"""Run registered checks against the seeded breaking changes kept under /verif/seeded/<id>/ (patch.diff + meta.json).

Each patch is applied to a scratch copy of /repo (outside /repo and /verif), the checks named in meta.json (or given
with --props) are run against the copy through VF_REPO, and the copy is removed.  With --in-repo the patch is applied
to /repo itself (git apply) and reverted afterwards (git checkout -- .), which is how the harness will use the checks.

usage: selftest/seeded.py [--tier quick|thorough] [--props C01,C02] [--all-props] [--in-repo] [id ...]
"""
import json, os, shutil, subprocess, sys, tempfile, time

ROOT = os.path.dirname(os.path.dirname(os.path.abspath(__file__)))
ALL = ['C%02d' % i for i in range(1, 21)]


def main(argv):
    tier, props, in_repo, ids, allp = 'quick', None, False, [], False
    i = 0
    while i < len(argv):
        a = argv[i]
        if a == '--tier':
            tier = argv[i + 1]; i += 1
        elif a == '--props':
            props = argv[i + 1].split(','); i += 1
        elif a == '--all-props':
            allp = True
        elif a == '--in-repo':
            in_repo = True
        else:
            ids.append(a)
        i += 1
    sdir = os.path.join(ROOT, 'seeded')
    argv_ids = list(ids)
    ids = ids or sorted(d for d in os.listdir(sdir) if os.path.exists(os.path.join(sdir, d, 'patch.diff')))
    for sid in ids:
        meta = json.load(open(os.path.join(sdir, sid, 'meta.json')))
        if meta.get('status') == 'superseded' and not argv_ids:
            print(f'{sid:34s} superseded: {meta.get("superseded_by", "")[:110]}', flush=True)
            continue
        patch = os.path.join(sdir, sid, 'patch.diff')
        run_props = ALL if allp else (props or meta.get('run_props') or [meta['property']])
        if in_repo:
            r = subprocess.run(['git', '-C', '/repo', 'apply', patch], capture_output=True, text=True)
            if r.returncode:
                print(f'{sid}: patch does not apply to /repo: {r.stderr.strip()[:200]}'); continue
            env = dict(os.environ)
            tmp = None
        else:
            tmp = tempfile.mkdtemp(prefix='vfseed-')
            shutil.copytree('/repo/src', os.path.join(tmp, 'src'), ignore=shutil.ignore_patterns('__pycache__', 'outputs'))
            r = subprocess.run(['patch', '-p1', '-s', '-d', tmp, '-i', patch], capture_output=True, text=True)
            if r.returncode:
                print(f'{sid}: patch does not apply: {(r.stdout + r.stderr).strip()[:300]}')
                shutil.rmtree(tmp, ignore_errors=True); continue
            env = dict(os.environ, VF_REPO=tmp, VF_EVIDENCE_DIR=os.path.join(tmp, 'ev'), VF_REPLAY_DIR=os.path.join(tmp, 'rp'))
        try:
            for p in run_props:
                t0 = time.time()
                r = subprocess.run([os.path.join(ROOT, 'check'), p, tier], env=env, capture_output=True, text=True)
                first = next((l.strip() for l in r.stdout.splitlines() if l.startswith('  kind=')), '')
                status = {0: 'missed', 1: 'CAUGHT', 2: 'inconclusive'}.get(r.returncode, f'rc={r.returncode}')
                mark = '*' if p == meta['property'] else ' '
                print(f'{sid:34s} {p}{mark} {status:12s} {time.time() - t0:5.1f}s  {first[:150]}', flush=True)
        finally:
            if in_repo:
                subprocess.run(['git', '-C', '/repo', 'checkout', '--', '.'])
            else:
                shutil.rmtree(tmp, ignore_errors=True)


if __name__ == '__main__':
    main(sys.argv[1:])
