#!/bin/sh
# run the repository's complete test-suite (hooks off) on a scratch worktree of the given /repo commit; append the result to /tmp/w/suite.log
c=${1:-HEAD}
h=$(git -C /repo rev-parse --short $c)
W=/tmp/suite/$h
rm -rf $W; mkdir -p /tmp/suite
git -C /repo worktree add -q --detach $W $h || exit 3
mkdir -p $W/src/tests/outputs
cd $W
res=$(env -u WELL_ID_DLISWRITER_VERIF PYTHONPATH=$W/src /venv/bin/python -m pytest -q -p no:cacheprovider --timeout=900 2>&1 | tail -1)
echo "$h: $res" >> /tmp/w/suite.log
cd /; git -C /repo worktree remove --force $W
