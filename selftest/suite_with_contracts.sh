#!/bin/sh
# the repository's own test-suite (scratch worktree of /repo HEAD) with the harness-side contracts attached and the taps on;
# result -> selftest/suite_with_contracts.json   (usage: selftest/suite_with_contracts.sh [pytest args, default: whole suite])
W=/tmp/suitec
rm -rf $W; git -C /repo worktree add -q --detach $W HEAD || exit 3
mkdir -p $W/src/tests/outputs
cd $W
PYTHONPATH=/verif:/verif/.deps:$W/src WELL_ID_DLISWRITER_VERIF=1 VF_CONTRACTS_OUT=/verif/selftest/suite_with_contracts.json \
  /venv/bin/python -m pytest -q -p no:cacheprovider -p vf.pytest_contracts --timeout=900 "${@:-src/tests}" 2>&1 | tail -4
cd /; git -C /repo worktree remove --force $W
