import json, sys
sys.path.insert(0, '/verif')
import importlib
checks = []
TECH = {}
claimed = []
import os
for i in range(1, 21):
    pid = f'C{i:02d}'
    if not os.path.exists(f'/verif/vf/checks/{pid.lower()}.py'):
        continue
    m = importlib.import_module(f'vf.checks.{pid.lower()}')
    M = m.META
    claimed.append(pid)
    checks.append({
        'property_id': pid,
        'quick_cmd': f'./check {pid} quick',
        'thorough_cmd': f'./check {pid} thorough',
        'evidence_file': f'/verif/evidence/{pid}.json',
        'replay_cmd_template': f'./check {pid} --replay {{path}}',
        'engine': 'vf',
        'level_claimed': {'category': M['level'], 'text': M.get('level_text', 'held on the executions observed: real code run under generated boundary/hostile workloads, every execution decided by an independent oracle; no claim beyond the explored cases'), 'design_ref': f'DESIGN.md section 5, {pid}'},
        'level_note': M.get('level_note', 'trusted base: the strict RP66 reader vf/rp66.py, the expected-model vf/expect.py + vf/schema.py, numpy/h5py/stdlib; guarded taps in /repo'),
        'technique': M.get('technique', 'runtime monitoring: real writer executed under generated workloads; output decoded by an independent strict RP66 reader and compared with a reference model, plus in-execution taps'),
    })
props = [json.loads(l)['id'] for l in open('/verif/properties.jsonl')]
na = [{'property_id': p, 'reason': 'check not built yet in this round; planned (see DESIGN.md section 5) -- not claimed until its monitor has been run silent on the unchanged tree'} for p in props if p not in claimed]
man = {
    'version': 1,
    'setup_cmd': '/venv/bin/pip install -q --no-index --find-links /opt/veriftools/wheels --target /verif/.deps icontract || true',
    'hooks': {
        'guard': 'WELL_ID_DLISWRITER_VERIF',
        'enable': 'environment variable WELL_ID_DLISWRITER_VERIF=1 set by vf/run.py for every worker process; pure-Python repo, nothing to build (workers import /repo/src directly with a private pycache prefix)',
        'baseline_off_cmd': 'cd /repo && env -u WELL_ID_DLISWRITER_VERIF /venv/bin/python -m pytest -ra -q -p no:cacheprovider --timeout=900 --continue-on-collection-errors',
        'source_commits': json.load(open('/verif/hooks_commits.json')) if os.path.exists('/verif/hooks_commits.json') else [],
        'add_only': True,
    },
    'engines': [{'name': 'vf', 'path': '/verif/vf', 'serves_properties': claimed, 'kind_free_text': 'runtime monitoring harness: spec builder, guarded taps, strict RP66 reader oracle, reference model, sharded runner'}],
    'checks': checks,
    'notes': 'Exit codes: 0 held on observed, 1 VIOLATION, 2 INCONCLUSIVE (a deciding observation class or monitor was never reached, or a watchdog fired). See DESIGN.md.',
    'not_applicable': na,
}
json.dump(man, open('/verif/MANIFEST.json', 'w'), indent=1)
print(len(checks), 'checks;', len(na), 'not claimed')
