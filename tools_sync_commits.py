"""Re-map commit hashes mentioned in known_findings.json / DESIGN.md / hooks_commits.json after /repo history was rewritten
(subject lines are the stable key)."""
import json, re, subprocess
def git(*a): return subprocess.run(['git', '-C', '/repo', *a], capture_output=True, text=True).stdout
new = {}
for l in git('log', '--format=%h\t%s').splitlines():
    h, s = l.split('\t', 1)
    new[s] = h
def remap(h):
    s = git('log', '-1', '--format=%s', h).strip()
    return new.get(s, h) if s else h
for path in ('/verif/known_findings.json', '/verif/DESIGN.md', '/verif/hooks_commits.json'):
    t = open(path).read()
    hashes = set(re.findall(r'\b[0-9a-f]{7}\b', t))
    n = 0
    for h in hashes:
        if subprocess.run(['git', '-C', '/repo', 'cat-file', '-e', h + '^{commit}'], capture_output=True).returncode == 0:
            nh = remap(h)
            if nh != h:
                t = t.replace(h, nh); n += 1
    open(path, 'w').write(t)
    print(path, n, 'hashes remapped')
