"""Runtime-monitoring framework for well-id/dliswriter (see /verif/DESIGN.md)."""
