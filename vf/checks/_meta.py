"""Shared metadata workload for C04 / C05 / C07 / C09: random and enumerated specifications over all 21 object
types, executed through the public API, decoded by the strict reader and compared with the expected model."""
from __future__ import annotations
from vf import gen, schema

TYPES = [t for t in schema.TYPES]


def cases(tier, seed, PROP):
    i = 0
    # every type x every single attribute alone / all attributes / multiplicity classes
    for t in TYPES:
        if t in ('origin', 'channel', 'frame'):
            modes = ['all', 'sub']
        else:
            modes = ['single', 'all', 'sub', 'multi', 'none']
        for m in modes:
            yield {'stratum': 'per-type', 'index': i, 'kind': 'type', 'type': t, 'mode': m}
            i += 1
    for n in ([1, 2, 50, 300] if tier == 'quick' else [1, 2, 3, 10, 50, 120, 300, 600]):
        for t in ['zone', 'equipment', 'long_name', 'parameter']:
            yield {'stratum': 'many-objects', 'index': i, 'kind': 'many', 'type': t, 'n': n}
            i += 1
    if PROP in ('C04', 'C07'):
        # many objects of ONE name in one set: copy numbers up to 255 (one byte, not a variable-length count)
        for k, n in enumerate([129, 130, 256] if tier == 'quick' else [2, 127, 128, 129, 130, 200, 255, 256]):
            yield {'stratum': 'many-same-named', 'index': k, 'kind': 'same-named', 'n': n}
    for k in range(250 if tier == 'quick' else 6000):
        yield {'stratum': 'random', 'index': k, 'kind': 'random'}
    if PROP in ('C07', 'C09'):
        for k in range(150 if tier == 'quick' else 3000):
            yield {'stratum': 'graph', 'index': k, 'kind': 'graph'}
    if PROP == 'C04':
        # text the writer may or may not accept (non-ASCII in identifier / units / text positions): IF a file is written,
        # every record in it must still decode
        for k in range(30 if tier == 'quick' else 300):
            yield {'stratum': 'non-ascii-if-accepted', 'index': k, 'kind': 'nonascii'}
    if PROP == 'C04':
        # value lists whose elements have no common representation code (text mixed with numbers; all text, one of which reads
        # as a number): refused, or -- if a file is written -- every record in it must still decode
        for k in range(30 if tier == 'quick' else 300):
            yield {'stratum': 'values-of-mixed-kinds-if-accepted', 'index': k, 'kind': 'mixedkinds'}
    if PROP in ('C04', 'C09'):
        # forms of the set name: none, empty text, text; and a set given (another) name after its objects were added
        for k in range(40 if tier == 'quick' else 600):
            yield {'stratum': 'set-name-forms', 'index': k, 'kind': 'setnames'}
    if PROP in ('C04', 'C05'):
        # value lists edited IN PLACE (list.pop / append / clear on attribute.value) between two writes
        for k in range(40 if tier == 'quick' else 800):
            yield {'stratum': 'inplace-edit-then-rewrite', 'index': k, 'kind': 'inplace'}
    if PROP == 'C05':
        # "at creation or later": values re-assigned after a first write, incl. values of another kind (text <-> number <->
        # reference <-> date-time) -- the second file must carry what is assigned now
        for k in range(60 if tier == 'quick' else 1500):
            yield {'stratum': 'reassign-after-write', 'index': k, 'kind': 'rewrite'}
    if PROP in ('C07', 'C09'):
        # the first call for a (type, set name) is rejected, repeated with valid values, and the object is referred to
        for k in range(60 if tier == 'quick' else 1200):
            yield {'stratum': 'retry-after-rejected-call', 'index': k, 'kind': 'retry'}
    if PROP == 'C07':
        # one name used by objects of several TYPES, referred to through attributes that accept an object of any type
        for k in range(12 if tier == 'quick' else 200):
            yield {'stratum': 'same-name-across-types', 'index': k, 'kind': 'across-types'}
        # an object of ANOTHER logical file (or no NO-FORMAT object at all) handed to a reference attribute / to
        # add_no_format_frame_data: refused, or every reference resolves in its own logical file
        for k in range(20 if tier == 'quick' else 400):
            yield {'stratum': 'object-of-another-logical-file', 'index': k, 'kind': 'foreign-ref'}
        # the reference 0 given explicitly (to a second origin, to objects) while the defining origin has another one
        for k in range(12 if tier == 'quick' else 200):
            yield {'stratum': 'explicit-origin-reference-zero', 'index': k, 'kind': 'origin-zero'}
        yield {'stratum': 'kf-regression', 'index': 0, 'kind': 'kf-c07-across-sets'}
        # logical files built in an interleaved order: objects of the last one wait for their origin while the others get
        # theirs (with an explicit reference, which a later origin of the waiting file carries as well)
        for k in range(60 if tier == 'quick' else 1200):
            yield {'stratum': 'origins-of-interleaved-logical-files', 'index': k, 'kind': 'origin-race'}
        # the origin's reference re-assigned before the other objects are added; one header object given to two logical files
        for k in range(16 if tier == 'quick' else 300):
            yield {'stratum': 'header-origin-field', 'index': k, 'kind': 'header-origin'}
        # names that differ only in blanks at their ends ('RPM', 'RPM ', ' RPM'): different names, different identities
        for k in range(16 if tier == 'quick' else 300):
            yield {'stratum': 'names-differing-in-blanks', 'index': k, 'kind': 'blank-names'}
        # same-named objects, one of them renamed to a FRESH name (no collision at any moment), then the old name used again
        for k in range(40 if tier == 'quick' else 800):
            yield {'stratum': 'rename-away-then-reuse-name', 'index': k, 'kind': 'rename-reuse'}
        # identities changed between two writes (rename, another origin): references must follow
        for k in range(60 if tier == 'quick' else 1500):
            yield {'stratum': 'identity-change-then-rewrite', 'index': k, 'kind': 'rewrite'}
    if PROP == 'C09':
        # the header pointed at an origin other than the defining one (possibly one of another ORIGIN set): the defining origin
        # still comes first
        for k in range(24 if tier == 'quick' else 400):
            yield {'stratum': 'header-origin-field', 'index': k, 'kind': 'header-origin'}
    if PROP in ('C09', 'C04'):
        # the header's id (incl. ids longer than the 65 characters of its field) / sequence number re-assigned between writes
        for k in range(40 if tier == 'quick' else 800):
            yield {'stratum': 'header-change-then-rewrite', 'index': k, 'kind': 'rewrite'}
    if PROP == 'C09':
        for k in range(60 if tier == 'quick' else 600):
            yield {'stratum': 'header', 'index': k, 'kind': 'header'}


VALUELESS = [None, 'omit', {'$setup': {}, 'route': 'dict'}, {'$setup': {}, 'route': 'AttrSetup'},
             {'$setup': {'value': None}, 'route': 'AttrSetup'}]     # (a dict {'value': None} is refused by add_origin)


def build_spec(case, PROP, r):
    sp = _build_spec(case, PROP, r)
    if PROP in ('C05', 'C09') and case['kind'] in ('random', 'header', 'graph', 'setnames'):
        # the origin's FILE-SET-NUMBER / CREATION-TIME left to the library, in every way of "not giving a value"
        r2 = gen.rng(case.get('seed', 0), PROP, case['stratum'] + '/origin-defaults', case['index'])
        for op in sp['ops']:
            if op['op'] == 'origin':
                for kw, p in (('file_set_number', 0.3), ('creation_time', 0.15)):
                    if r2.random() < p:
                        form = r2.choice(VALUELESS)
                        if form == 'omit':
                            op['attrs'].pop(kw, None)
                        else:
                            op['attrs'][kw] = form
                        op['valueless_' + kw] = True
    return sp


def _build_spec(case, PROP, r):
    from vf import metagen
    avoid = metagen.default_avoid()
    k = case['kind']
    if k == 'random':
        return metagen.meta_spec(r, avoid=avoid)
    if k == 'nonascii':
        sp = metagen.meta_spec(r, avoid=avoid, n_objects=r.choice([2, 5]), later_p=0.0)
        where = r.choice(['units', 'channel-units', 'name', 'ident-value', 'text', 'set-name'])
        txt = r.choice(['°C', 'µs', 'Åsgard', 'naïve', 'Ω', 'é'])
        if where == 'units':
            sp['ops'].append({'op': 'equipment', 'name': 'EQ-NA', 'attrs': {'height': {'$setup': {'value': 1.5, 'units': txt}, 'route': 'dict'}}})
        elif where == 'channel-units':
            ch = next(o for o in sp['ops'] if o['op'] == 'channel')
            ch['attrs']['units'] = txt
        elif where == 'name':
            sp['ops'].append({'op': 'zone', 'name': 'Z-' + txt, 'attrs': {'description': 'plain'}})
        elif where == 'ident-value':
            sp['ops'].append({'op': 'no_format', 'name': 'NF-NA', 'attrs': {'consumer_name': txt}})
        elif where == 'text':
            sp['ops'].append({'op': 'comment', 'name': 'CM-NA', 'attrs': {'text': ['ascii', txt]}})
        else:
            sp['ops'].append({'op': 'zone', 'name': 'Z-NA', 'set_name': 'SET-' + txt, 'attrs': {}})
        return sp
    if k == 'mixedkinds':
        sp = metagen.meta_spec(r, avoid=avoid, n_objects=r.choice([2, 5]), later_p=0.0)
        vals = r.choice([['NEAR', 'FAR', '10'], ['12', 'N/A'], [1, 'a'], ['a', 2.5, 'b'], ['7', '8.5', 'x'], [True, 'yes'], ['1e3', 4]])
        route = r.choice(['kw', 'later'])
        t, kw = r.choice([('axis', 'coordinates'), ('parameter', 'values'), ('parameter', 'values')])
        if route == 'kw':
            sp['ops'].append({'op': t, 'name': 'MIXED-KINDS', 'attrs': {kw: vals}})
        else:
            sp['ops'].append({'op': t, 'name': 'MIXED-KINDS', 'attrs': {}})
            sp['ops'].append({'op': 'assign', 'target': len(sp['ops']) - 1, 'target_op': t, 'kw': kw, 'part': 'value', 'value': vals})
        sp['ops'].append({'op': 'zone', 'name': 'AFTER-MIXED', 'attrs': {'description': 'an object written after it'}})
        return sp
    if k == 'foreign-ref':
        sp = gen.base_spec(r.choice([512, 8192]), lfs=[{'fh_id': 'LF-A'}, {'fh_id': 'LF-B'}])
        sp['write'] = {'output_chunk_size': 2 ** 16}
        ops = sp['ops']
        idx = {}
        for lf_, tag in ((0, 'A'), (1, 'B')):
            ops.append(gen.origin_op(f'ORIGIN-{tag}', lf=lf_, fsn=lf_ + 1)); ops[-1]['set_name'] = tag
            ops.append(gen.channel_op(f'CH-{tag}', '<f8', (3,), lf=lf_, fill={'kind': 'pos', 'tag': lf_})); ops[-1]['set_name'] = tag
            idx['ch' + tag] = len(ops) - 1
            ops.append(gen.frame_op(f'FR-{tag}', [len(ops) - 1], lf=lf_)); ops[-1]['set_name'] = tag
            same = r.random() < 0.5       # (same names in both files: a dangling reference would silently bind to the namesake)
            for t in ('zone', 'axis', 'no_format', 'equipment'):
                ops.append({'op': t, 'lf': lf_, 'name': (t.upper() if same else f'{t.upper()}-{tag}'), 'attrs': {}, 'set_name': tag})
                idx[t + tag] = len(ops) - 1
        what = r.choice(['parameter-zones', 'computation-axis', 'tool-parts', 'group', 'nf-data-foreign', 'nf-data-not-a-no-format', 'channel-axis'])
        if what == 'parameter-zones':
            ops.append({'op': 'parameter', 'lf': 0, 'name': 'P', 'set_name': 'A', 'attrs': {'zones': [{'$ref': idx['zoneB']}], 'values': [1.0]}})
        elif what == 'computation-axis':
            ops.append({'op': 'computation', 'lf': 0, 'name': 'C', 'set_name': 'A', 'attrs': {'axis': [{'$ref': idx['axisB']}]}})
        elif what == 'tool-parts':
            ops.append({'op': 'tool', 'lf': 0, 'name': 'T', 'set_name': 'A', 'attrs': {'parts': [{'$ref': idx['equipmentB']}], 'channels': [{'$ref': idx['chB']}]}})
        elif what == 'group':
            ops.append({'op': 'group', 'lf': 0, 'name': 'G', 'set_name': 'A', 'attrs': {'object_list': [{'$ref': idx['zoneB']}, {'$ref': idx['zoneA']}]}})
        elif what == 'channel-axis':
            ops.append({'op': 'assign', 'lf': 0, 'target': idx['chA'], 'target_op': 'channel', 'kw': 'axis', 'part': 'value', 'value': [{'$ref': idx['axisB']}]})
        elif what == 'nf-data-foreign':
            ops.append(gen.nf_data_op(idx['no_formatB'], b'payload for the other file', lf=0))
            ops.append(gen.nf_data_op(idx['no_formatA'], b'payload for this file', lf=0))
        else:
            ops.append(gen.nf_data_op(idx['chA'], b'payload under a channel', lf=0))
        case['foreign_what'] = what
        return sp
    if k == 'origin-zero':
        sp = gen.base_spec(r.choice([512, 8192]))
        sp['write'] = {'output_chunk_size': 2 ** 16}
        sp['ops'].append(gen.origin_op('DEFINING', fsn=1, origin_reference=r.choice([5, 1, 130])))
        sp['ops'].append(gen.channel_op('CH', '<f8', (3,), fill={'kind': 'pos', 'tag': 1}))
        sp['ops'].append(gen.frame_op('FR', [1]))
        sp['ops'].append(gen.origin_op('SECOND', fsn=2, origin_reference=0))
        zi = len(sp['ops'])
        for j, t in enumerate(r.sample(['zone', 'axis', 'equipment', 'comment', 'tool', 'long_name'], 3)):
            sp['ops'].append({'op': t, 'name': f'UNDER-ZERO-{j}', 'attrs': {}, 'origin_reference': 0})
        sp['ops'].append({'op': 'zone', 'name': 'UNDER-DEFAULT', 'attrs': {}})
        sp['ops'].append({'op': 'group', 'name': 'G', 'attrs': {'object_list': [{'$ref': zi}, {'$ref': zi + 1}]}, 'origin_reference': 0})
        return sp
    if k == 'across-types':
        sp = gen.minimal(r.choice([512, 8192]))
        sp['write'] = {'output_chunk_size': 2 ** 16}
        first = len(sp['ops'])
        types = r.sample(['tool', 'process', 'zone', 'equipment', 'axis', 'long_name', 'parameter'], r.choice([2, 3, 4]))
        for t in types:
            sp['ops'].append({'op': t, 'name': 'SHARED-NAME', 'attrs': ({'values': [1.5]} if t == 'parameter' else {})})
        tgt = first + r.randrange(len(types))
        sp['ops'].append({'op': 'computation', 'name': 'COMP', 'attrs': {'source': {'$ref': tgt}, 'values': [1.0]}})
        sp['ops'].append({'op': 'group', 'name': 'GRP', 'attrs': {'object_list': [{'$ref': first + j} for j in range(len(types))]}})
        ch = next(i for i, o in enumerate(sp['ops']) if o['op'] == 'channel')
        sp['ops'][ch]['attrs']['source'] = {'$ref': first + r.randrange(len(types))} if False else sp['ops'][ch]['attrs'].get('source')
        if sp['ops'][ch]['attrs'].get('source') is None:
            sp['ops'][ch]['attrs'].pop('source', None)
        return sp
    if k == 'same-named':
        n = case['n']
        sp = gen.minimal(r.choice([512, 8192]))
        sp['write'] = {'output_chunk_size': 2 ** 16}
        t = r.choice(['zone', 'zone', 'axis', 'long_name', 'no_format'])
        first = len(sp['ops'])
        for j in range(n):
            sp['ops'].append({'op': t, 'name': 'SAME', 'attrs': ({'description': f'copy {j}'} if t in ('zone', 'no_format') else {})})
        picks = sorted({0, min(127, n - 1), min(128, n - 1), n - 1, r.randrange(n)})
        sp['ops'].append({'op': 'group', 'name': 'G', 'attrs': {'object_list': [{'$ref': first + j} for j in picks]}})
        if t == 'zone':
            sp['ops'].append({'op': 'parameter', 'name': 'P', 'attrs': {'zones': [{'$ref': first + j} for j in picks], 'values': [float(j) for j in picks]}})
        elif t == 'axis':
            sp['ops'].append({'op': 'computation', 'name': 'C', 'attrs': {'axis': [{'$ref': first + j} for j in picks[:3]]}})
        elif t == 'no_format':
            for j in picks:
                sp['ops'].append(gen.nf_data_op(first + j, b'payload of copy %d' % j))
        return sp
    if k == 'header-origin':
        how = r.choice(['origin-reference-reassigned', 'header-reference-reassigned', 'header-shared', 'header-reference-chosen-first',
                        'header-reference-chosen-first'])
        case['how'] = how
        two = how == 'header-shared'
        sp = gen.base_spec(r.choice([512, 8192]), lfs=([{'fh_id': 'SHARED-HDR', 'as_object': r.random() < 0.5},
                                                        {'fh_id': 'SHARED-HDR', 'share_header_of': 0}] if two else [{}]))
        sp['write'] = {'output_chunk_size': 2 ** 16}
        for lf in range(2 if two else 1):
            sn = {'set_name': f'S{lf}'} if two else {}
            ref = r.choice([1, 5, 200, 20000]) + lf
            if how == 'header-reference-chosen-first':
                # the user points the header at the SECOND origin before any origin exists (or after both do)
                late = r.random() < 0.3
                chosen = ref + 40
                if not late:
                    sp['ops'].append({'op': 'set_header', 'lf': lf, 'field': 'origin_reference', 'value': chosen})
                sp['ops'].append(dict(gen.origin_op('ORIGIN-DEFINING', fsn=3, **({'origin_reference': ref} if r.random() < 0.5 else {})), lf=lf))
                if r.random() < 0.5:
                    # ... which lives in ANOTHER origin set than the defining origin (created first, so written first)
                    sp['ops'][-1]['set_name'] = 'MAIN-ORIGINS'
                    case['two_origin_sets'] = True
                sp['ops'].append(dict(gen.origin_op('ORIGIN-OTHER', fsn=4, origin_reference=chosen), lf=lf))
                if late:
                    sp['ops'].append({'op': 'set_header', 'lf': lf, 'field': 'origin_reference', 'value': chosen})
                ci = len(sp['ops'])
                sp['ops'].append(gen.channel_op('CH', '<f8', (3,), fill={'kind': 'pos', 'tag': 1}, lf=lf))
                sp['ops'].append(gen.frame_op('FR', [ci], lf=lf))
                continue
            oi = len(sp['ops'])
            sp['ops'].append(dict(gen.origin_op(f'ORIGIN-{lf}', fsn=3, **({'origin_reference': ref} if two or r.random() < 0.5 else {})), lf=lf, **sn))
            if how == 'origin-reference-reassigned':
                sp['ops'].append({'op': 'setattr', 'target': oi, 'field': 'origin_reference', 'value': ref + r.choice([1, 7, 300])})
            elif how == 'header-reference-reassigned':
                sp['ops'].append({'op': 'set_header', 'lf': lf, 'field': 'origin_reference', 'value': ref + r.choice([1, 7, 300])})
            ci = len(sp['ops'])
            sp['ops'].append(dict(gen.channel_op(f'CH{lf}', '<f8', (3,), fill={'kind': 'pos', 'tag': lf + 1}, lf=lf), **sn))
            sp['ops'].append(dict(gen.frame_op(f'FR{lf}', [ci], lf=lf), **sn))
            sp['ops'].append(dict({'op': 'zone', 'name': f'Z{lf}', 'attrs': {}, 'lf': lf}, **sn))
        return sp
    if k == 'blank-names':
        sp = gen.minimal(r.choice([512, 8192]))
        sp['write'] = {'output_chunk_size': 2 ** 16}
        t = r.choice(['zone', 'axis', 'long_name', 'no_format', 'tool', 'channel'])
        stem = r.choice(['RPM', 'Z1', 'x'])
        forms = r.sample([stem, stem + ' ', ' ' + stem, stem + '  ', ' ' + stem + ' '], r.choice([2, 3, 4]))
        if r.random() < 0.4:
            forms.append(forms[0])          # and a true repetition (copy number 1) among them
        made = []
        for nm in forms:
            ops = sp['ops']
            if t == 'channel':
                ops.append(gen.channel_op(nm, '<f4', (3,), fill={'kind': 'pos', 'tag': len(ops)}, dataset_name=f'ds-{len(ops)}'))
                ops.append(gen.frame_op(f'FR-{len(ops)}', [len(ops) - 1]))
                made.append(len(ops) - 2)
            else:
                ops.append({'op': t, 'name': nm, 'attrs': ({'description': f'object {len(ops)}'} if t in ('zone', 'no_format') else {})})
                made.append(len(ops) - 1)
                if t == 'no_format':
                    ops.append(gen.nf_data_op(len(ops) - 1, b'payload of object %d' % (len(ops) - 1)))
        if t != 'channel':
            sp['ops'].append({'op': 'group', 'name': 'G', 'attrs': {'object_list': [{'$ref': i} for i in made]}})
        if t == 'zone':
            sp['ops'].append({'op': 'parameter', 'name': 'P', 'attrs': {'zones': [{'$ref': i} for i in made], 'values': [float(i) for i in made]}})
        elif t == 'channel':
            sp['ops'].append({'op': 'tool', 'name': 'T', 'attrs': {'channels': [{'$ref': i} for i in made]}})
        return sp
    if k == 'rename-reuse':
        sp = gen.minimal(r.choice([512, 8192]))
        sp['write'] = {'output_chunk_size': 2 ** 16}
        t = r.choice(['zone', 'zone', 'axis', 'long_name', 'no_format', 'tool', 'channel', 'frame'])
        made = []

        def one(name):
            ops = sp['ops']
            if t == 'channel':
                ops.append(gen.channel_op(name, r.choice(['<f8', '<i2', '<u1']), (3,) if r.random() < 0.6 else (3, r.choice([2, 3])),
                                          fill={'kind': 'pos', 'tag': len(ops)}, dataset_name=f'ds-{len(ops)}'))
                ops.append(gen.frame_op(f'FR-{len(ops)}', [len(ops) - 1]))
                made.append(len(ops) - 2)
            elif t == 'frame':
                ops.append(gen.channel_op(f'CH-{len(ops)}', r.choice(['<f8', '<i2', '<u1']), (3,) if r.random() < 0.6 else (3, 2),
                                          fill={'kind': 'pos', 'tag': len(ops)}))
                ops.append(gen.frame_op(name, [len(ops) - 1]))
                made.append(len(ops) - 1)
            else:
                ops.append({'op': t, 'name': name, 'attrs': ({'description': f'object {len(ops)}'} if t in ('zone', 'no_format') else {})})
                made.append(len(ops) - 1)
                if t == 'no_format':
                    ops.append(gen.nf_data_op(len(ops) - 1, b'payload of object %d' % (len(ops) - 1)))
        for j in range(r.choice([1, 2, 2, 3, 4])):
            one('A')
        for _ in range(r.choice([1, 1, 2])):
            if len(made) < 1:
                break
            away = r.choice(made)
            fresh = f'FRESH-{away}'
            sp['ops'].append({'op': 'setattr', 'target': away, 'field': 'name', 'value': fresh})
            for j in range(r.choice([1, 2, 3])):
                one('A' if r.random() < 0.8 else fresh)
        if t not in ('channel', 'frame'):
            sp['ops'].append({'op': 'group', 'name': 'G', 'attrs': {'object_list': [{'$ref': i} for i in made]}})
        if t == 'zone':
            sp['ops'].append({'op': 'parameter', 'name': 'P', 'attrs': {'zones': [{'$ref': i} for i in made], 'values': [float(i) for i in made]}})
        elif t == 'channel':
            sp['ops'].append({'op': 'tool', 'name': 'T', 'attrs': {'channels': [{'$ref': i} for i in made]}})
        return sp
    if k == 'retry':
        from vf.checks import c20
        pool = ['zone', 'axis', 'long_name', 'equipment', 'tool', 'parameter', 'computation', 'comment', 'message', 'process',
                'calibration_coefficient', 'calibration_measurement', 'well_reference_point', 'path', 'splice', 'no_format', 'origin']
        ts = r.sample(pool, r.choice([1, 2, 3]))
        sp = metagen.meta_spec(r, avoid=avoid, n_objects=r.choice([0, 2, 4]), later_p=0.0,
                               types=[t for t in ['zone', 'axis', 'equipment', 'comment', 'long_name', 'group'] if t not in ts or r.random() < 0.3])
        for t in ts:
            refs = {}
            for i, o in enumerate(sp['ops']):
                if o['op'] in schema.TYPES:
                    refs.setdefault(o['op'], []).append(i)
            bad = None
            for rk in r.sample(['wrong-type', 'outside-enum', 'non-numeric', 'unknown-keyword', 'wrong-ref-class'], 5):
                bad = c20.bad_op(r, t, rk, refs, sp['ops'])
                if isinstance(bad, dict):
                    break
            if not isinstance(bad, dict):
                continue
            bad['lf'] = 0
            bad['expect'] = 'reject'
            if t == 'origin':
                bad['set_name'] = 'SET-OF-REJECTED'
            sn = bad.get('set_name')
            sp['ops'].append(bad)
            if t == 'origin' or r.random() < 0.3:
                # never repeated: the set the rejected call was going to fill stays empty
                case['never_retried'] = True
                continue
            for j in range(r.choice([1, 1, 2])):
                good = {'op': t, 'name': r.choice([bad['name'], f'RETRIED-{t}-{j}']), 'attrs': {}, 'lf': 0}
                if sn:
                    good['set_name'] = sn
                sp['ops'].append(good)
                gi = len(sp['ops']) - 1
                sp['ops'].append({'op': 'group', 'name': f'REFERS-TO-{t}-{j}', 'attrs': {'object_list': [{'$ref': gi}]}, 'lf': 0})
                if t == 'zone':
                    sp['ops'].append({'op': 'parameter', 'name': f'P-{j}', 'attrs': {'zones': [{'$ref': gi}], 'values': [1.5]}, 'lf': 0})
                elif t == 'axis':
                    sp['ops'].append({'op': 'computation', 'name': f'C-{j}', 'attrs': {'axis': [{'$ref': gi}]}, 'lf': 0})
                elif t == 'no_format':
                    sp['ops'].append(gen.nf_data_op(gi, b'payload after a rejected call'))
        return sp
    if k == 'setnames':
        sp = metagen.meta_spec(r, avoid=avoid, n_objects=r.choice([0, 3]), later_p=0.0)
        c = metagen.Ctx(r, sp, avoid=avoid)
        made = []
        for t in r.sample(['zone', 'equipment', 'long_name', 'comment', 'message', 'axis', 'well_reference_point', 'no_format'], 3):
            forms = r.sample(['', None, 'NAMED-A', 'NAMED-B'], r.choice([1, 2, 3, 4]))
            for j in range(r.choice([1, 2, 4])):
                i = metagen.make_object(c, t, p=0.3)
                op = sp['ops'][i]
                op['name'] = f'SN-{t}-{j}'
                op.pop('set_name', None)
                f = r.choice(forms)
                if f is not None:
                    op['set_name'] = f
                made.append(i)
        for i in r.sample(made, r.choice([0, 1, 2])):
            op = sp['ops'][i]
            sp['ops'].append({'op': 'rename_set', 'target': i, 'value': f'RENAMED-{op["op"]}-{op.get("set_name") or "UNNAMED"}'})
        return sp
    if k == 'inplace':
        from vf.checks import c14
        sp = c14.base_spec(r, avoid)
        chs = [i for i, o in enumerate(sp['ops']) if o['op'] == 'channel']
        sp['ops'].append({'op': 'comment', 'name': 'IP-COMMENT', 'attrs': {'text': ['one', 'two', 'three']}})
        sp['ops'].append({'op': 'axis', 'name': 'IP-AXIS', 'attrs': {'coordinates': [1.5, 2.5, 3.5]}})
        sp['ops'].append({'op': 'long_name', 'name': 'IP-LN', 'attrs': {'quantity': 'q', 'conditions': ['a', 'b'], 'entity_part': ['p']}})
        sp['ops'].append({'op': 'tool', 'name': 'IP-TOOL', 'attrs': {'channels': [{'$ref': c_} for c_ in chs[:2]]}})
        sp['ops'].append({'op': 'group', 'name': 'IP-GROUP', 'attrs': {'object_list': [{'$ref': c_} for c_ in chs[:3]]}})
        sp['ops'].append({'op': 'computation', 'name': 'IP-COMP', 'attrs': {'values': [1.0, 2.0, 3.0, 4.0]}})
        return sp
    if k == 'rewrite':
        from vf.checks import c14
        if PROP in ('C09', 'C04'):
            return metagen.meta_spec(r, avoid=avoid, n_objects=r.choice([0, 3]), lf_count=r.choice([1, 2]), later_p=0.0)
        return c14.base_spec(r, avoid)
    if k == 'graph':
        return metagen.meta_spec(r, avoid=avoid, n_objects=r.choice([6, 12, 25]), n_origins=r.choice([1, 2, 3, 4]),
                                 origin_pos=r.choice(['first', 'middle', 'last']),
                                 types=['zone', 'parameter', 'computation', 'tool', 'equipment', 'process', 'splice', 'path',
                                        'group', 'calibration', 'calibration_coefficient', 'calibration_measurement',
                                        'axis', 'long_name', 'well_reference_point'],
                                 lf_count=r.choice([1, 1, 2]))
    if k == 'origin-race':
        nlf = r.choice([2, 2, 3])
        sp = metagen.meta_spec(r, avoid=avoid, n_objects=r.choice([3, 6]), n_origins=2, origin_pos=r.choice(['middle', 'last']),
                               lf_count=nlf, later_p=0.0)
        explicit = any(isinstance(o.get('origin_reference'), int) or (o['op'] == 'origin' and 'origin_reference' in o.get('attrs', {}))
                       for o in sp['ops'])
        if not explicit:
            RA = r.choice([1, 5, 127, 200])
            for l in range(nlf):
                mine = [o for o in sp['ops'] if o['op'] == 'origin' and o.get('lf', 0) == l]
                if l < nlf - 1:
                    mine[0]['attrs']['origin_reference'] = RA + l      # the first origin of the files that get theirs early
                elif r.random() < 0.6:
                    mine[1]['attrs']['origin_reference'] = RA          # ... which the waiting file's SECOND origin carries too
        metagen.interleave(sp, r, origin_race=True)
        return sp
    if k == 'kf-c07-across-sets':
        sp = gen.minimal(8192)
        sp['ops'].append({'op': 'zone', 'name': 'Z', 'set_name': 'A', 'attrs': {'description': 'first'}})
        sp['ops'].append({'op': 'zone', 'name': 'Z', 'set_name': 'B', 'attrs': {'description': 'second'}})
        sp['ops'].append({'op': 'parameter', 'name': 'P', 'attrs': {'zones': [{'$ref': 3}], 'values': [1.5]}})
        sp['ops'].append({'op': 'group', 'name': 'G', 'attrs': {'object_list': [{'$ref': 4}]}})
        return sp
    if k == 'header':
        sp = metagen.meta_spec(r, avoid=avoid, n_objects=r.choice([0, 3]), lf_count=r.choice([1, 2, 3]))
        for l in sp['lfs']:
            n = r.choice([0, 1, 2, 30, 64, 65])
            l['fh_id'] = gen.name(r, '', n, hc=True) if n else ''
            l['fh_sequence_number'] = r.choice([1, 9, 10, 99, 12345, 10 ** 9, 10 ** 10 - 1])
            if r.random() < 0.4:
                l['fh_identifier'] = r.choice(['0', '1', 'A', 'Z', '_', ' '])
            if r.random() < 0.3:
                l['as_object'] = True
        return sp
    sp = gen.base_spec(r.choice([128, 8192]))
    c = metagen.Ctx(r, sp, avoid=avoid)
    c.add(gen.origin_op())
    # supporting objects that references can point to
    for t in ('axis', 'zone', 'long_name', 'equipment', 'parameter', 'computation', 'calibration_coefficient',
              'calibration_measurement', 'well_reference_point', 'group'):
        for _ in range(2):
            metagen.make_object(c, t, p=0.2)
    ch = []
    for j in range(3):
        ch.append(metagen.add_channel_with_data(c, 3, j + 1, forbid=[sp['ops'][x]['name'] for x in ch]))
    c.add(gen.frame_op('SUPPORT-FRAME', ch))
    t = case['type']
    if k == 'many':
        for j in range(case['n']):
            metagen.make_object(c, t, p=0.5)
        return sp
    mode = case['mode']
    table = schema.TYPES[t]['attrs']
    if t in ('origin', 'channel', 'frame'):
        for j in range(4):
            if t == 'origin':
                attrs = metagen.pick_attrs(c, 'origin', 1.0 if mode == 'all' else 0.5, exclude=('file_set_number', 'creation_time'))
                c.add(gen.origin_op(metagen.obj_name(c, 'origin', 0), fsn=gen.gen_int(r, 1, 2 ** 30 - 1), ctime=gen.gen_dt(r), **attrs))
            elif t == 'channel':
                i = metagen.add_channel_with_data(c, 3, 10 + j)
                extra = metagen.pick_attrs(c, 'channel', 1.0 if mode == 'all' else 0.5,
                                           exclude=('dimension', 'element_limit', 'axis'))
                if extra.get('source') == {'$ref': i} or (isinstance(extra.get('source'), dict) and
                                                          extra['source'].get('$setup', {}).get('value') == {'$ref': i}):
                    extra.pop('source')        # an object cannot be passed to its own constructor
                sp['ops'][i]['attrs'].update(extra)
                c.add(gen.frame_op(metagen.obj_name(c, 'frame', 0), [i]))
            else:
                i = metagen.add_channel_with_data(c, 3, 20 + j, index=True)
                attrs = metagen.pick_attrs(c, 'frame', 1.0 if mode == 'all' else 0.5, exclude=('channels',))
                if 'direction' in attrs:
                    attrs['direction'] = r.choice(['INCREASING', 'DECREASING'])
                c.add(gen.frame_op(metagen.obj_name(c, 'frame', 0), [i], **attrs))
        return sp
    if mode == 'single':
        for kw, lab, kind, multi in table:
            v = gen.gen_attr(r, t, kw, kind, multi, c.refs())      # (before the object exists: no self-reference)
            i = metagen.make_object(c, t, p=0.0)
            if v is not None:
                sp['ops'][i]['attrs'][kw] = v
                _repair(c, t, sp['ops'][i])
    elif mode == 'all':
        for _ in range(3):
            metagen.make_object(c, t, p=1.0)
    elif mode == 'sub':
        for _ in range(5):
            metagen.make_object(c, t, p=0.5)
    elif mode == 'none':
        for _ in range(3):
            metagen.make_object(c, t, p=0.0)
    elif mode == 'multi':
        for kw, lab, kind, multi in table:
            if not multi:
                continue
            for count in ([0, 1, 2, 127, 128, 200] if not avoid.get('empty_list') else [1, 2, 127, 128, 200]):
                if count == 0:
                    v = []
                else:
                    v = gen.gen_attr(r, t, kw, kind, multi, c.refs(), count=count, route='kw', units_p=0.0)
                    if v is None:
                        continue
                    if not isinstance(v, (list, dict)):
                        v = [v]
                i = metagen.make_object(c, t, p=0.0)
                sp['ops'][i]['attrs'][kw] = v
                _repair(c, t, sp['ops'][i])
    return sp


def _repair(c, t, op):
    """keep single-attribute objects inside the documented cross-attribute constraints."""
    a = op['attrs']
    if t == 'parameter' and 'values' in a and 'zones' not in a:
        from vf.metagen import as_list, _value_of, _wrap_like
        v = as_list(_value_of(a['values']))
        if len(v) > 1:
            a['values'] = _wrap_like(a['values'], v[:1])
    if t == 'zone' and 'domain' in a:
        pass
    if t == 'calibration_measurement':
        a.pop('dimension', None)
        a.pop('axis', None)
    if t in ('computation', 'parameter'):
        a.pop('dimension', None)
        a.pop('axis', None)


def mult_class(a):
    if a.absent or a.omitted:
        return 'absent'
    if a.values is None:
        return 'novalue'
    n = len(a.values)
    return '1' if n == 1 else '2-127' if n < 128 else '128+'


def run_case(case, PROP):
    from vf import harness, oracle, contracts
    seed = case.get('seed', 0)
    r = gen.rng(seed, PROP, case['stratum'], case['index'])
    sp = build_spec(case, PROP, r)
    obs, sigs = {}, set()

    def bump(k, n=1):
        obs[k] = obs.get(k, 0) + n

    later_ops = None
    if case['kind'] == 'inplace':
        from vf import expect as E
        cands = []
        for i, o in enumerate(sp['ops']):
            if o['op'] not in schema.TYPES or o['op'] == 'frame':
                continue
            table = schema.attr_table(o['op'])
            for kw, v in o.get('attrs', {}).items():
                if kw not in table or not table[kw][2]:
                    continue
                val = E.interpret(o['op'], kw, v)[0]
                if isinstance(val, list) and val and not any(isinstance(x, list) for x in val):
                    cands.append((i, o['op'], kw, len(val)))
        later_ops = []
        for i, t, kw, n in r.sample(cands, min(len(cands), r.choice([1, 2, 3]))):
            how = r.choice(['pop', 'dup', 'clear', 'pop']) if n > 1 else r.choice(['dup', 'clear', 'pop'])
            later_ops.append({'op': 'inplace', 'target': i, 'target_op': t, 'kw': kw, 'how': how})
            bump('inplace-' + how)
        bump('inplace-edit-then-rewrite')
    if case['kind'] == 'rewrite':
        from vf.checks import c14
        later_ops = []
        ops_now = list(sp['ops'])
        if PROP == 'C05':
            for _ in range(r.choice([0, 1, 2, 3])):     # 0: plain second write, nothing re-assigned
                ph = c14.make_phase(r, r.choice(['assign-other-kind', 'assign-other-kind', 'assign-value', 'assign-units',
                                                'change-channel-units', 'clear-channel-units', 'assign-derived-attr']), ops_now, sp, {})
                later_ops.extend(ph['ops'])
                ops_now.extend(ph['ops'])
            bump('reassign-after-write')
            if not later_ops:
                bump('plain-second-write')
        elif PROP == 'C07':
            origins = [i for i, o in enumerate(ops_now) if o['op'] == 'origin']
            objs_ = [(i, o) for i, o in enumerate(ops_now) if o['op'] in schema.TYPES and o['op'] != 'origin']
            # prefer objects that something refers to
            referred = set()
            def walk(v):
                if isinstance(v, dict):
                    if '$ref' in v:
                        referred.add(v['$ref'])
                    for x in v.values():
                        walk(x)
                elif isinstance(v, list):
                    for x in v:
                        walk(x)
            for _, o in objs_:
                walk(o.get('attrs', {}))
            pool = [i for i, o in objs_ if i in referred and o['op'] != 'channel'] or [i for i, o in objs_ if o['op'] not in ('channel', 'frame')]
            for _ in range(r.choice([1, 2, 3])):
                i = r.choice(pool)
                if len(origins) >= 2 and r.random() < 0.5:
                    later_ops.append({'op': 'setattr', 'target': i, 'field': 'origin_reference', 'value': {'$origin_of': r.choice(origins)}})
                    bump('rewrite-origin-changed')
                else:
                    later_ops.append({'op': 'setattr', 'target': i, 'field': 'name', 'value': f'RENAMED-{i}-{len(later_ops)}'})
                    bump('rewrite-renamed')
            bump('identity-change-then-rewrite')
        elif PROP in ('C09', 'C04'):
            for l in range(len(sp.get('lfs', [{}]))):
                if r.random() < 0.7:
                    n_ = r.choice([8, 30, 65, 65, 66, 100])
                    if n_ > 65:
                        bump('header-id-reassigned-longer-than-its-field')
                    later_ops.append({'op': 'set_header', 'lf': l, 'field': 'header_id', 'value': gen.name(r, f'NEWHDR{l}', n_, hc=True)})
                if r.random() < 0.7:
                    later_ops.append({'op': 'set_header', 'lf': l, 'field': 'sequence_number', 'value': r.choice([2, 77, 10 ** 10 - 1])})
            bump('header-change-then-rewrite')
    contracts.attach_codec()
    contracts.drain()
    # naive date-times mean local time of the process: vary the zone (POSIX TZ strings, no tzdata needed)
    import os
    import time
    tz = r.choice(['UTC', 'UTC', 'IST-5:30', 'EST5EDT,M3.2.0,M11.1.0', 'NZST-12NZDT,M9.5.0,M4.1.0/3'])
    old_tz = os.environ.get('TZ')
    os.environ['TZ'] = tz
    time.tzset()
    bump('tz-' + tz.split(',')[0])
    try:
        run = harness.execute(sp, want_taps=False)
        if later_ops is not None and run.data is not None:
            # second write of the same DLISFile after the re-assignments; the oracle then judges the SECOND file against
            # the specification in its current state (base ops + later assignments, applied in order)
            from vf import spec as S
            b = run.built
            for op in later_ops:
                i = len(sp['ops'])
                sp['ops'].append(op)
                try:
                    S.run_op(b, i, op, 'inline')
                    b.outcomes.append(('ok',))
                except S.HarnessError:
                    raise
                except Exception as e:   # noqa
                    b.outcomes.append(('exc', type(e).__name__, str(e)[:200]))
            path = harness.fresh_path()
            wout = S.do_write(sp, b, path, harness.scratch_dir())
            data = open(path, 'rb').read() if wout[0] == 'ok' else None
            run = oracle.Run(sp, b, wout, data, None, None, [])
        if run.data is not None:
            oracle.ensure_expected(run)     # expected instants are computed under the same zone
    finally:
        if old_tz is None:
            os.environ.pop('TZ', None)
        else:
            os.environ['TZ'] = old_tz
        time.tzset()
    rejected = [(sp['ops'][i]['op'], o[1], o[2][:60]) for i, o in enumerate(run.built.outcomes) if o[0] != 'ok'] \
        if run.built and run.built.error is None else []
    for rj in rejected:
        bump('op-rejected:%s:%s:%s' % rj)
    for op in sp['ops']:
        if op.get('valueless_file_set_number') and run.data is not None:
            bump('origin-file-set-number-left-to-library')
        if op.get('valueless_creation_time') and run.data is not None:
            bump('origin-creation-time-left-to-library')
    if case['kind'] == 'retry' and rejected and run.data is not None:
        bump('retried-after-rejected-call')
        if case.get('never_retried'):
            bump('rejected-call-never-repeated')
    if run.data is not None:
        n_sa = sum(1 for i, o in enumerate(sp['ops']) if o.get('via') == 'set_attributes' and i < len(run.built.outcomes) and run.built.outcomes[i][0] == 'ok')
        if n_sa:
            bump('route-later-set_attributes', n_sa)
    if run.data is not None and any(l.get('as_object') for l in sp.get('lfs', [])):
        bump('file-header-given-as-object')
    if run.data is not None and any(l.get('fh_identifier') not in (None, '0') for l in sp.get('lfs', [])):
        bump('file-header-identifier-chosen')
    if case['kind'] == 'foreign-ref':
        bump('object-of-another-logical-file')
        bump('foreign:' + case.get('foreign_what', '?') + (':written' if run.data is not None else ':refused'))
    if case['kind'] == 'header-origin':
        bump('header-origin-field:' + case['how'] + (':written' if run.data is not None else ':refused'))
    if case['kind'] == 'blank-names' and run.data is not None:
        bump('names-differing-in-blanks')
    if case['kind'] == 'rename-reuse' and run.data is not None:
        bump('rename-away-then-reuse-name')
    if case['kind'] == 'across-types' and run.data is not None:
        bump('same-name-across-types')
    if case['kind'] == 'same-named' and run.data is not None:
        bump('copy-number>=128' if case['n'] > 128 else 'many-same-named-small')
    if case['kind'] == 'setnames' and run.data is not None:
        if any(o.get('set_name') == '' for o in sp['ops']):
            bump('empty-set-name')
        if any(o['op'] == 'rename_set' for o in sp['ops']):
            bump('set-renamed-after-creation')
    if run.data is None:
        bump('write-raised:%s:%s' % (run.wout[1], run.wout[2][:60]))
        return {'evals': 0, 'violations': [], 'obs': obs, 'sigs': [], 'sample': None}
    bump('files-written')
    oracle.decode(run)
    if PROP == 'C04':
        oracle.check_c04(run)
    elif PROP == 'C05':
        oracle.check_c05(run)
    elif PROP == 'C07':
        oracle.check_c07(run)
    elif PROP == 'C09':
        oracle.check_c09(run)
    for k_, v in run.obs.items():
        bump(k_, v)
    evals = 0
    if run.lfs is not None:
        if PROP == 'C04':
            for dl in run.lfs:
                for s in dl.sets:
                    evals += 1
                    cls = sorted({mult_class(a) for o in s.objects for a in o.attrs.values()})
                    units = any(a.units for o in s.objects for a in o.attrs.values())
                    nobj = len(s.objects)
                    if any(not (a.absent or a.omitted) for o in s.objects for a in o.attrs.values()):
                        sigs.add(f'{s.type}:{s.name is not None}:{cls}:{units}:{"1" if nobj == 1 else "few" if nobj < 20 else "many"}')
        elif PROP == 'C05':
            oracle.ensure_expected(run)
            for el in run.exp:
                for eo in el.objects:
                    evals += 1
                    ass = sorted((lab, a.kind, a.route, a.units_assigned) for lab, a in eo.attrs.items() if a.assigned)
                    if ass:
                        sigs.add(f'{eo.op}:{ass}'[:300])
                    for lab, a in eo.attrs.items():
                        if a.assigned:
                            bump(f'assigned:{eo.op}:{lab}')
        elif PROP == 'C07':
            for li, dl in enumerate(run.lfs):
                evals += 1
                nref = sum(1 for s in dl.sets for o in s.objects for a in o.attrs.values() if a.values and a.code in (23, 24))
                names = [(s.type, o.name[2]) for s in dl.sets for o in s.objects]
                rep = len(names) - len(set(names))
                norg = sum(len(s.objects) for s in dl.sets if s.type == 'ORIGIN')
                if nref and (rep or norg >= 2):
                    order = tuple(o['op'] for o in sp['ops'] if o.get('lf', 0) == li and o['op'] in schema.TYPES)
                    sigs.add(f'{min(nref, 20)}:{rep}:{norg}:{hash(order) % 100000}')
                if rep:
                    bump('repeated-names')
        elif PROP == 'C09':
            for li, dl in enumerate(run.lfs):
                evals += 1
                ops = [o['op'] for o in sp['ops'] if o.get('lf', 0) == li and o['op'] in schema.TYPES]
                opos = ops.index('origin') if 'origin' in ops else -1
                first_of_type = []
                for o in ops:
                    if o not in first_of_type:
                        first_of_type.append(o)
                if opos != 0 or len(run.lfs) > 1 or any(s.name for s in dl.sets):
                    sigs.add(f'{opos == 0}:{opos == len(ops) - 1}:{len(run.lfs)}:{tuple(first_of_type)}'[:300])
                if opos == len(ops) - 1 and len(ops) > 1:
                    bump('c09-origin-last')
                if opos > 0:
                    bump('c09-origin-not-first')
                if len(run.lfs) > 1:
                    bump('c09-multi-lf')
    vio = [v.as_dict() for v in run.by_prop(PROP)]
    if PROP != 'C04' and run.stage_error is not None and not vio:
        # nothing can be "present in the file" / "resolve" / "be in order" in a file that does not decode
        e_ = run.stage_error[1]
        vio.append({'prop': PROP, 'kind': 'file-undecodable', 'mech': 'undecodable:' + getattr(e_, 'kind', type(e_).__name__),
                    'detail': f'the written file does not decode: {e_}'})
        evals = max(evals, 1)
    if PROP == 'C04' and run.stage_error and run.stage_error[0] == 'semantic':
        evals = max(evals, 1)
    bump('codec-contract-evals', sum(v for kk, v in contracts.EVALS.items() if kk.startswith('codec:')))
    contracts.EVALS.clear()
    contracts.drain()
    sample = {'kind': case['kind'], 'case': {a: b for a, b in case.items() if a != 'seed'},
              'ops': [(o['op'], str(o.get('name'))[:24], sorted(o.get('attrs', {}))[:6]) for o in sp['ops'][:10]]}
    return {'evals': evals, 'violations': vio, 'obs': obs, 'sigs': sorted(sigs), 'sample': sample}
