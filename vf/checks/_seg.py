"""Shared segmentation workload for C01 / C02 (same executions, different clauses reported)."""
from __future__ import annotations
from vf import gen


def window_lengths(mx):
    cap = mx - 8
    out = set()
    for k in range(0, 5):
        for d in range(-14, 15):
            L = k * cap + d
            if L >= 4:
                out.add(L)
    return sorted(out)


def cases(tier, seed, PROP='C01'):
    mxs = [20, 22, 30, 32, 34, 36, 40, 64, 126, 128, 8192, 16384] if tier == 'quick' else \
        sorted(set(list(range(20, 162, 2)) + [254, 256, 510, 512, 1024, 4096, 8192, 16382, 16384]))
    idx = 0
    for mx in mxs:
        L = window_lengths(mx)
        # split so that each case is one file of <= 40 records
        for j in range(0, len(L), 40):
            yield {'stratum': 'window', 'index': idx, 'mx': mx, 'lengths': L[j:j + 40], 'kind': 'writer'}
            idx += 1
    n_rand = 150 if tier == 'quick' else 4000
    for i in range(n_rand):
        yield {'stratum': 'random-writer', 'index': i, 'kind': 'writer-random'}
    n_e2e = 120 if tier == 'quick' else 2500
    for i in range(n_e2e):
        yield {'stratum': 'e2e', 'index': i, 'kind': 'e2e'}
    for i in range(40 if tier == 'quick' else 400):
        yield {'stratum': 'sul', 'index': i, 'kind': 'sul'}
    # output buffers far larger than anything the other strata fill (tens of MiB accumulated before one flush)
    for i, (ocs, total_mib) in enumerate([(2 ** 25, 19)] if tier == 'quick' else [(2 ** 25, 19), (2 ** 25 + 7, 40), (2 ** 24, 17), (2 ** 26, 33)]):
        yield {'stratum': 'large-output-buffer', 'index': i, 'kind': 'big-buffer', 'ocs': ocs, 'mib': total_mib}
    # the label as an object of the user's own, and label fields re-assigned between two writes of one DLISFile
    for i in range(40 if tier == 'quick' else 600):
        yield {'stratum': 'label-object-and-rewrite', 'index': i, 'kind': 'label'}


def _records_for(lengths, mx):
    recs = []
    for n, L in enumerate(lengths):
        body = bytes(((i * 11 + n * 5 + 3) & 0xFF) for i in range(L))
        # alternate record classes; bodies ending in 0x01/0x00 so that pad bytes cannot hide
        if n % 3 == 0:
            body = body[:-1] + b'\x01'
        recs.append((n % 2 == 0, (n % 6) if n % 2 == 0 else (n % 2), body))
    return recs


def run_case(case, PROP='C01'):
    from vf import harness, oracle, contracts
    contracts.attach()
    contracts.drain()
    seed = case.get('seed', 0)
    obs, sigs, vio = {}, [], []
    if case['kind'] == 'writer':
        mx = case['mx']
        run = harness.write_records(mx, _records_for(case['lengths'], mx), output_chunk_size=max(mx, 4096))
        lengths = case['lengths']
    elif case['kind'] == 'writer-random':
        r = gen.rng(seed, PROP, case['stratum'], case['index'])
        mx = r.choice([20, 22, 24, 28, 30, 32, 38, 50, 64, 100, 128, 200, 256, 510, 512, 1022, 1024, 2048, 4096, 8192, 16382, 16384]
                      + [2 * r.randint(10, 256)])
        cap = mx - 8
        n = r.randint(1, 40)
        lengths = []
        for _ in range(n):
            c = r.random()
            if c < 0.5:
                L = r.randint(0, 4) * cap + r.randint(-14, 14)
            elif c < 0.8:
                L = r.randint(4, 3 * cap)
            else:
                L = r.randint(4, 40)
            lengths.append(max(4, L))
        ocs = r.choice([mx, mx + 1, mx + 2, 2 * mx - 1, 2 * mx, 3 * mx + 7, 2 ** 16, 2 ** 20])
        run = harness.write_records(mx, _records_for(lengths, mx), output_chunk_size=ocs,
                                    set_identifier=gen.name(r, 'SET', r.choice([3, 10, 59, 60])),
                                    seq=r.choice([1, 2, 9, 10, 99, 100, 999, 1000, 9999, '3', '42']))
    elif case['kind'] == 'big-buffer':
        r = gen.rng(seed, PROP, case['stratum'], case['index'])
        mx = r.choice([8192, 16384])
        lengths = [2 ** 20 - r.randrange(0, 40) for _ in range(case['mib'])] + [100, 13]
        blob = bytes(range(256)) * 4096      # 1 MiB
        recs = [(n % 2 == 0, (n % 6) if n % 2 == 0 else (n % 2), bytes([n]) + blob[1:L - 1] + b'\x01') for n, L in enumerate(lengths)]
        run = harness.write_records(mx, recs, output_chunk_size=case['ocs'])
        obs['large-output-buffer'] = 1
        if run.data is not None and len(run.data) > 2 ** 24:
            obs['file-larger-than-16MiB-in-one-buffer'] = 1
    elif case['kind'] == 'e2e':
        r = gen.rng(seed, PROP, case['stratum'], case['index'])
        mx = r.choice([20, 24, 32, 40, 64, 100, 128, 256, 512, 1024, 8192, 16384])
        cap = mx - 8
        hc_write = r.random() < 0.3      # the write itself happens inside the high-compatibility context
        sp = gen.minimal(mx, rows=r.randint(1, 6),
                         dtype=gen.dtstr(r.choice(['float32', 'float64', 'uint8', 'uint16', 'uint32'] if hc_write else gen.DTYPES), r.choice('<>')),
                         width=r.choice([None, 1, 3, cap // 4 + 1, cap + 3]) )
        sp['ops'][1]['name'] = 'C' * r.choice([1, 2, 3, 10])
        k = len(sp['ops'])
        sp['ops'].append(gen.nf_op('NF' + 'x' * r.randint(0, 6)))
        for j in range(r.randint(0, 8)):
            n = max(0, r.choice([r.randint(0, 4) * cap + r.randint(-14, 14), r.randint(0, 60)]))
            sp['ops'].append(gen.nf_data_op(k, gen.payload_bytes(r, n, j, r.choice([None, b'\x01', b'\x00\x01']))))
        # many objects in one set -> multi-segment EFLR
        for j in range(r.choice([0, 0, 5, 40])):
            sp['ops'].append({'op': 'zone', 'name': f'Z{j}', 'attrs': {'description': gen.ascii_text(r, 20)}})
        if r.random() < 0.3:
            # a call the library rejects, never repeated: whatever it leaves behind (a set without objects) must not become a
            # record that is handed to the writer and then vanishes
            t_, bad_ = r.choice([('equipment', {'status': 7}), ('axis', {'spacing': 'x'}), ('tool', {'status': 9}), ('comment', {'text': 5})])
            sp['ops'].append({'op': t_, 'name': 'REJECTED', 'attrs': bad_, 'expect': 'reject'})
            obs['e2e-after-rejected-call'] = 1
        sp['write'] = {'output_chunk_size': r.choice([mx, 2 * mx, 2 ** 16]),
                       'input_chunk_size': r.choice([None, 1, 2, 100])}
        if hc_write:
            sp['write']['hc'] = True
        run = harness.execute(sp)
        if hc_write and run.data is not None:
            obs['e2e-written-in-hc-context'] = 1
        lengths = [len(e[2]) for e in (run.lr_events or [])]
        obs['e2e-file'] = 1 if run.data is not None else 0
    elif case['kind'] == 'label':
        r = gen.rng(seed, PROP, case['stratum'], case['index'])
        mx = r.choice([64, 128, 256, 1000, 4096, 8192, 16384])
        cap = mx - 8
        sp = gen.minimal(mx, rows=r.randint(1, 4), dtype='<f4', width=r.choice([None, 3, cap // 4 + 3]))
        sp['sul']['as_object'] = r.random() < 0.6
        sp['sul']['set_identifier'] = gen.name(r, 'LBL', r.choice([3, 20, 60]), hc=True)
        k = len(sp['ops'])
        sp['ops'].append(gen.nf_op('NF'))
        for j in range(r.randint(1, 4)):
            sp['ops'].append(gen.nf_data_op(k, gen.payload_bytes(r, r.choice([5, cap - 3, cap + 5, 2 * cap + 1, 3 * 8192 + 7]), j)))
        sp['write'] = {'output_chunk_size': 2 ** 16}
        run = harness.execute(sp)
        obs['label-as-object'] = 1 if sp['sul']['as_object'] else 0
        if run.data is not None and r.random() < 0.6:
            # re-assign the label's maximum record length (and maybe its identifier) and write the same DLISFile again
            mx2 = r.choice([m for m in (64, 128, 256, 1000, 4096, 8192, 16384) if m != mx])
            later = [{'op': 'set_sul', 'field': 'max_record_length', 'value': mx2}]
            if r.random() < 0.5:
                later.append({'op': 'set_sul', 'field': 'set_identifier', 'value': gen.name(r, 'NEW', 12, hc=True)})
            first = run
            run = harness.rewrite(first, later)
            obs['label-reassigned-rewrite'] = 1
            mx = mx2
        lengths = [len(e[2]) for e in (run.lr_events or [])]
        obs['e2e-file'] = 1 if run.data is not None else 0
    else:   # sul
        r = gen.rng(seed, PROP, case['stratum'], case['index'])
        mx = r.choice([32, 128, 8192, 16384])
        idl = r.choice([0, 1, 2, 30, 59, 60, 61, 80])
        ident = gen.name(r, '', idl) if idl else ''
        seqn = r.choice([1, 5, 10, 99, 100, 999, 1000, 9999, 10000, 12345, '7', '12', '345', '0345', '9999'])   # (text of a positive integer is accepted)
        if isinstance(seqn, str):
            obs['sul-sequence-number-as-text'] = 1
        run = harness.write_records(mx, _records_for([20, 31, 12], mx), set_identifier=ident, seq=seqn)
        lengths = [20, 31, 12]
        if run.data is None:
            obs['sul-rejected'] = 1
            if idl <= 60 and int(seqn) <= 9999:
                obs['sul-valid-rejected'] = 1
        else:
            obs['sul-accepted'] = 1
    if run.data is None:
        obs['write-raised'] = obs.get('write-raised', 0) + 1
        obs['raised:%s:%s' % (run.wout[1], run.wout[2][:60])] = 1
        return {'evals': 1, 'violations': [], 'obs': obs, 'sigs': [], 'sample': None}
    if getattr(run, 'prior_kind', None):
        obs['target-path-was-occupied:' + run.prior_kind] = 1
        obs['target-path-was-occupied'] = 1
    oracle.check_c01(run)
    oracle.check_c02(run)      # tap comparison feeds the pad-count clause; only C01 violations are reported here
    cap = mx - 8
    res = sorted({(L % cap if L % cap <= 14 else (L % cap) - cap if cap - L % cap <= 14 else None) for L in lengths},
                 key=lambda x: (x is None, x))
    nontrivial = any(x is not None for x in res) or run.obs.get('segment-padded', 0) > 0
    if nontrivial:
        sigs.append(f'{mx}:{res}')
    for k, v in run.obs.items():
        obs[k] = obs.get(k, 0) + v
    vio = [v.as_dict() for v in run.by_prop(PROP)]
    vio += [v for v in contracts.drain() if v['prop'] == PROP]
    obs['contract-evals-make_segment'] = contracts.EVALS['make_segment']
    obs['contract-evals-make_segments'] = contracts.EVALS['make_segments']
    obs['contract-evals-vr'] = contracts.EVALS['_make_visible_record']
    contracts.EVALS.clear()
    evals = 1
    if PROP == 'C02':
        evals = run.obs.get('tap-compared', 0)
        sigs = []
        for ev, rec in zip(run.lr_events or [], run.records or []):
            if len(rec.segments) > 1 or any(s.pad for s in rec.segments):
                sigs.append(f'{ev[3]}:{len(ev[2])}:{int(ev[0])}:{ev[1][0]}')
    sample = {'kind': case['kind'], 'max_record_length': mx, 'body_lengths': lengths[:12],
              'file_size': len(run.data), 'visible_records': run.obs.get('vr', 0)}
    return {'evals': evals, 'violations': vio, 'obs': obs, 'sigs': sigs, 'sample': sample}
