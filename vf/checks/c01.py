"""C01 -- physical layout (DESIGN.md section 5, C01)."""
from __future__ import annotations
from vf import gen

PROP = 'C01'
META = {
    'level': 'exploration',
    'rule': ('one evaluation = one written file parsed by the strict physical layer; signature = (record length, '
             'sorted set of body-length residues relative to the segment capacity); non-trivial when at least one '
             'record body lies within 14 bytes of a capacity multiple or a segment is padded'),
    'required_obs': {
        'quick': ['segment-padded', 'segment-pad-gt1', 'segcount-1', 'segcount-2', 'segcount-3', 'nonlast-shortened', 'segment-body-12',
                  'vr-at-maximum', 'eflr-continuation', 'tap-compared', 'e2e-file', 'label-as-object', 'label-reassigned-rewrite',
                  'target-path-was-occupied:junk-longer', 'target-path-was-occupied:earlier-dlis-larger-records', 'file-larger-than-16MiB-in-one-buffer'],
    },
    'exhaustive_windows': {
        'quick': ['record lengths 20,22,30,32,34,36,40,64,126,128,8192,16384 x body lengths k*cap+d, k in 0..4, d in -14..14 (>= 4)'],
        'thorough': ['every even record length 20..160 x body lengths k*cap+d, k in 0..4, d in -14..14 (>= 4)'],
    },
    'assumptions': ['strict reader vf/rp66.py implements RP66 V1 chapter 2 correctly (validated by selftest/reader)'],
}
META['required_obs']['thorough'] = META['required_obs']['quick']


from vf.checks import _seg


def cases(tier, seed):
    return _seg.cases(tier, seed, PROP)


def run_case(case):
    return _seg.run_case(case, PROP)
