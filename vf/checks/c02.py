"""C02 -- segmentation lossless, ordered, correctly bracketed (DESIGN.md section 5, C02)."""
from __future__ import annotations
from vf.checks import _seg

PROP = 'C02'
META = {
    'level': 'exploration',
    'rule': ('one evaluation = one logical record whose body as handed to the segmenter (lr-tap) is compared with its '
             'reassembly from the output file; signature = (capacity, body length, explicit flag, record type); '
             'non-trivial when the record has >= 2 segments or a padded segment'),
    'required_obs': {
        'quick': ['tap-compared', 'segcount-1', 'segcount-2', 'segcount-3', 'segcount-4+', 'nonlast-shortened',
                  'nonlast-padded', 'eflr-continuation', 'contract-evals-make_segment', 'contract-evals-make_segments', 'e2e-written-in-hc-context', 'e2e-after-rejected-call', 'file-larger-than-16MiB-in-one-buffer'],
    },
    'exhaustive_windows': {
        'quick': ['record lengths 20,22,30,32,34,36,40,64,126,128,8192,16384 x body lengths k*cap+d, k in 0..4, d in -14..14 (>= 4)'],
        'thorough': ['every even record length 20..160 x body lengths k*cap+d, k in 0..4, d in -14..14 (>= 4)'],
    },
    'assumptions': ['the lr-tap reports the body exactly as handed to LogicalRecordBytes.make_segments',
                    'strict reader vf/rp66.py reassembles per RP66 V1 2.2.2'],
    'technique': ('runtime monitoring: lr-tap event log vs. independent reassembly of the output file, plus recording '
                  'contracts on make_segment/make_segments'),
}
META['required_obs']['thorough'] = META['required_obs']['quick']


def cases(tier, seed):
    return _seg.cases(tier, seed, PROP)


def run_case(case):
    return _seg.run_case(case, PROP)
