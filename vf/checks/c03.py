"""C03 -- channel data round-trips bit-exactly, one numbered record per row (DESIGN.md section 5, C03)."""
from __future__ import annotations
from vf import gen

PROP = 'C03'
META = {
    'level': 'exploration',
    'rule': ('one evaluation = one frame whose FDATA records are decoded with the file\'s own channel descriptors and '
             'compared slot by slot with the big-endian image of the input arrays (pure byte manipulation); signature = '
             '(set of (dtype+order, layout, ndim, fill kind, cast), source kind, chunk relation, rows, window); '
             'non-trivial when any channel is big-endian, non-contiguous, 2-D, filled with special/random bit '
             'patterns, or the write is multi-chunk'),
    'required_obs': {'quick': ['rows-compared', 'frame-checked', 'row-multi-segment', 'c03-multi-chunk-remainder',
                               'c03-be-2d', 'c03-be-scalar', 'c03-le-2d', 'c03-special', 'c03-rand', 'c03-cast',
                               'c03-src-inline', 'c03-src-dict', 'c03-src-struct', 'c03-src-hdf5', 'c03-struct-fastpath',
                               'c03-struct-permuted', 'c03-struct-aligned', 'c03-struct-view', 'c03-struct-packed', 'c03-cast-history',
                               'c03-cast-declared-equal-to-derived', 'c03-many-rows', 'c03-int-cast-out-of-range', 'c03-several-logical-files',
                               'c03-int-cast-hdf5', 'c03-int-cast-dict', 'c03-row-size-window']
                     + ['c03-dtype-' + d for d in gen.DTYPES]},
    'exhaustive_windows': {
        'quick': ['8 dtypes x byte order {<,>} x shape {(N,),(N,1),(N,3)} x layout {C,F,strided,view,readonly} x fill special (N=5, inline)'],
        'thorough': ['8 dtypes x byte order {<,>,=} x shape {(N,),(N,1),(N,3),(N,>capacity)} x 5 layouts x fills {special, rand} x 4 sources x N in {1,2,7}'],
    },
    'assumptions': ['numpy.astype defines the meaning of a declared cast (values are kept representable in the target)',
                    'expected slot bytes are computed by byte reversal of ndarray.tobytes(), not by numpy conversion'],
}
META['required_obs']['thorough'] = META['required_obs']['quick']


def cases(tier, seed):
    i = 0
    orders = '<>' if tier == 'quick' else '<>='
    shapes = ['s', 'w1', 'w3'] if tier == 'quick' else ['s', 'w1', 'w3', 'wbig']
    fills = ['special'] if tier == 'quick' else ['special', 'rand']
    sources = ['inline'] if tier == 'quick' else ['inline', 'dict', 'struct', 'hdf5']
    Ns = [5] if tier == 'quick' else [1, 2, 7]
    for dt in gen.DTYPES:
        for order in orders:
            for sh in shapes:
                for src in sources:
                    yield {'stratum': 'matrix', 'index': i, 'kind': 'matrix', 'dtype': dt, 'order': order, 'shape': sh,
                           'fills': fills, 'source': src, 'Ns': Ns}
                    i += 1
    for k in range(500 if tier == 'quick' else 12000):
        yield {'stratum': 'random', 'index': k, 'kind': 'random'}
    for k in range(100 if tier == 'quick' else 2000):
        yield {'stratum': 'random-cast', 'index': k, 'kind': 'random-cast'}
    for k in range(120 if tier == 'quick' else 3000):
        yield {'stratum': 'struct-fastpath', 'index': k, 'kind': 'fastpath'}
    # row sizes around multiples of the segment capacity (every leftover 0..15 after 1, 2, 3 full segments)
    for k, mx in enumerate([64, 128] if tier == 'quick' else [32, 64, 100, 128, 256]):
        yield {'stratum': 'row-size-window', 'index': k, 'kind': 'row-window', 'mx': mx}
    # integer -> integer casts of values outside the target's range, every kind of source
    for k in range(80 if tier == 'quick' else 2000):
        yield {'stratum': 'int-cast-out-of-range', 'index': k, 'kind': 'int-cast'}
    # many rows: frame numbers cross the UVARI widths (127/128, 16383/16384)
    for k, n in enumerate([126, 127, 128, 129, 300] if tier == 'quick' else [126, 127, 128, 129, 300, 16383, 16384, 16385, 20000]):
        yield {'stratum': 'many-rows', 'index': k, 'kind': 'many-rows', 'rows': n}
    # declared casts over a history: write, (re)declare the cast, write other data of another dtype
    for k in range(80 if tier == 'quick' else 2000):
        yield {'stratum': 'cast-history', 'index': k, 'kind': 'cast-history'}
    # several logical files, each with its own frame(s) -- same frame and channel names, other row counts: every logical file
    # must hold one record per row of ITS frames and nothing else
    for k in range(40 if tier == 'quick' else 800):
        yield {'stratum': 'several-logical-files', 'index': k, 'kind': 'multi-lf'}
    # floats cast (as declared) to a type that cannot hold some of them: numpy leaves the result undefined -- it depends on
    # the number of values converted at once and on the memory layout -- so there are no "declared cast" bits to return
    for k in range(150 if tier == 'quick' else 3000):
        yield {'stratum': 'float-cast-out-of-range', 'index': k, 'kind': 'float-cast'}
    # ... and every (source float type, target integer type) pair with a value at the very edge of the target's range
    # (max + 1, the largest float below it, min, the float just below min, ...), exactly representable in the source type
    for k in range(len(gen.float_cast_boundaries()) * (1 if tier == 'quick' else 4)):
        yield {'stratum': 'float-cast-at-range-boundary', 'index': k, 'kind': 'float-cast-boundary'}


def run_case(case):
    from vf import harness, oracle
    seed = case.get('seed', 0)
    obs, sigs, vio = {}, [], []
    evals = 0
    sample = None

    def bump(k, n=1):
        obs[k] = obs.get(k, 0) + n

    def go(sp):
        nonlocal evals, sample
        run = harness.execute(sp)
        if run.data is None:
            bump('write-raised:%s:%s' % (run.wout[1], run.wout[2][:50]))
            evals += 1
            # a valid frame spec must be writable: reported by C15/C12; here it only counts as not-observed
            return
        oracle.check_frames(run)
        if run.stage_error is not None:
            # rows that cannot be decoded at all are not "returned bit for bit"
            e_ = run.stage_error[1]
            vio.append({'prop': PROP, 'kind': 'records-undecodable', 'mech': 'undecodable:' + getattr(e_, 'kind', type(e_).__name__),
                        'detail': f'the written file does not decode: {e_}'})
        nfr = run.obs.get('frame-checked', 0)
        evals += max(1, nfr)
        for k, v in run.obs.items():
            bump(k, v)
        w = sp.get('write', {})
        chans = [o for o in sp['ops'] if o['op'] == 'channel']
        n = chans[0]['data']['shape'][0]
        ics = w.get('input_chunk_size')
        if ics is not None and ics < n and n % ics:
            bump('c03-multi-chunk-remainder')
        bump('c03-src-' + w.get('source', 'inline'))
        for c in chans:
            d = c['data']
            import numpy as np
            bump('c03-dtype-' + np.dtype(d['dtype']).name)
            be = d['dtype'][0] == '>'
            two = len(d['shape']) > 1
            bump('c03-%s-%s' % ('be' if be else 'le', '2d' if two else 'scalar'))
            bump('c03-' + d.get('fill', {}).get('kind', 'pos'))
            if c.get('cast_dtype'):
                bump('c03-cast')
        if gen.frame_nontrivial(sp):
            sigs.append(gen.frame_signature(sp))
        vio.extend(v.as_dict() for v in run.by_prop(PROP))
        if sample is None:
            sample = {'channels': [(c['name'], c['data']['dtype'], c['data']['shape'], c['data'].get('layout'),
                                    c['data'].get('fill', {}).get('kind'), c.get('cast_dtype')) for c in chans][:6],
                      'write': w, 'max_record_length': sp['sul']['max_record_length']}

    if case['kind'] == 'row-window':
        mx = case['mx']
        cap = mx - 8
        r = gen.rng(seed, PROP, case['stratum'], case['index'])
        for m in (1, 2, 3):
            for d in range(-3, 16):
                width = m * cap + d - 6          # body = reference to frame 'F' (4 bytes) + frame number (1) + index (1) + width
                if width < 1:
                    continue
                sp = gen.base_spec(mx)
                sp['ops'].append(gen.origin_op())
                sp['ops'].append(gen.channel_op('I', '|u1', (3,), fill={'kind': 'pos', 'tag': 1}))
                sp['ops'].append(gen.channel_op('W', '|u1', (3, width), fill={'kind': 'rand', 'seed': width}))
                sp['ops'].append(gen.frame_op('F', [1, 2]))
                sp['write'] = {'output_chunk_size': 2 ** 16, 'source': 'inline'}
                bump('c03-row-size-window')
                go(sp)
    elif case['kind'] == 'many-rows':
        r = gen.rng(seed, PROP, case['stratum'], case['index'])
        n = case['rows']
        sp = gen.base_spec(8192)
        sp['ops'].append(gen.origin_op())
        sp['ops'].append(gen.channel_op('I', '<u4', (n,), fill={'kind': 'pos', 'tag': 1}))
        sp['ops'].append(gen.channel_op('V', '>i2', (n, 2), fill={'kind': 'pos', 'tag': 2}))
        sp['ops'].append(gen.frame_op('LONG', [1, 2]))
        sp['write'] = {'output_chunk_size': 2 ** 20, 'input_chunk_size': r.choice([None, 100, 127, 128, 5000]),
                       'source': r.choice(['inline', 'dict', 'hdf5'])}
        bump('c03-many-rows')
        go(sp)
    elif case['kind'] == 'cast-history':
        import numpy as np
        from vf import spec as S
        r = gen.rng(seed, PROP, case['stratum'], case['index'])
        n = r.choice([3, 5, 9])
        sp = gen.base_spec(r.choice([128, 8192]))
        sp['ops'].append(gen.origin_op())
        dts = [r.choice(['float64', 'float32', 'int32', 'uint16']) for _ in range(2)]
        sp['ops'].append(gen.channel_op('A', gen.dtstr(dts[0], '<'), (n,), fill={'kind': 'safe', 'tag': 1}))
        sp['ops'].append(gen.channel_op('B', gen.dtstr(dts[1], '<'), (n, 3), fill={'kind': 'safe', 'tag': 2}))
        sp['ops'].append(gen.frame_op('FR', [1, 2]))
        sp['write'] = {'output_chunk_size': 2 ** 16}
        first = harness.execute(sp)
        if first.data is None:
            bump('write-raised:' + first.wout[2][:40])
            return {'evals': 1, 'violations': [], 'obs': obs, 'sigs': [], 'sample': None}
        later = []
        newdt = {}
        for ci, cur in ((1, dts[0]), (2, dts[1])):
            mode = r.choice(['same-as-derived', 'other', 'none'])
            if mode == 'same-as-derived':
                later.append({'op': 'setattr', 'target': ci, 'field': 'cast_dtype', 'value': {'$dtype': cur, 'as': gen.cast_form(r)}})
                bump('c03-cast-declared-equal-to-derived')
            elif mode == 'other':
                later.append({'op': 'setattr', 'target': ci, 'field': 'cast_dtype', 'value': {'$dtype': r.choice([d for d in ('float64', 'float32', 'int32') if d != cur]), 'as': 'type'}})
            newdt[ci] = r.choice([d for d in ('float64', 'float32', 'int32', 'uint16', 'uint8') if d != cur])
        # the second write gets other data (another dtype, values representable everywhere) through write(data=...)
        arrays = {1: S.make_array({'dtype': gen.dtstr(newdt[1], '<'), 'shape': [n], 'fill': {'kind': 'safe', 'tag': 7}}),
                  2: S.make_array({'dtype': gen.dtstr(newdt[2], '<'), 'shape': [n, 3], 'fill': {'kind': 'safe', 'tag': 9}})}
        run = harness.rewrite(first, later, data={'A': arrays[1], 'B': arrays[2]})
        bump('c03-cast-history')
        evals += 1
        if run.data is None:
            bump('write-raised:' + run.wout[2][:40])
        else:
            run.arrays = arrays
            oracle.check_frames(run)
            for k_, v in run.obs.items():
                bump(k_, v)
            sigs.append('cast-history:' + ','.join(sorted(o['value']['$dtype'] for o in later)) + ':' + ','.join(newdt.values()))
            vio.extend(dict(v.as_dict(), mech='cast-history:' + v.mech) for v in run.by_prop(PROP) + run.by_prop('C08'))
        sample = {'kind': 'cast-history', 'first_dtypes': dts, 'later': later, 'second_dtypes': newdt}
    elif case['kind'] == 'matrix':
        for N in case['Ns']:
            for fill in case['fills']:
                for layout in gen.LAYOUTS:
                    mx = 128
                    cap = mx - 8
                    shape = {'s': (N,), 'w1': (N, 1), 'w3': (N, 3), 'wbig': (N, cap + 3)}[case['shape']]
                    if case['source'] == 'hdf5' and layout == 'readonly':
                        continue
                    sp = gen.base_spec(mx)
                    sp['ops'].append(gen.origin_op())
                    sp['ops'].append(gen.channel_op('IDX', '<f8', (N,), fill={'kind': 'pos', 'tag': 1}))
                    sp['ops'].append(gen.channel_op('X', gen.dtstr(case['dtype'], case['order']), shape,
                                                    fill={'kind': fill, 'seed': N * 7 + len(layout)}, layout=layout))
                    sp['ops'].append(gen.frame_op('FR', [1, 2]))
                    sp['write'] = {'source': case['source'], 'output_chunk_size': 2 ** 16,
                                   'input_chunk_size': None if N < 3 else 2}
                    go(sp)
    else:
        r = gen.rng(seed, PROP, case['stratum'], case['index'])
        if case['kind'] == 'fastpath':
            sp = gen.fastpath_spec(r, window=r.random() < 0.3)
            bump('c03-struct-fastpath')
            if sp['write'].get('perm_seed') is not None:
                bump('c03-struct-permuted')
            bump('c03-struct-' + (sp['write'].get('struct_variant') or 'packed'))
        elif case['kind'] in ('float-cast', 'float-cast-boundary'):
            import numpy as np
            if case['kind'] == 'float-cast-boundary':
                sp, xi, src, dst, nbad = gen.float_cast_boundary_spec(case['index'])
                bump('c03-float-cast-at-range-boundary')
            else:
                sp, xi, src, dst, nbad = gen.float_cast_spec(r)
            ops = sp['ops']
            source = sp['write']['source']
            n = ops[xi]['data']['shape'][0]
            bump('c03-float-cast-out-of-range')
            run = harness.execute(sp)
            w = sp['write']
            arr = run.arrays.get(xi)
            win = arr[(w.get('from_idx') or 0):(arr.shape[0] if w.get('to_idx') is None else w['to_idx'])]
            why = oracle.uncastable(win, dst)
            evals += 1
            tag = f"{np.dtype(src).name}->{dst}"
            if why is not None:
                bump('c03-uncastable-value-in-window')
                sigs.append(f'uncastable:{tag}:{source}:n{min(n, 4)}')
                if run.data is not None:
                    vio.append({'prop': PROP, 'kind': 'uncastable-written', 'mech': f'cast-out-of-range-written:{tag}',
                                'detail': f'{why}: the declared cast has no defined result for this value, yet the file was written '
                                          f'(source {source}, {n} rows, input chunk {w.get("input_chunk_size")}, window '
                                          f'{w.get("from_idx")}:{w.get("to_idx")}, layout {ops[xi]["data"]["layout"]})',
                                'spec': sp})
                else:
                    bump('c03-uncastable-refused:' + run.wout[1])
                return {'evals': evals, 'violations': vio, 'obs': obs, 'sigs': sorted(set(sigs)), 'sample': sample}
            bump('c03-castable' + ('-bad-outside-window' if nbad and oracle.uncastable(arr, dst) else ''))
            if run.data is None and 'cannot be cast' in run.wout[2]:
                vio.append({'prop': PROP, 'kind': 'castable-refused', 'mech': f'castable-refused:{tag}',
                            'detail': f'every value in the window has a defined cast, but the write was refused: {run.wout[2][:200]}',
                            'spec': sp})
                return {'evals': evals, 'violations': vio, 'obs': obs, 'sigs': sorted(set(sigs)), 'sample': sample}
        elif case['kind'] == 'multi-lf':
            nlf = r.choice([2, 2, 3])
            same_hdr = r.random() < 0.4    # equal (not identical) file headers
            sp = gen.base_spec(r.choice([128, 8192]), lfs=[{'fh_id': 'LF' if same_hdr else f'LF{j}'} for j in range(nlf)])
            source = r.choice(['inline', 'inline', 'dict', 'hdf5'])
            same = r.random() < 0.6
            for lf in range(nlf):
                n = r.choice([1, 3, 5, 8])
                sp['ops'].append(dict(gen.origin_op(f'ORIGIN{lf}', fsn=3 + lf), lf=lf, set_name=f'S{lf}'))
                idx = []
                for c in range(r.choice([1, 2, 3])):
                    shape = (n,) if c == 0 or r.random() < 0.6 else (n, r.choice([2, 3]))
                    op = gen.channel_op(f'CH{c}' if same else f'L{lf}CH{c}', gen.dtstr(r.choice(gen.DTYPES), r.choice('<>')), shape,
                                        fill={'kind': 'pos', 'tag': 10 * lf + c + 1}, lf=lf, set_name=f'S{lf}')
                    if source != 'inline':
                        op['dataset_name'] = f'lf{lf}_c{c}'
                    sp['ops'].append(op)
                    idx.append(len(sp['ops']) - 1)
                sp['ops'].append(dict(gen.frame_op('MAIN' if same else f'MAIN{lf}', idx, lf=lf), set_name=f'S{lf}'))
            sp['write'] = {'source': source, 'output_chunk_size': 2 ** 16, 'input_chunk_size': r.choice([None, 1, 2])}
            bump('c03-several-logical-files')
        elif case['kind'] == 'int-cast':
            sp = gen.int_cast_spec(r, nframes=1)
            bump('c03-int-cast-out-of-range')
            bump('c03-int-cast-' + sp['write']['source'])
        else:
            sp = gen.frame_spec(r, casts=(case['kind'] == 'random-cast'), nframes=r.choice([1, 1, 2]))
        go(sp)
    return {'evals': evals, 'violations': vio, 'obs': obs, 'sigs': sorted(set(sigs)), 'sample': sample}
