"""C04 -- every EFLR decodes under the RP66 component grammar (DESIGN.md section 5, C04)."""
from __future__ import annotations
from vf.checks import _meta

PROP = 'C04'
META = {
    'level': 'exploration',
    'rule': ('one evaluation = one EFLR set of a written file parsed by the strict component-grammar parser (set, template, '
             'objects, attribute characteristics, exact value counts, defined representation codes, no bytes left over) and '
             'matched with the objects defined for it; signature = (set type, named?, multiplicity classes present, units?, '
             'object-count class); non-trivial when at least one attribute is present'),
    'required_obs': {'quick': ['sets', 'absent-attribute', 'count-2..127', 'count-2byte', 'units-component', 'named-set',
                               'multi-object-set', 'files-written', 'empty-list-tried', 'non-ascii-tried', 'empty-set-name', 'set-renamed-after-creation', 'inplace-edit-then-rewrite',
                               'inplace-pop', 'inplace-dup', 'inplace-clear', 'copy-number>=128']
                     + ['settype-' + v['set'] for v in _meta.schema.TYPES.values()] + ['settype-FILE-HEADER']},
    'assumptions': ['strict parser vf/rp66.py implements RP66 V1 chapter 3 (component descriptors, template inheritance)'],
}
META['required_obs']['thorough'] = META['required_obs']['quick']


def cases(tier, seed):
    return _meta.cases(tier, seed, PROP)


def run_case(case):
    out = _meta.run_case(case, PROP)
    if case.get('kind') == 'nonascii':
        out['obs']['non-ascii-tried'] = out['obs'].get('non-ascii-tried', 0) + 1
    if case.get('kind') == 'type' and case.get('mode') == 'multi':
        out['obs']['empty-list-tried'] = out['obs'].get('empty-list-tried', 0) + 1
    return out
