"""C05 -- metadata fidelity: what the user sets is what a reader gets (DESIGN.md section 5, C05)."""
from __future__ import annotations
from vf.checks import _meta

PROP = 'C05'
META = {
    'level': 'exploration',
    'rule': ('one evaluation = one object of a written file compared attribute by attribute with the expected model computed '
             'from the specification (values, units, absence of unassigned attributes except the documented defaults); '
             'signature = (object type, sorted (label, value kind, assignment route, units assigned?)); non-trivial when '
             'at least one attribute was assigned by the user'),
    'required_obs': {'quick': ['object-compared', 'attr-compared', 'units-compared', 'route-kw', 'route-dict', 'route-AttrSetup',
                               'route-later', 'kind-text', 'kind-ident', 'kind-num', 'kind-fdoubl', 'kind-uvari', 'kind-unorm',
                               'kind-dtime', 'kind-dtf', 'kind-status', 'kind-mnum', 'kind-dim', 'kind-lname', 'kind-objref',
                               'kind-ref:channel', 'kind-ref:zone', 'default-FIELD-NAME', 'default-LONG-NAME',
                               'codec-contract-evals', 'reassign-after-write', 'plain-second-write', 'route-later-set_attributes',
                               'origin-file-set-number-left-to-library', 'inplace-edit-then-rewrite']},
    'assumptions': ['vf/schema.py states the attribute labels / value kinds of the 22 object types independently of the code',
                    'date-times compare within 1 ms of the same UTC instant; numbers by numeric value in the decoded code'],
}
META['required_obs']['thorough'] = META['required_obs']['quick']


def cases(tier, seed):
    return _meta.cases(tier, seed, PROP)


def run_case(case):
    return _meta.run_case(case, PROP)
