"""C06 -- primitive values are encoded exactly as their representation code prescribes (DESIGN.md section 5, C06)."""
from __future__ import annotations
import math
from vf import gen

PROP = 'C06'
CODES = ['USHORT', 'UNORM', 'ULONG', 'UVARI', 'SSHORT', 'SNORM', 'SLONG', 'FSINGL', 'FDOUBL', 'IDENT', 'ASCII',
         'DTIME', 'STATUS', 'OBNAME', 'OBJREF']
META = {
    'level': 'exploration',
    'rule': ('one evaluation = one call of the real encoder (public dispatch write_struct or the object-name helpers) '
             'compared with the independent reference encoder (byte equality) and decoder (round trip, exact length); '
             'values the code cannot represent must raise; signature = (code, value class); non-trivial when the value '
             'is a boundary value of its domain or belongs to a rejection class'),
    'required_obs': {'quick': ['code-' + c for c in CODES] + ['frame-numbers-of-4-bytes', 'uvari-width-1', 'uvari-width-2', 'uvari-width-4',
                               'rejected-out-of-range', 'rejected-non-ascii', 'rejected-too-long', 'cache-collision-pair',
                               'e2e-contract-evals', 'obname-copy>0', 'obname-origin-2byte', 'obname-after-identity-change', 'dtime-utc-year-differs', 'numpy-scalar-zero-pair', 'list-with-unrepresentable-element',
                               'list-round-trip', 'dtime-fold-pair', 'dtime-naive-after-zone-change', 'dtime-through-attributes', 'dtime-attr-objects-compared', 'uvari-numpy-integer']},
    'exhaustive_windows': {'quick': ['UVARI: every value 0..20000 and 2^30-3..2^30+3', 'USHORT/SSHORT: whole domain +-2',
                                     'IDENT lengths 0..260', 'STATUS -2..3'],
                           'thorough': ['UVARI: every value 0..70000', 'UNORM/SNORM whole domain +-2', 'IDENT/ASCII lengths 0..300']},
    'assumptions': ['reference codec in vf/rp66.py written from RP66 V1 Appendix B'],
    'technique': ('runtime monitoring: differential against an independent reference encoder/decoder on direct calls, '
                  'plus recording round-trip contracts on the real encoders during end-to-end writes'),
}
META['required_obs']['thorough'] = META['required_obs']['quick']

INT = {'USHORT': (15, 1, False), 'UNORM': (16, 2, False), 'ULONG': (17, 4, False),
       'SSHORT': (12, 1, True), 'SNORM': (13, 2, True), 'SLONG': (14, 4, True)}


def cases(tier, seed):
    i = 0
    top = 20000 if tier == 'quick' else 70000
    for lo in range(0, top, 5000):
        yield {'stratum': 'uvari-window', 'index': i, 'kind': 'uvari', 'lo': lo, 'hi': min(top, lo + 5000)}
        i += 1
    yield {'stratum': 'uvari-window', 'index': i, 'kind': 'uvari-edge'}
    for c in INT:
        yield {'stratum': 'int-edges', 'index': i, 'kind': 'int', 'code': c, 'full': tier == 'thorough'}
        i += 1
    yield {'stratum': 'text', 'index': 0, 'kind': 'text', 'maxlen': 260 if tier == 'quick' else 300}
    yield {'stratum': 'float', 'index': 0, 'kind': 'float'}
    yield {'stratum': 'status', 'index': 0, 'kind': 'status'}
    for k in range(6 if tier == 'quick' else 60):
        yield {'stratum': 'dtime', 'index': k, 'kind': 'dtime', 'n': 300}
    for k in range(4 if tier == 'quick' else 16):
        yield {'stratum': 'obname', 'index': k, 'kind': 'obname'}
    for k in range(16 if tier == 'quick' else 200):
        yield {'stratum': 'random-history', 'index': k, 'kind': 'history', 'n': 600}
    for k in range(40 if tier == 'quick' else 600):
        yield {'stratum': 'e2e-contracts', 'index': k, 'kind': 'e2e'}
    # the same values reached through attributes: value LISTS of every length class, with and without an element the
    # inferred code cannot represent
    for k in range(40 if tier == 'quick' else 800):
        yield {'stratum': 'attribute-value-lists', 'index': k, 'kind': 'lists'}
    # date-times reached through attributes (the converter of the attribute lies between the user's value and the encoder):
    # aware / naive, the second occurrence of a repeated wall-clock time, under several local zones of the process
    for k in range(24 if tier == 'quick' else 500):
        yield {'stratum': 'dtime-through-attributes', 'index': k, 'kind': 'dtime-attr'}
    # UVARI frame numbers of real frame-data records across the one / two / four byte thresholds (128, 16384): frames of
    # 130 and of more than 16384 rows, every record decoded by the strict reader with the file's own channel descriptors
    for k, n in enumerate([130, 16390] if tier == 'quick' else [127, 128, 129, 16383, 16384, 16385, 16500, 40000]):
        yield {'stratum': 'frame-numbers-across-thresholds', 'index': k, 'kind': 'frame-numbers', 'rows': n}


def run_case(case):
    import datetime as dt
    from vf import rp66, harness, contracts
    from dliswriter.utils.internal import struct_writer as SW
    from dliswriter.utils.internal.internal_enums import RepresentationCode as RC
    seed = case.get('seed', 0)
    obs, vio, sigs = {}, [], set()
    evals = [0]

    def bump(k, n=1):
        obs[k] = obs.get(k, 0) + n

    def real(code_name, v):
        try:
            return ('ok', bytes(SW.write_struct(getattr(RC, code_name), v)))
        except Exception as e:      # noqa
            return ('exc', type(e).__name__, str(e)[:80])

    def judge(code_name, v, exp, got, vclass, boundary=True, lenient=False):
        """exp: bytes or None (unrepresentable); got: ('ok', bytes) | ('exc', ..)."""
        evals[0] += 1
        bump('code-' + code_name)
        if boundary:
            sigs.add(f'{code_name}:{vclass}')
        if exp is None:
            if got[0] == 'ok':
                vio.append({'prop': PROP, 'kind': 'unrepresentable-accepted', 'mech': f'accepted:{code_name}:{vclass}',
                            'detail': f'{code_name} {v!r:.60} -> {got[1][:16].hex()} ({len(got[1])} bytes)'})
            else:
                bump('rejected-' + vclass)
            return
        if got[0] != 'ok':
            bump('representable-rejected:' + code_name + ':' + vclass)
            return
        if got[1] != exp and not lenient:
            try:
                d = rp66.decode_exact(rp66.CODE_BY_NAME[code_name], got[1])
            except rp66.Malformed as e:
                d = f'<{e.kind}>'
            vio.append({'prop': PROP, 'kind': 'encoding-mismatch', 'mech': f'mismatch:{code_name}:{vclass}',
                        'detail': f'{code_name} {v!r:.60}: expected {exp[:16].hex()} ({len(exp)}), emitted '
                                  f'{got[1][:16].hex()} ({len(got[1])}), decodes to {d!r:.60}'})

    def ref_uvari(v):
        try:
            return rp66.enc_uvari(v)
        except rp66.Unrepresentable:
            return None

    k = case['kind']
    if k == 'uvari':
        for v in range(case['lo'], case['hi']):
            exp = ref_uvari(v)
            bump('uvari-width-%d' % len(exp))
            judge('UVARI', v, exp, real('UVARI', v), 'w%d' % len(exp), boundary=v in (0, 1, 126, 127, 128, 129, 16382, 16383, 16384, 16385))
    elif k == 'uvari-edge':
        for v in [2 ** 14 - 1, 2 ** 14, 2 ** 16, 2 ** 24, 2 ** 30 - 3, 2 ** 30 - 2, 2 ** 30 - 1]:
            exp = ref_uvari(v)
            bump('uvari-width-%d' % len(exp))
            judge('UVARI', v, exp, real('UVARI', v), 'w%d-edge' % len(exp))
        for v in [2 ** 30, 2 ** 30 + 1, 2 ** 30 + 3, 2 ** 31, 2 ** 32 - 1, 2 ** 32, 2 ** 40, -1, -128, -2 ** 31]:
            judge('UVARI', v, None, real('UVARI', v), 'out-of-range')
        # the same numbers as numpy integers (a count or a reference that comes out of a numpy computation): sums inside the
        # encoder must not wrap in the operand's own width
        import numpy as np
        import warnings
        with warnings.catch_warnings():
            warnings.simplefilter('ignore')
            for tname in ('uint8', 'int8', 'uint16', 'int16', 'uint32', 'int32', 'uint64', 'int64'):
                info = np.iinfo(tname)
                for v in [0, 1, 127, 128, 200, 16383, 16384, 20000, 60000, 2 ** 30 - 1, 2 ** 30, 2 ** 30 + 5, 2 ** 31 - 1, 2 ** 32 - 1, -1]:
                    if not info.min <= v <= info.max:
                        continue
                    exp = ref_uvari(v) if v >= 0 else None
                    bump('uvari-numpy-integer')
                    judge('UVARI', np.dtype(tname).type(v), exp, real('UVARI', np.dtype(tname).type(v)),
                          f'numpy-{tname}-' + ('out-of-range' if exp is None else 'w%d' % len(exp)))
    elif k == 'int':
        name = case['code']
        code, nb, signed = INT[name]
        lo, hi = (-(1 << (8 * nb - 1)), (1 << (8 * nb - 1)) - 1) if signed else (0, (1 << (8 * nb)) - 1)
        if nb == 1 or (nb == 2 and case['full']):
            vals = list(range(lo - 2, hi + 3))
        else:
            vals = sorted({lo - 2, lo - 1, lo, lo + 1, -2, -1, 0, 1, 2, 127, 128, 255, 256, hi - 1, hi, hi + 1, hi + 2,
                           2 ** 31, -2 ** 31 - 1, 2 ** 32, 2 ** 64} | {lo + (hi - lo) * j // 97 for j in range(98)})
        for v in vals:
            if lo <= v <= hi:
                exp = (rp66.enc_sint if signed else rp66.enc_uint)(v, nb)
                judge(name, v, exp, real(name, v), 'edge' if v in (lo, hi, 0, -1) else 'in', boundary=v in (lo, hi, 0, -1, lo + 1, hi - 1))
            else:
                judge(name, v, None, real(name, v), 'out-of-range')
    elif k == 'text':
        import string
        for n in range(0, case['maxlen'] + 1):
            s = ''.join(string.ascii_letters[(i * 7 + n) % 52] for i in range(n))
            try:
                exp = rp66.enc_ident(s)
                cls = 'len<128' if n < 128 else 'len128-255'
            except rp66.Unrepresentable:
                exp, cls = None, 'too-long'
            judge('IDENT', s, exp, real('IDENT', s), cls, boundary=n in (0, 1, 127, 128, 129, 254, 255, 256, 257))
            judge('ASCII', s, rp66.enc_ascii(s), real('ASCII', s), 'len<128' if n < 128 else 'len>=128', boundary=n in (0, 127, 128, 129))
        for n in (16383, 16384, 16385, 20000, 100000):
            s = ('abcdefghij' * (n // 10 + 1))[:n]
            judge('ASCII', s, rp66.enc_ascii(s), real('ASCII', s), 'len-%s' % ('2byte' if n < 16384 else '4byte'))
        for s in ['é', 'abcÿ', 'Āx', 'naïve', '\x80']:
            judge('ASCII', s, None, real('ASCII', s), 'non-ascii')
            judge('IDENT', s, None, real('IDENT', s), 'non-ascii')
    elif k == 'float':
        import struct
        vals = [0.0, -0.0, 1.0, -1.0, 0.5, 1e-45, 1.4e-45, 3.4028234663852886e38, -3.4028234663852886e38, 1e308, 5e-324,
                float('inf'), float('-inf'), float('nan'), 3.141592653589793, 1 / 3, 16777217.0, 2.0 ** -126, 2.0 ** -149]
        # history: every value twice, interleaved with colliding keys 0.0/-0.0, 1/1.0/True
        seq = [(c, v) for v in vals for c in ('FDOUBL', 'FSINGL')]
        seq = seq + [('FDOUBL', -0.0), ('FDOUBL', 0.0), ('FSINGL', 0.0), ('FSINGL', -0.0), ('FDOUBL', 1), ('FDOUBL', 1.0), ('FDOUBL', True)] + seq[::-1]
        # numpy scalars (what index minima / maxima and array elements are before conversion), again with colliding keys
        import numpy as np
        nps = [(c, t(v)) for t in (np.float32, np.float64) for v in (-0.0, 0.0, 1.0, 0.5, -0.0) for c in ('FSINGL', 'FDOUBL')]
        seq = seq + nps + nps[::-1]
        bump('numpy-scalar-zero-pair', 2)
        bump('cache-collision-pair', 2)
        for c, v in seq:
            pack = '>d' if c == 'FDOUBL' else '>f'
            try:
                exp = struct.pack(pack, v)
            except (OverflowError, struct.error):
                exp = None
            cls = 'nan' if v != v else 'zero' if v == 0 else 'inf' if math.isinf(v) else 'finite'
            if v == 0 and math.copysign(1, v) < 0:
                cls = 'negzero'
            if exp is None:
                cls = 'out-of-range'
            judge(c, v, exp, real(c, v), cls)
        for v in [1e39, -1e39, 3.5e38]:
            judge('FSINGL', v, None, real('FSINGL', v), 'out-of-range')
    elif k == 'status':
        for v in [0, 1, True, False]:
            judge('STATUS', v, rp66.enc_status(int(v)), real('STATUS', v), 'valid')
        for v in [-2, -1, 2, 3, 255, 256]:
            judge('STATUS', v, None, real('STATUS', v), 'out-of-range')
    elif k == 'dtime-attr':
        import os
        import time as _time
        from vf import oracle
        r = gen.rng(seed, PROP, case['stratum'], case['index'])
        tz = ['UTC', 'IST-5:30', 'EST5EDT,M3.2.0,M11.1.0', 'NZST-12NZDT,M9.5.0,M4.1.0/3'][case['index'] % 4]
        old_tz = os.environ.get('TZ')
        os.environ['TZ'] = tz
        _time.tzset()
        try:
            sp = gen.minimal(8192)
            for o in sp['ops']:
                if o['op'] == 'origin':
                    o['attrs']['creation_time'] = gen.gen_dt(r)
            forced = [{'$dt': [2021, 11, 7, 1, 30, 0, 0], 'tz': None, 'fold': 1}, {'$dt': [2021, 4, 4, 2, 30, 0, 0], 'tz': None, 'fold': 1},
                      {'$dt': [2024, 6, 1, 12, 0, 0, 0], 'tz': 'RH', 'fold': 1}, {'$dt': [2024, 6, 1, 12, 0, 0, 0], 'tz': 'RH', 'fold': 0}]
            for j in range(4):
                sp['ops'].append({'op': 'zone', 'name': f'Z{j}', 'attrs': {'domain': 'TIME', 'minimum': forced[j] if j < 2 or r.random() < 0.5 else gen.gen_dt(r),
                                                                               'maximum': forced[j] if j >= 2 else gen.gen_dt(r)}})
            sp['ops'].append({'op': 'message', 'name': 'M', 'attrs': {'time': gen.gen_dt(r), 'text': ['t']}})
            sp['write'] = {'output_chunk_size': 2 ** 16}
            run = harness.execute(sp, want_taps=False)
            evals[0] += 1
            bump('dtime-through-attributes')
            bump('dtime-attr-tz-' + tz.split(',')[0])
            if run.data is None:
                bump('dtime-attr-write-raised:' + run.wout[1])
            else:
                oracle.decode(run)
                oracle.check_c05(run)
                bump('dtime-attr-objects-compared', run.obs.get('object-compared', 0))
                sigs.add(f'DTIME:attr:{tz.split(",")[0]}')
                for v in run.by_prop('C05'):
                    if 'DTIME' in v.mech or ':dt' in v.mech:
                        vio.append({'prop': PROP, 'kind': 'encoding-mismatch', 'mech': 'mismatch:DTIME:through-attribute',
                                    'detail': f'TZ={tz}: {v.detail}'})
        finally:
            if old_tz is None:
                os.environ.pop('TZ', None)
            else:
                os.environ['TZ'] = old_tz
            _time.tzset()
    elif k == 'dtime':
        r = gen.rng(seed, PROP, case['stratum'], case['index'])
        for j in range(case['n']):
            y = r.choice([1900, 1901, 1969, 1970, 2000, 2024, 2154, 2155, r.randint(1900, 2155)])
            us = r.choice([0, 1, 499, 500, 501, 999, 1000, 1499, 1500, 999499, 999500, 999999, r.randrange(10 ** 6)])
            tzm = r.choice([None, 0, 0, 60, -60, 330, -720, 840, r.randint(-14 * 60, 14 * 60)])
            try:
                tz = None if tzm is None else dt.timezone(dt.timedelta(minutes=tzm))
                if j % 3 == 0:
                    # within hours of a year / month boundary, where the UTC date differs from the local one
                    mo = r.choice([1, 1, r.randint(1, 12)])
                    t = dt.datetime(min(y + (mo == 1 and r.random() < 0.5), 2156), mo, 1, 0, 0, 0, 0, tzinfo=tz) + dt.timedelta(
                        seconds=r.choice([-1, 0, 1, r.randint(-15 * 3600, 15 * 3600)]), microseconds=us)
                    sigs.add('DTIME:near-boundary:' + ('aware' if tz else 'naive'))
                else:
                    t = dt.datetime(y, r.randint(1, 12), r.randint(1, 28), r.randint(0, 23), r.randint(0, 59), r.randint(0, 59), us,
                                    tzinfo=tz)
                u = t.astimezone(dt.timezone.utc)
                if u.year != t.year:
                    sigs.add('DTIME:utc-year-differs')
                    bump('dtime-utc-year-differs')
            except (OverflowError, ValueError):
                continue
            got = real('DTIME', t)
            evals[0] += 1
            bump('code-DTIME')
            if not 1900 <= u.year <= 2155:
                sigs.add('DTIME:year-out-of-range')
                if got[0] == 'ok':
                    vio.append({'prop': PROP, 'kind': 'unrepresentable-accepted', 'mech': 'accepted:DTIME:year',
                                'detail': f'{t.isoformat()} (UTC year {u.year}) -> {got[1].hex()}'})
                else:
                    bump('rejected-out-of-range')
                continue
            if got[0] != 'ok':
                bump('representable-rejected:DTIME')
                continue
            sigs.add(f'DTIME:{"naive" if tzm is None else "aware"}:us{us if us in (0, 499, 500, 999499, 999500, 999999) else "x"}')
            try:
                d = rp66.decode_exact(21, got[1])
            except rp66.Malformed as e:
                vio.append({'prop': PROP, 'kind': 'encoding-mismatch', 'mech': 'undecodable:DTIME', 'detail': f'{t.isoformat()}: {e}'})
                continue
            inst = (dt.datetime(d[0], d[2], d[3], d[4], d[5], d[6], tzinfo=dt.timezone.utc) - u.replace(microsecond=0)).total_seconds() * 1000 + d[7] - u.microsecond / 1000.0
            if abs(inst) > 1.0 or d[1] != 2:
                vio.append({'prop': PROP, 'kind': 'encoding-mismatch', 'mech': 'mismatch:DTIME',
                            'detail': f'{t.isoformat()} decodes to {d} ({inst} ms off, tz code {d[1]})'})
        # the same date-time VALUE encoded again under other circumstances: equal (and equally hashed) date-times that are
        # different instants -- `fold` of an aware date-time in a zone with a repeated hour; a naive date-time after the
        # process's local zone has changed
        import os
        import time as _time

        class _RepeatedHour(dt.tzinfo):
            def utcoffset(self, d_):
                return dt.timedelta(hours=2 if not d_.fold else 1)

            def dst(self, d_):
                return dt.timedelta(hours=1 if not d_.fold else 0)

            def tzname(self, d_):
                return 'RH'
        zone = _RepeatedHour()
        for j in range(3):
            base = dt.datetime(2021, 10, 31, 2, 30, r.randrange(60), tzinfo=zone)
            for fold in ((0, 1) if j % 2 == 0 else (1, 0)):
                t = base.replace(fold=fold)
                u = t.astimezone(dt.timezone.utc)
                got = real('DTIME', t)
                evals[0] += 1
                bump('dtime-fold-pair')
                if got[0] == 'ok':
                    d = rp66.decode_exact(21, got[1])
                    if (d[0], d[2], d[3], d[4], d[5], d[6]) != (u.year, u.month, u.day, u.hour, u.minute, u.second):
                        vio.append({'prop': PROP, 'kind': 'encoding-mismatch', 'mech': 'mismatch:DTIME:fold',
                                    'detail': f'{t.isoformat()} fold={fold} is {u.isoformat()}, encoded as {d}'})
        old_tz = os.environ.get('TZ')
        try:
            for j in range(3):
                t = dt.datetime(2022, 3, 4, 12, 0, r.randrange(60))
                for tzname in ('UTC0', 'JST-9', 'EST5'):
                    os.environ['TZ'] = tzname
                    _time.tzset()
                    u = t.astimezone(dt.timezone.utc)
                    got = real('DTIME', t)
                    evals[0] += 1
                    bump('dtime-naive-after-zone-change')
                    if got[0] == 'ok':
                        d = rp66.decode_exact(21, got[1])
                        if (d[2], d[3], d[4], d[5], d[6]) != (u.month, u.day, u.hour, u.minute, u.second):
                            vio.append({'prop': PROP, 'kind': 'encoding-mismatch', 'mech': 'mismatch:DTIME:local-zone-changed',
                                        'detail': f'naive {t.isoformat()} under TZ={tzname} is {u.isoformat()}, encoded as {d}'})
        finally:
            if old_tz is None:
                os.environ.pop('TZ', None)
            else:
                os.environ['TZ'] = old_tz
            _time.tzset()
    elif k == 'obname':
        from dliswriter import DLISFile
        r = gen.rng(seed, PROP, case['stratum'], case['index'])
        df = DLISFile()
        lf = df.add_logical_file()
        items = []
        for oref in [None, 1, 127, 128, 16383, 16384, 2 ** 30 - 1]:
            nm = gen.name(r, 'Z', r.choice([1, 2, 30, 127]))
            items.append(lf.add_zone(nm, origin_reference=oref, set_name=f'S{oref}'))
        same = 'SAME'
        for j in range(258 if case['index'] == 0 else 3):
            items.append(lf.add_zone(same, set_name='COPIES'))
        lf.add_origin('O')
        for it in items:
            for code_name in ('OBNAME', 'OBJREF'):
                evals[0] += 1
                bump('code-' + code_name)
                orf, cp, nm = it.origin_reference, it.copy_number, it.name
                if cp > 0:
                    bump('obname-copy>0')
                if orf is not None and orf >= 128:
                    bump('obname-origin-2byte')
                try:
                    exp = rp66.enc_obname(orf, cp, nm)
                    if code_name == 'OBJREF':
                        exp = rp66.enc_ident('ZONE') + exp
                except rp66.Unrepresentable:
                    exp = None
                got = real(code_name, it)
                cls = 'copy>255' if cp > 255 else ('origin-w%d' % len(rp66.enc_uvari(orf))) + (':copy>0' if cp else '')
                sigs.add(f'{code_name}:{cls}')
                if exp is None:
                    if got[0] == 'ok':
                        vio.append({'prop': PROP, 'kind': 'unrepresentable-accepted', 'mech': f'accepted:{code_name}:{cls}',
                                    'detail': f'({orf},{cp},{nm!r:.20}) -> {got[1][:12].hex()}'})
                    else:
                        bump('rejected-out-of-range')
                elif got[0] == 'ok' and got[1] != exp:
                    vio.append({'prop': PROP, 'kind': 'encoding-mismatch', 'mech': f'mismatch:{code_name}:{cls}',
                                'detail': f'({orf},{cp},{nm!r:.20}): expected {exp[:16].hex()}, emitted {got[1][:16].hex()}'})
        # history: the same items are renamed / moved to another origin and encoded again -- the bytes must follow
        for it in items[:12]:
            new_name = 'RENAMED-' + it.name[:20]
            new_org = r.choice([2, 130, 16385])
            it.name = new_name
            it.origin_reference = new_org
            for code_name in ('OBNAME', 'OBJREF'):
                evals[0] += 1
                bump('code-' + code_name)
                bump('obname-after-identity-change')
                exp = rp66.enc_obname(new_org, it.copy_number, new_name)
                if code_name == 'OBJREF':
                    exp = rp66.enc_ident('ZONE') + exp
                got = real(code_name, it)
                sigs.add(f'{code_name}:after-identity-change')
                if got[0] == 'ok' and got[1] != exp:
                    vio.append({'prop': PROP, 'kind': 'encoding-mismatch', 'mech': f'mismatch:{code_name}:after-identity-change',
                                'detail': f'item renamed to {new_name!r} / origin {new_org} after a first encoding: expected '
                                          f'{exp[:16].hex()}, emitted {got[1][:16].hex()}'})
        # objects of DIFFERENT types under one name, origin and copy number: an OBNAME identifies an object within its type only,
        # an OBJREF carries the type
        twins = [(lf.add_tool('TWIN', origin_reference=7), 'TOOL'), (lf.add_parameter('TWIN', origin_reference=7), 'PARAMETER'),
                 (lf.add_zone('TWIN', origin_reference=7), 'ZONE'), (lf.add_process('TWIN', origin_reference=7), 'PROCESS')]
        r.shuffle(twins)
        for it, tname in twins:
            evals[0] += 1
            bump('code-OBJREF')
            bump('objref-same-name-other-type')
            exp = rp66.enc_ident(tname) + rp66.enc_obname(7, it.copy_number, 'TWIN')
            got = real('OBJREF', it)
            sigs.add('OBJREF:same-name-other-type')
            if got[0] == 'ok' and got[1] != exp:
                vio.append({'prop': PROP, 'kind': 'encoding-mismatch', 'mech': 'mismatch:OBJREF:same-name-other-type',
                            'detail': f'{tname} TWIN (origin 7, copy {it.copy_number}): expected {exp[:20].hex()}, emitted {got[1][:20].hex()}'})
    elif k == 'history':
        r = gen.rng(seed, PROP, case['stratum'], case['index'])
        pool = []
        for _ in range(case['n']):
            c = r.choice(['USHORT', 'UNORM', 'ULONG', 'UVARI', 'SSHORT', 'SNORM', 'SLONG', 'FDOUBL', 'FSINGL', 'ASCII', 'IDENT', 'STATUS'])
            if c in INT:
                code, nb, signed = INT[c]
                lo, hi = (-(1 << (8 * nb - 1)), (1 << (8 * nb - 1)) - 1) if signed else (0, (1 << (8 * nb)) - 1)
                v = r.choice([r.randint(lo, hi), r.randint(lo - 300, hi + 300), lo, hi, 0, 1])
                exp = (rp66.enc_sint if signed else rp66.enc_uint)(v, nb) if lo <= v <= hi else None
                cls = 'in' if exp is not None else 'out-of-range'
            elif c == 'UVARI':
                v = r.choice([r.randrange(0, 300), r.randrange(16000, 17000), r.randrange(0, 2 ** 30), r.randrange(2 ** 30, 2 ** 33), -r.randrange(1, 9)])
                exp = ref_uvari(v)
                cls = ('w%d' % len(exp)) if exp is not None else 'out-of-range'
                if exp is not None:
                    bump('uvari-width-%d' % len(exp))
            elif c in ('FDOUBL', 'FSINGL'):
                import struct
                v = r.choice([0.0, -0.0, 1.0, float(r.randint(-5, 5)), r.uniform(-1e6, 1e6), r.uniform(-1, 1) * 10.0 ** r.randint(-40, 40)])
                try:
                    exp = struct.pack('>d' if c == 'FDOUBL' else '>f', v)
                    cls = 'negzero' if (v == 0 and math.copysign(1, v) < 0) else 'finite'
                except OverflowError:
                    exp, cls = None, 'out-of-range'
            elif c in ('ASCII', 'IDENT'):
                n = r.choice([0, 1, 5, 20, 127, 128, 200, 255, 256, 300])
                v = gen.ascii_text(r, n)
                if r.random() < 0.05:
                    v += 'é'
                try:
                    exp = rp66.enc_ascii(v) if c == 'ASCII' else rp66.enc_ident(v)
                    cls = 'len<128' if n < 128 else ('len>=128' if c == 'ASCII' else 'len128-255')
                except rp66.Unrepresentable:
                    exp = None
                    cls = 'non-ascii' if any(ord(ch) > 127 for ch in v) else 'too-long'
            else:
                v = r.choice([0, 1, 2, -1, True, False])
                exp = rp66.enc_status(int(v)) if v in (0, 1) else None
                cls = 'valid' if exp is not None else 'out-of-range'
            pool.append((c, v, exp, cls))
        seq = pool + pool
        r.shuffle(seq)
        for c, v, exp, cls in seq:
            judge(c, v, exp, real(c, v), cls, boundary=cls not in ('in', 'finite', 'w1', 'len<128'))
    elif k == 'lists':
        from vf import oracle
        r = gen.rng(seed, PROP, case['stratum'], case['index'])
        n = r.choice([1, 2, 15, 16, 17, 40, 127, 128, 300])
        t, kw = r.choice([('axis', 'coordinates'), ('axis', 'coordinates'), ('computation', 'values'), ('calibration_coefficient', 'coefficients')])
        flavour = r.choice(['int', 'int', 'float', 'mixed'])
        if flavour == 'int':
            vals = [r.choice([0, 1, -1, 127, 128, 32767, -32768, 2 ** 31 - 1, -2 ** 31, r.randint(-10 ** 6, 10 ** 6)]) for _ in range(n)]
        elif flavour == 'float':
            vals = [r.choice([0.0, -0.0, 1.5, 1e300, -1e-300, float(r.randint(-9, 9))]) for _ in range(n)]
        else:
            vals = [r.choice([1, 2.5, -3, 4.0]) for _ in range(n)]
        bad = None
        if flavour == 'int' and r.random() < 0.5:
            bad = r.choice([2 ** 31, 2 ** 31 + 5, -2 ** 31 - 1, 3000000000, 2 ** 40, -2 ** 63])
            vals[r.randrange(n)] = bad
        sp = gen.minimal(r.choice([256, 8192]))
        sp['write'] = {'output_chunk_size': 2 ** 16}
        sp['ops'].append({'op': t, 'name': 'LISTS', 'attrs': {kw: vals}})
        run = harness.execute(sp, want_taps=False)
        evals[0] += 1
        rejected = run.built is not None and run.built.error is None and run.built.outcomes[-1][0] != 'ok'
        bump('list-len-%s' % ('1' if n == 1 else '<16' if n < 16 else '16-127' if n < 128 else '>=128'))
        sigs.add(f'lists:{t}:{flavour}:{n}:{bad is not None}')
        if bad is not None:
            bump('list-with-unrepresentable-element')
            if run.data is not None and not rejected:
                # written: then under a code that holds the value exactly (e.g. FDOUBL), or it is a violation
                oracle.check_c05(run)
                if run.by_prop('C05') or run.stage_error is not None:
                    what = run.by_prop('C05')[0].detail if run.by_prop('C05') else str(run.stage_error[1])
                    vio.append({'prop': PROP, 'kind': 'unrepresentable-accepted', 'mech': 'accepted:list-element-out-of-range',
                                'detail': f'{t}.{kw}: {n} integer values incl. {bad} were written, but not faithfully: {what[:200]}'})
                else:
                    bump('int-beyond-slong-written-exactly-under-another-code')
            else:
                bump('rejected-out-of-range')
        elif run.data is not None and not rejected:
            oracle.check_c05(run)
            for v in run.by_prop('C05'):
                vio.append({'prop': PROP, 'kind': 'encoding-mismatch', 'mech': 'list:' + v.mech, 'detail': v.detail})
            if run.stage_error is not None:
                vio.append({'prop': PROP, 'kind': 'encoding-mismatch', 'mech': 'list:undecodable', 'detail': str(run.stage_error[1])})
            bump('list-round-trip')
        else:
            bump('representable-rejected:list:%s' % (run.wout[1] if run.data is None else run.built.outcomes[-1][1]))
    elif case['kind'] == 'frame-numbers':
        from vf import oracle
        r = gen.rng(seed, PROP, case['stratum'], case['index'])
        n = case['rows']
        sp = gen.base_spec(r.choice([64, 8192]))
        sp['ops'].append(gen.origin_op())
        sp['ops'].append(gen.channel_op('B', '<u1', (n,), fill={'kind': 'pos', 'tag': 5}))
        if r.random() < 0.5:
            sp['ops'].append(gen.channel_op('W', '>u2', (n,), fill={'kind': 'pos', 'tag': 6}))
        sp['ops'].append(gen.frame_op('FR', [i for i, o in enumerate(sp['ops']) if o['op'] == 'channel']))
        sp['write'] = {'source': r.choice(['inline', 'dict', 'struct']), 'output_chunk_size': 2 ** 20,
                       'input_chunk_size': r.choice([None, 1000, 16384])}
        run = harness.execute(sp, want_taps=False)
        evals[0] += n
        bump('frame-number-records', n)
        if n > 16384:
            bump('frame-numbers-of-4-bytes')
        if run.data is None:
            vio.append({'prop': PROP, 'kind': 'encoding-mismatch', 'mech': 'frame-numbers:write-failed', 'detail': str(run.wout)[:300]})
        else:
            oracle.check_frames(run)
            for v in run.violations:
                vio.append({'prop': PROP, 'kind': 'encoding-mismatch', 'mech': 'frame-numbers:' + v.mech, 'detail': v.detail})
            if run.stage_error is not None:
                vio.append({'prop': PROP, 'kind': 'encoding-mismatch', 'mech': 'frame-numbers:undecodable', 'detail': str(run.stage_error[1])[:300]})
        sigs.add(f'frame-numbers:{n}')
    else:   # e2e: the round-trip contracts observe every encoder call of a real write
        contracts.attach_codec()
        contracts.drain()
        contracts.EVALS.clear()
        r = gen.rng(seed, PROP, case['stratum'], case['index'])
        from vf import metagen
        sp = metagen.meta_spec(r, avoid=metagen.default_avoid())
        run = harness.execute(sp, want_taps=False)
        n = sum(v for kk, v in contracts.EVALS.items() if kk.startswith('codec:'))
        evals[0] += n
        bump('e2e-contract-evals', n)
        bump('e2e-write-' + run.wout[0])
        for v in contracts.drain():
            if v['prop'] == PROP:
                vio.append(v)
        sigs.add('e2e:' + ','.join(sorted({o['op'] for o in sp['ops']}))[:80])
    sample = {'kind': k, 'case': {a: b for a, b in case.items() if a != 'seed'}, 'evaluations': evals[0]}
    return {'evals': evals[0], 'violations': vio, 'obs': obs, 'sigs': sorted(sigs), 'sample': sample}
