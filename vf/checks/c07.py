"""C07 -- object identity is unique and every reference resolves in its logical file (DESIGN.md section 5, C07)."""
from __future__ import annotations
from vf.checks import _meta

PROP = 'C07'
META = {
    'level': 'exploration',
    'rule': ('one evaluation = one logical file whose decoded identity/reference graph is checked (unique (type, origin, copy, '
             'name); every OBNAME/OBJREF and every IFLR descriptor resolves to exactly one object defined before it; decoded '
             'target = the object passed; origin fields = an ORIGIN object of the file); signature = (#references, #repeated '
             'names, #origins, hash of add order); non-trivial when there is a reference and a repeated name or >= 2 origins'),
    'required_obs': {'quick': ['reference-checked', 'iflr-reference-checked', 'reference-target-compared', 'copy-number>0',
                               'objref-seen', 'explicit-origin', 'non-defining-origin', 'origin-backfilled', 'repeated-names', 'identity-change-then-rewrite', 'rewrite-renamed', 'retried-after-rejected-call', 'copy-number>=128', 'same-name-across-types', 'explicit-origin-zero', 'origin-own-reference-checked', 'object-of-another-logical-file', 'rename-away-then-reuse-name', 'header-origin-field-checked', 'names-differing-in-blanks']},
    'assumptions': ['the oracle never predicts copy numbers; it demands uniqueness and consistent use of the writer\'s own numbering'],
}
META['required_obs']['thorough'] = META['required_obs']['quick']


def cases(tier, seed):
    return _meta.cases(tier, seed, PROP)


def run_case(case):
    return _meta.run_case(case, PROP)
