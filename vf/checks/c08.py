"""C08 -- a frame's channel descriptors match the layout of its data records (DESIGN.md section 5, C08)."""
from __future__ import annotations
from vf import gen

PROP = 'C08'
META = {
    'level': 'exploration',
    'rule': ('one evaluation = one frame of a successfully written file whose decoded CHANNEL descriptors '
             '(REPRESENTATION-CODE, DIMENSION, ELEMENT-LIMIT) are compared with the dtype/shape actually written and '
             'with the byte length of every FDATA record; signature = (sorted (dtype, cast, ndim, user dimension class, '
             'user element-limit class), #frames); non-trivial when a channel is cast, 2-D or carries a user-supplied '
             'descriptor'),
    'required_obs': {'quick': ['c08-el-more-entries-small-first', 'frame-checked', 'c08-cast', 'c08-width1-2d', 'c08-element-limit>dimension',
                               'c08-user-dimension', 'c08-user-el-larger', 'c08-inconsistent-tried', 'c08-multi-frame',
                               'c08-shared-channel', 'c08-channel-in-no-frame', 'c08-struct-aligned', 'c08-struct-view', 'c08-dataset-name-overlap', 'c08-same-name-twice-in-frame', 'c08-channel-of-another-logical-file']},
    'assumptions': ['an inconsistent user-supplied dimension / element limit may be rejected; only successful writes '
                    'are constrained'],
}
META['required_obs']['thorough'] = META['required_obs']['quick']


def cases(tier, seed):
    for k in range(500 if tier == 'quick' else 12000):
        yield {'stratum': 'random', 'index': k, 'kind': 'random'}
    for k in range(100 if tier == 'quick' else 3000):
        yield {'stratum': 'struct-fastpath', 'index': k, 'kind': 'fastpath'}
    for k in range(60 if tier == 'quick' else 1500):
        yield {'stratum': 'dataset-name-overlap', 'index': k, 'kind': 'overlap'}
    # a frame listing two channels of one name (copy numbers 0, 1), or one channel twice: refused, or descriptors and rows agree
    for k in range(30 if tier == 'quick' else 600):
        yield {'stratum': 'same-name-twice-in-frame', 'index': k, 'kind': 'dup'}
    # two same-named channels of two frames that reach ONE origin by different routes (an explicit reference given before the
    # origin exists, and the back-fill of add_origin): two identities, each frame described by its own channel
    for k in range(30 if tier == 'quick' else 600):
        yield {'stratum': 'same-named-channels-two-origin-routes', 'index': k, 'kind': 'origin-routes'}
    # two logical files; a frame of one lists a channel object of the other: refused, or descriptors and rows agree
    for k in range(30 if tier == 'quick' else 600):
        yield {'stratum': 'channel-of-another-logical-file', 'index': k, 'kind': 'foreign'}
    i = 0
    for dt in gen.DTYPES:
        for cast in gen.DTYPES:
            yield {'stratum': 'cast-matrix', 'index': i, 'kind': 'cast', 'dtype': dt, 'cast': cast}
            i += 1


def run_case(case):
    from vf import harness, oracle
    seed = case.get('seed', 0)
    obs, sigs, vio = {}, [], []

    def bump(k, n=1):
        obs[k] = obs.get(k, 0) + n

    r = gen.rng(seed, PROP, case['stratum'], case['index'])
    if case['kind'] == 'cast':
        sp = gen.base_spec(r.choice([128, 8192]))
        sp['ops'].append(gen.origin_op())
        sp['ops'].append(gen.channel_op('A', gen.dtstr(case['dtype'], r.choice('<>')), (4,), fill={'kind': 'safe', 'tag': 3},
                                        cast_dtype={'$dtype': case['cast'], 'as': gen.cast_form(r)}))
        sp['ops'].append(gen.channel_op('B', gen.dtstr(case['dtype'], r.choice('<>')), (4, 3), fill={'kind': 'safe', 'tag': 5},
                                        cast_dtype={'$dtype': case['cast'], 'as': 'dtype'}))
        sp['ops'].append(gen.frame_op('F', [1, 2]))
        sp['write'] = {'source': r.choice(['inline', 'dict', 'struct', 'hdf5']), 'output_chunk_size': 2 ** 16}
        classes = ['cast']
        inconsistent = False
    elif case['kind'] == 'overlap':
        # channel X's NAME equals channel Y's DATASET name: per-channel settings (casts) must not travel by name
        n = r.choice([3, 6])
        sp = gen.base_spec(r.choice([128, 8192]))
        sp['ops'].append(gen.origin_op())
        dA, dB = r.choice(['float64', 'int32', 'uint16']), r.choice(['float64', 'float32', 'uint8'])
        cast = r.choice([d for d in ('float32', 'float64', 'int32', 'uint16') if d not in (dA, dB)] or ['float32'])
        mode = r.choice(['swapped', 'same-column-twice'])
        if mode == 'swapped':
            # column 'A' is exposed as channel 'B' (cast), column 'B' as channel 'A'
            sp['ops'].append(gen.channel_op('B', gen.dtstr(dA, '<'), (n,), fill={'kind': 'safe', 'tag': 1}, dataset_name='A',
                                            cast_dtype={'$dtype': cast, 'as': 'type'}))
            sp['ops'].append(gen.channel_op('A', gen.dtstr(dB, '<'), (n, 2), fill={'kind': 'safe', 'tag': 2}, dataset_name='B'))
        else:
            sp['ops'].append(gen.channel_op('RPM_RAW', gen.dtstr(dA, '<'), (n,), fill={'kind': 'safe', 'tag': 1}, dataset_name='RPM'))
            sp['ops'].append(gen.channel_op('RPM', gen.dtstr(dA, '<'), (n,), fill={'kind': 'safe', 'tag': 3},
                                            cast_dtype={'$dtype': cast, 'as': 'type'}))
        sp['ops'].append(gen.frame_op('F', [1, 2]))
        # (the second channel of 'same-column-twice' gets an automatic dataset name, so its data go in inline)
        sp['write'] = {'source': r.choice(['inline', 'dict', 'struct']) if mode == 'swapped' else 'inline', 'output_chunk_size': 2 ** 16}
        classes = ['overlap:' + mode]
        inconsistent = False
        bump('c08-dataset-name-overlap')
    elif case['kind'] == 'dup':
        sp = gen.frame_spec(r, casts=False, nframes=r.choice([1, 2]), nch=r.choice([2, 3]), fills=('pos',), dataset_names=False)
        frames = [o for o in sp['ops'] if o['op'] == 'frame']
        refs = frames[0]['attrs']['channels']['$tuple']
        mode = r.choice(['two-channels-one-name', 'one-channel-twice'])
        if mode == 'two-channels-one-name':
            sp['ops'][refs[-1]['$ref']]['name'] = sp['ops'][refs[0]['$ref']]['name']
        else:
            refs.append(dict(refs[r.randrange(len(refs))]))
        classes = ['dup:' + mode]
        inconsistent = True
        bump('c08-same-name-twice-in-frame')
    elif case['kind'] == 'origin-routes':
        n = r.choice([3, 5])
        R = r.choice([1, 7, 130])
        sp = gen.base_spec(r.choice([128, 8192]))
        ops = sp['ops']
        dts = r.sample(['float64', 'float32', 'uint16', 'int32', 'int16'], 2)
        first_explicit = r.random() < 0.5
        for j in range(2):
            shape = (n,) if j == 0 else (n, r.choice([2, 3]))
            ops.append(gen.channel_op(f'D{j}', '<f8', (n,), fill={'kind': 'pos', 'tag': 10 + j}))
            ops.append(gen.channel_op('X', gen.dtstr(dts[j], '<'), shape, fill={'kind': 'pos', 'tag': 20 + j}, dataset_name=f'X-{j}'))
            if (j == 0) == first_explicit:
                ops[-1]['origin_reference'] = R
            ops.append(gen.frame_op(f'F{j}', [len(ops) - 2, len(ops) - 1]))
        ops.append(gen.origin_op('LATE-ORIGIN', origin_reference=R))
        sp['write'] = {'source': 'inline', 'output_chunk_size': 2 ** 16}
        classes = ['origin-routes']
        inconsistent = False
        bump('c08-same-named-channels-two-origin-routes')
    elif case['kind'] == 'foreign':
        n = r.choice([3, 5])
        sp = gen.base_spec(r.choice([128, 8192]), lfs=[{'fh_id': 'LF-A'}, {'fh_id': 'LF-B'}])
        ops = sp['ops']
        dts = [r.choice(['float64', 'float32', 'uint16', 'int32']) for _ in range(4)]
        ops.append(gen.origin_op('ORIGIN-A', lf=0, fsn=1)); ops[-1]['set_name'] = 'A'
        ops.append(gen.channel_op('DEPTH', gen.dtstr(dts[0], '<'), (n,), lf=0, fill={'kind': 'pos', 'tag': 1})); ops[-1]['set_name'] = 'A'
        ops.append(gen.channel_op('GR', gen.dtstr(dts[1], '<'), (n, r.choice([1, 2, 3])) if r.random() < 0.5 else (n,), lf=0,
                                  fill={'kind': 'pos', 'tag': 2})); ops[-1]['set_name'] = 'A'
        ops.append(gen.frame_op('MAIN', [1, 2], lf=0)); ops[-1]['set_name'] = 'A'
        ops.append(gen.origin_op('ORIGIN-B', lf=1, fsn=2)); ops[-1]['set_name'] = 'B'
        ops.append(gen.channel_op('TIME', gen.dtstr(dts[2], '<'), (n,), lf=1, fill={'kind': 'pos', 'tag': 3})); ops[-1]['set_name'] = 'B'
        refs = [5, 2]               # own TIME + logical file A's GR
        if r.random() < 0.5:
            # ... and a channel of its own with the same name as the foreign one, other dtype
            ops.append(gen.channel_op('GR', gen.dtstr(dts[3], '<'), (n,), lf=1, fill={'kind': 'pos', 'tag': 4})); ops[-1]['set_name'] = 'B'
            ops[-1]['dataset_name'] = 'GR_B'
            if r.random() < 0.5:
                refs.append(len(ops) - 1)
        ops.append(gen.frame_op('MAIN', refs, lf=1)); ops[-1]['set_name'] = 'B'
        sp['write'] = {'source': r.choice(['dict', 'dict', 'inline']), 'output_chunk_size': 2 ** 16}
        classes = ['foreign-channel']
        inconsistent = True
        bump('c08-channel-of-another-logical-file')
    elif case['kind'] == 'fastpath':
        sp = gen.fastpath_spec(r)
        classes = ['struct-' + (sp['write'].get('struct_variant') or 'packed')]
        inconsistent = False
        bump('c08-struct-' + (sp['write'].get('struct_variant') or 'packed'))
    else:
        nfr = r.choice([1, 1, 2, 3])
        sp = gen.frame_spec(r, casts=True, nframes=nfr, fills=('pos', 'safe'))
        classes = []
        inconsistent = False
        chans = [(i, o) for i, o in enumerate(sp['ops']) if o['op'] == 'channel']
        for i, o in chans:
            per_row = o['data']['shape'][1:] or [1]
            c = r.random()
            if c < 0.25:
                o['attrs']['dimension'] = list(per_row) if r.random() < 0.7 else per_row[0]
                bump('c08-user-dimension')
                classes.append('dim=')
            elif c < 0.4:
                o['attrs']['element_limit'] = [per_row[0] + r.choice([0, 1, 5])]
                if len(per_row) == 1 and r.random() < 0.3:
                    # a limit with MORE entries than the dimension whose leading entries bound it
                    o['attrs']['element_limit'] = o['attrs']['element_limit'] + [r.choice([1, 2, 10])]
                    bump('c08-user-el-more-entries')
                if o['attrs']['element_limit'][0] > per_row[0]:
                    bump('c08-user-el-larger')
                classes.append('el>=')
            elif c < 0.5:
                o['attrs']['dimension'] = list(per_row)
                o['attrs']['element_limit'] = [per_row[0] + r.choice([0, 2])]
                bump('c08-user-dimension')
                classes.append('dim=,el>=')
            elif c < 0.6:
                # inconsistent with the data: either rejected or the written file satisfies the relation
                which = r.choice(['dim-wrong', 'el-small', 'rank', 'el-more-entries-small-first', 'el-more-entries-small-first'])
                if which == 'el-more-entries-small-first' and per_row[0] < 2:
                    which = 'dim-wrong'
                if which == 'el-more-entries-small-first':
                    # more entries than the dimension, the first one too small although the PRODUCT is large enough
                    first = r.randrange(1, per_row[0])
                    rest = -(-per_row[0] // first) + r.choice([0, 1])
                    o['attrs']['element_limit'] = [first, rest] if r.random() < 0.7 else [first, 1, rest]
                    bump('c08-el-more-entries-small-first')
                elif which == 'dim-wrong':
                    o['attrs']['dimension'] = [per_row[0] + 1]
                elif which == 'el-small':
                    if per_row[0] > 1:
                        o['attrs']['element_limit'] = [per_row[0] - 1]
                    else:
                        o['attrs']['dimension'] = [2]
                else:
                    o['attrs']['dimension'] = [per_row[0], 2]
                inconsistent = True
                bump('c08-inconsistent-tried')
                classes.append('inconsistent:' + which)
        # a channel that is in no frame; a channel shared between two frames
        if r.random() < 0.3:
            n = chans[0][1]['data']['shape'][0]
            sp['ops'].insert(len(sp['ops']) - 1, gen.channel_op('LONER', '<f4', (n,), fill={'kind': 'pos', 'tag': 77}))
            # insertion before the last frame op shifts nothing referenced (frame refs point to earlier indices)
            bump('c08-channel-in-no-frame')
            classes.append('loner')
        if nfr >= 2 and r.random() < 0.5:
            frames = [o for o in sp['ops'] if o['op'] == 'frame']
            first_ch = frames[0]['attrs']['channels']['$tuple'][-1]
            frames[1]['attrs']['channels']['$tuple'].append(dict(first_ch))
            bump('c08-shared-channel')
            classes.append('shared')
        if nfr >= 2:
            bump('c08-multi-frame')
    run = harness.execute(sp)
    if run.data is None:
        bump('write-raised:%s:%s' % (run.wout[1], run.wout[2][:50]))
        if inconsistent:
            bump('c08-inconsistent-rejected')
        return {'evals': 1, 'violations': [], 'obs': obs, 'sigs': [], 'sample': None}
    oracle.check_frames(run)
    undecodable = None
    if run.stage_error is not None:
        e_ = run.stage_error[1]
        undecodable = {'prop': PROP, 'kind': 'records-undecodable', 'mech': 'undecodable:' + getattr(e_, 'kind', type(e_).__name__),
                       'detail': f'the written file does not decode, descriptors and records cannot be compared: {e_}'}
    for k, v in run.obs.items():
        bump(k, v)
    chs = [o for o in sp['ops'] if o['op'] == 'channel']
    sig = str(sorted({(o['data']['dtype'][1:], str(o.get('cast_dtype', {}).get('$dtype') if o.get('cast_dtype') else None),
                       len(o['data']['shape'])) for o in chs})) + str(sorted(set(classes)))
    nontrivial = bool(classes) or any(o.get('cast_dtype') or len(o['data']['shape']) > 1 for o in chs)
    vio = [v.as_dict() for v in run.by_prop(PROP)] + ([undecodable] if undecodable else [])
    sample = {'channels': [(o['name'], o['data']['dtype'], o['data']['shape'], o.get('cast_dtype'), o['attrs']) for o in chs][:5],
              'classes': classes}
    return {'evals': max(1, run.obs.get('frame-checked', 0)), 'violations': vio, 'obs': obs,
            'sigs': [sig] if nontrivial else [], 'sample': sample}
