"""C09 -- each logical file has the mandated order: header, origin, sets, then data (DESIGN.md section 5, C09)."""
from __future__ import annotations
from vf.checks import _meta

PROP = 'C09'
META = {
    'level': 'exploration',
    'rule': ('one evaluation = one logical file whose decoded record sequence is run through the order acceptor (one FILE-HEADER '
             'object with justified SEQUENCE-NUMBER/ID, ORIGIN set(s) next, defining origin FILE-ID = header id and '
             'FILE-SET-NUMBER present, every (type, name) set once and non-empty, IFLRs after their objects); signature = '
             '(origin first?, origin last?, #logical files, order of first use of each type); non-trivial when the origin '
             'was not created first, sets are named or there are several logical files'),
    'required_obs': {'quick': ['c09-lf', 'c09-origin-last', 'c09-origin-not-first', 'c09-multi-origin-sets', 'c09-named-set',
                               'c09-multi-lf', 'header-change-then-rewrite', 'empty-set-name', 'set-renamed-after-creation',
                               'retried-after-rejected-call', 'origin-file-set-number-left-to-library', 'file-header-given-as-object',
                               'file-header-identifier-chosen', 'rejected-call-never-repeated']},
    'assumptions': [],
}
META['required_obs']['thorough'] = META['required_obs']['quick']


def cases(tier, seed):
    return _meta.cases(tier, seed, PROP)


def run_case(case):
    return _meta.run_case(case, PROP)
