"""C10 -- chunk sizes are invisible; the file on disk only ever grows by whole records (DESIGN.md section 5, C10)."""
from __future__ import annotations
import copy
from vf import gen

PROP = 'C10'
META = {
    'level': 'fault_enumeration',
    'rule': ('one evaluation = one (specification, input chunk size, output chunk size, prior content, crash point) write '
             'compared byte-for-byte with the reference configuration, including its flush events (on-disk content read at '
             'every flush-tap event must be a prefix of the final file ending on a visible-record boundary; final size = tap '
             'total = reported total); crash points = an exception injected after the k-th physical write, for every k; '
             'signature = (rows class, input-chunk relation, #flushes class, output-chunk relation, prior content, crash k '
             'class); non-trivial when there are >= 2 flushes, a remainder chunk or an injected crash'),
    'required_obs': {'quick': ['syscall-traced', 'syscall-target-closes>=3', 'ics-astronomical', 'flushes>=3', 'flush-at-exact-fit', 'remainder-chunk', 'crash-first', 'crash-middle', 'crash-last',
                               'prior-longer', 'prior-shorter', 'ocs-float', 'ocs-eq-record', 'ics-gt-rows', 'ics-1',
                               'invalid-config-tried', 'reported-size-compared', 'window', 'contract-evals-write_bytes',
                               'contract-evals-buffer-invariant', 'one-data-object-many-configurations', 'cast-of-special-values']},
    'assumptions': ['crash points are flush boundaries (what the statement speaks of); a kill inside one write(2) is out of scope',
                    'origins carry explicit file_set_number / creation_time'],
    'technique': ('runtime monitoring + fault injection: flush-tap event log with on-disk snapshots, byte differential across '
                  'the configuration matrix, exception injected at every flush point, recording contracts on '
                  'ByteWriter.write_bytes and the BufferedOutput invariant (icontract); strace of a child process (open flags of the target, bytes written at every close on record boundaries)'),
}
META['required_obs']['thorough'] = META['required_obs']['quick'] + ['default-output-chunk']
META['env'] = {'thorough': {'VF_RLIMIT_AS_GIB': 14}}      # one case writes with the default 2 x 4 GiB output buffer
META['timeout_s'] = {'quick': 900, 'thorough': 3600}


def cases(tier, seed):
    for k in range(24 if tier == 'quick' else 400):
        yield {'stratum': 'matrix', 'index': k, 'kind': 'matrix'}
    for k in range(16 if tier == 'quick' else 300):
        yield {'stratum': 'crash', 'index': k, 'kind': 'crash'}
    # a declared float -> integer cast of values the integer type cannot hold (NaN, infinities, huge values): whatever is
    # done with them must not depend on how the rows are chunked
    for k in range(16 if tier == 'quick' else 300):
        yield {'stratum': 'matrix-cast-of-special-values', 'index': k, 'kind': 'matrix', 'cast_special': True}
    # one DLISFile and ONE caller-owned data object written several times, each time with other chunk sizes
    for k in range(30 if tier == 'quick' else 600):
        yield {'stratum': 'one-data-object-many-configurations', 'index': k, 'kind': 'shared'}
    # the same property observed from OUTSIDE the process: strace of a child that does nothing but one write between two
    # markers -- how the target is opened, what is written to it, where it stands every time it is closed
    for k in range(8 if tier == 'quick' else 120):
        yield {'stratum': 'syscall-trace', 'index': k, 'kind': 'syscalls'}
    yield {'stratum': 'invalid', 'index': 0, 'kind': 'invalid'}
    if tier == 'thorough':
        yield {'stratum': 'default-output-chunk', 'index': 0, 'kind': 'default', 'once': True}


def make_spec(r):
    mx = r.choice([64, 128, 256, 1024, 8192])
    sp = gen.frame_spec(r, mx=mx, rows=r.choice([1, 2, 6, 7, 12, 30]), sources=('inline',), nframes=r.choice([1, 2]),
                        max_width=min(3 * mx, 400))
    k = len(sp['ops'])
    sp['ops'].append(gen.nf_op('NF'))
    for j in range(r.randint(0, 4)):
        sp['ops'].append(gen.nf_data_op(k, gen.payload_bytes(r, r.choice([0, 5, 40, min(mx, 700), min(3 * mx, 2000)]), j)))
    for j in range(r.choice([0, 3, 30])):
        sp['ops'].append({'op': 'zone', 'name': f'Z{j}', 'attrs': {'description': gen.ascii_text(r, 30)}})
    return sp, mx


def run_case(case):
    import logging
    import os
    import re
    from vf import harness, oracle, rp66, contracts, spec as S
    seed = case.get('seed', 0)
    contracts.attach()
    contracts.drain()
    contracts.EVALS.clear()
    obs, sigs, vio = {}, set(), []
    evals = 0

    def bump(k, n=1):
        obs[k] = obs.get(k, 0) + n

    r = gen.rng(seed, PROP, case['stratum'], case['index'])

    window = {}

    def write(sp, ics, ocs, prior=None, crash_at=None, use_default=False):
        """returns (wout, final bytes or None, flush snapshots [(total, on-disk bytes)], reported size)"""
        b = S.build(sp)
        path = harness.fresh_path()
        if prior is not None:
            with open(path, 'wb') as f:
                f.write(prior)
        snaps = []

        def on_flush(fn, total, k):
            with open(fn, 'rb') as f:
                snaps.append((total, f.read()))
            if crash_at is not None and k == crash_at:
                raise OSError(5, 'injected I/O error after flush %d' % k)
        taps = harness.Taps(on_flush)
        spw = copy.deepcopy(sp)
        spw['write'] = {'input_chunk_size': ics, 'output_chunk_size': ocs, 'source': 'inline'}
        spw['write'].update(window)
        with harness.capture_logs(logging.INFO) as logs:
            with taps:
                if use_default:
                    try:
                        b.df.write(path, input_chunk_size=ics, **{k: v for k, v in window.items() if v is not None})
                        wout = ('ok',)
                    except Exception as e:   # noqa
                        wout = ('exc', type(e).__name__, str(e)[:200])
                else:
                    wout = S.do_write(spw, b, path, harness.scratch_dir())
        reported = None
        for lv, nm, msg in logs:
            m = re.match(r'Total file size is (\d+) bytes', msg)
            if m:
                reported = int(m.group(1))
        data = None
        if os.path.exists(path):
            with open(path, 'rb') as f:
                data = f.read()
            os.remove(path)
        return wout, data, snaps, reported

    def vr_boundaries(data):
        ph = rp66.physical(data)
        return {80} | set(ph.vr_end_offsets)

    def check_flushes(label, ref, snaps, final):
        bounds = vr_boundaries(ref)
        for j, (total, disk) in enumerate(snaps):
            if len(disk) != total:
                vio.append({'prop': PROP, 'kind': 'flush-size', 'mech': 'flush-size-accounting',
                            'detail': f'{label}: after flush {j + 1} the writer counts {total} bytes, file has {len(disk)}'})
            if ref[:len(disk)] != disk:
                vio.append({'prop': PROP, 'kind': 'flush-not-prefix', 'mech': 'flush-not-prefix',
                            'detail': f'{label}: on-disk content after flush {j + 1} ({len(disk)} bytes) is not a prefix of the final file'})
                return
            if len(disk) not in bounds:
                vio.append({'prop': PROP, 'kind': 'flush-mid-record', 'mech': 'flush-mid-record',
                            'detail': f'{label}: flush {j + 1} ends at offset {len(disk)}, not a visible-record boundary'})
                return

    if case['kind'] == 'syscalls':
        from vf import syscalls
        if not syscalls.available():
            bump('strace-unavailable')
            return {'evals': 0, 'violations': [], 'obs': obs, 'sigs': [], 'sample': None}
        sp, mx = make_spec(r)
        rows = [o for o in sp['ops'] if o['op'] == 'channel'][0]['data']['shape'][0]
        src = r.choice(['inline', 'dict', 'hdf5', 'struct'])
        sp['write'] = {'source': src, 'input_chunk_size': r.choice(gen.chunk_choices(rows)),
                       'output_chunk_size': r.choice([mx, mx + 2, 2 * mx, 3 * mx + 7, 4096.0 if mx <= 4096 else 2 * mx, 2 ** 16])}
        prior = r.choice([None, None, 50, 100000])
        if prior:
            sp['write']['prior_bytes'] = prior
            bump('syscall-prior-content')
        ev = syscalls.trace(sp)
        evals = 1
        if ev['markers'] != (True, True) or ev['build_error'] or ev['write'] is None:
            raise RuntimeError(f'traced child did not run the write: {ev["markers"]} {ev["build_error"]}')
        bump('syscall-traced')
        bump('syscall-lines-inside-markers', ev['lines_inside'])
        if ev['write'][0] != 'ok' or ev['data'] is None:
            vio.append({'prop': PROP, 'kind': 'accepted-config-raises', 'mech': 'syscall:config-raises',
                        'detail': f'{sp["write"]}: {ev["write"]}'})
        else:
            bounds = vr_boundaries(ev['data'])
            bad, sizes = syscalls.judge_target(ev, bounds)
            bump('syscall-target-closes', len(sizes))
            if len(sizes) >= 3:
                bump('syscall-target-closes>=3')
            for b_ in bad:
                vio.append({'prop': PROP, 'kind': 'syscall-target', 'mech': 'syscall:' + b_.split(' (')[0][:60],
                            'detail': f'{b_} (source {src}, {sp["write"]}, sizes at close {sizes[:8]})'})
            for b_ in syscalls.judge_source(ev):
                vio.append({'prop': PROP, 'kind': 'syscall-source', 'mech': 'syscall:' + b_[:60], 'detail': b_})
            sigs.add(f'syscalls:{src}:{min(len(sizes), 6)}:{prior}')
        sample = {'kind': 'syscall trace', 'source': src, 'write': sp['write'], 'target_opens': sum(1 for o in ev['opens'] if o[0] == 'target'),
                  'writes': sum(1 for w_ in ev['writes'] if w_[0] == 'target' and w_[2] != 'close')}
        return {'evals': evals, 'violations': vio, 'obs': obs, 'sigs': sorted(sigs), 'sample': sample}

    if case['kind'] in ('matrix', 'default'):
        sp, mx = make_spec(r)
        if case.get('cast_special'):
            n_ = r.choice([8, 9, 12, 30])
            for o in sp['ops']:
                if o['op'] == 'channel':
                    o['data']['shape'][0] = n_
            ch_ = [o for o in sp['ops'] if o['op'] == 'channel'][-1]
            ch_['data'] = {'dtype': '<f8', 'shape': [n_], 'layout': 'C', 'fill': {'kind': 'special', 'seed': r.randrange(50)}}
            if r.random() < 0.6:
                # floats of moderate size beyond the target's range (no floating-point flag tells numpy's loops apart)
                ch_['data']['fill'] = {'kind': 'oor', 'bad_at': [[r.randrange(n_), r.randrange(1000)] for _ in range(r.choice([0, 1, 1, 2]))]}
                bump('cast-of-out-of-range-floats')
            ch_['cast_dtype'] = {'$dtype': r.choice(['uint32', 'uint32', 'int32', 'uint16', 'int16']), 'as': 'type'}
            bump('cast-of-special-values')
            single_ = case['index'] % 3 == 0
            if single_:
                # NaN (undefined under an integer cast, and neither below nor above any bound) at the start, inside and at the
                # end of the column; target uint32
                v_ = [float(j + 1) for j in range(n_)]
                for j in (1, n_ // 2, n_ - 1):
                    v_[j] = float('nan')
                import numpy as _np
                ch_['data'] = {'dtype': '<f8', 'shape': [n_], 'layout': 'C',
                               'fill': {'kind': 'seq', 'values': [0] * n_, 'bits': [int(x) for x in _np.array(v_, dtype='<f8').view('u8')]}}
                ch_['cast_dtype'] = {'$dtype': 'uint32', 'as': 'type'}
                bump('cast-of-nan-to-uint32')
            if single_ or r.random() < 0.4:
                # a frame of this ONE channel: its column is cast into a contiguous destination (numpy's vectorised loops)
                ci_ = max(i for i, o in enumerate(sp['ops']) if o['op'] == 'channel')
                for o in sp['ops']:
                    if o['op'] == 'frame' and any(c_['$ref'] == ci_ for c_ in o['attrs']['channels']['$tuple']):
                        o['attrs']['channels']['$tuple'] = [{'$ref': ci_}]
                bump('cast-of-special-values-single-channel-frame')
        rows = [o for o in sp['ops'] if o['op'] == 'channel'][0]['data']['shape'][0]
        full_rows = rows
        if rows > 2 and r.random() < 0.5:
            # a row window: the chunk sizes must stay invisible for the selected rows as well
            a0 = r.randrange(0, rows - 1)
            b0 = r.randrange(a0 + 1, rows + 1)
            window.update({'from_idx': a0, 'to_idx': r.choice([b0, None])})
            rows = (full_rows if window['to_idx'] is None else b0) - a0
            bump('window')
        wout, ref, snaps, reported = write(sp, None, 2 ** 20)
        if ref is None or wout[0] != 'ok':
            bump('reference-raised:%s' % (wout[2][:50] if len(wout) > 2 else ''))
            return {'evals': 1, 'violations': [], 'obs': obs, 'sigs': [], 'sample': None}
        size = len(ref)
        if case['kind'] == 'default':
            cfgs = [(None, 'default', None)]
        else:
            ics_all = sorted(set(x for x in gen.chunk_choices(rows) + gen.chunk_choices(full_rows) if x is not None)) + [None, True]
            # accepted values far beyond any row count (integers have no upper limit): one chunk, like None
            ics_all += [r.choice([2 ** 31, 2 ** 63, 2 ** 64 + 1]), r.choice([10 ** 100, 10 ** 330, 10 ** 400])]
            ocs_all = [mx, mx + 1, mx + 2, 2 * mx - 1, 2 * mx, float(2 * mx), size, size - 1, size + 1, 3 * mx + 7, 2 ** 20, 4096.0]
            ocs_all = [o for o in ocs_all if o >= mx]
            cfgs = []
            for ics in ics_all:
                cfgs.append((ics, r.choice(ocs_all), r.choice([None, 'longer', 'shorter'])))
            for ocs in ocs_all:
                cfgs.append((r.choice(ics_all), ocs, r.choice([None, None, 'longer', 'shorter'])))
        for ics, ocs, prior_kind in cfgs:
            prior = None
            if prior_kind == 'longer':
                prior = bytes(r.randrange(256) for _ in range(size + 1000))
                bump('prior-longer')
            elif prior_kind == 'shorter':
                prior = bytes(r.randrange(256) for _ in range(max(1, size // 3)))
                bump('prior-shorter')
            if ocs == 'default':
                w2, d2, s2, rep2 = write(sp, ics, None, prior, use_default=True)
                if w2[0] != 'ok' and w2[1] == 'MemoryError':
                    # the default buffer is 2 x 4 GiB; not getting the memory is a limit of this run, not a verdict
                    bump('default-output-chunk-out-of-memory')
                    continue
                bump('default-output-chunk')
            else:
                w2, d2, s2, rep2 = write(sp, ics, ocs, prior)
            evals += 1
            label = f'input_chunk_size={ics!r} output_chunk_size={ocs!r} prior={prior_kind}'
            if isinstance(ocs, float):
                bump('ocs-float')
            if ocs == mx:
                bump('ocs-eq-record')
            if ics is not None and ics is not True and ics > rows:
                bump('ics-gt-rows')
            if ics is not None and ics is not True and ics >= 10 ** 100:
                bump('ics-astronomical')
            if ics == 1 or ics is True:
                bump('ics-1')
            rem = ics is not None and ics is not True and ics < rows and rows % ics
            if rem:
                bump('remainder-chunk')
            if len(s2) >= 3:
                bump('flushes>=3')
            # exact fit: some flush left the buffer exactly full
            if ocs != 'default' and any((b_[0] - a_[0]) == int(ocs) for a_, b_ in zip(s2, s2[1:])):
                bump('flush-at-exact-fit')
            if len(s2) >= 2 or rem:
                rel = 'none' if ics is None else '1' if ics in (1, True) else 'gt' if ics > rows else 'div' if rows % ics == 0 else 'rem'
                orel = 'default' if ocs == 'default' else 'eq' if ocs == mx else 'lt2' if ocs < 2 * mx else 'file' if abs(ocs - size) <= 1 else 'big'
                sigs.add(f'{rows}:{rel}:{min(len(s2), 5)}:{orel}:{prior_kind}')
            if w2[0] != 'ok':
                vio.append({'prop': PROP, 'kind': 'accepted-config-raises', 'mech': 'config-raises',
                            'detail': f'{label}: {w2[1]}: {w2[2]} (reference configuration wrote {size} bytes)'})
                continue
            if d2 != ref:
                mech = 'bytes-differ'
                if prior is not None and d2 is not None and len(d2) > len(ref):
                    mech = 'prior-content-survives'
                elif ics is not None and ics is not True and (ics > rows or rows % ics):
                    mech = 'bytes-differ:input-chunk'
                d = next((i for i in range(min(len(ref), len(d2))) if ref[i] != d2[i]), min(len(ref), len(d2)))
                vio.append({'prop': PROP, 'kind': 'bytes-differ', 'mech': mech,
                            'detail': f'{label}: differs from reference at offset {d} (sizes {len(d2)} vs {len(ref)})'})
                continue
            if s2 and s2[-1][0] != len(d2):
                vio.append({'prop': PROP, 'kind': 'final-size', 'mech': 'final-size-vs-tap', 'detail': f'{label}: tap {s2[-1][0]}, file {len(d2)}'})
            if rep2 is not None:
                bump('reported-size-compared')
                if rep2 != len(d2):
                    vio.append({'prop': PROP, 'kind': 'reported-size', 'mech': 'reported-size', 'detail': f'{label}: reported {rep2}, file {len(d2)}'})
            check_flushes(label, ref, s2, d2)
        sample = {'rows': rows, 'max_record_length': mx, 'file_size': size, 'configs': [(str(a), str(b_), c) for a, b_, c in cfgs[:6]]}
    elif case['kind'] == 'shared':
        sp = gen.fastpath_spec(r) if r.random() < 0.6 else gen.frame_spec(r, sources=('struct', 'dict', 'hdf5'), casts=False,
                                                                          mx=r.choice([128, 1024, 8192]), max_width=300)
        mx = sp['sul']['max_record_length']
        src = sp['write']['source']
        rows = [o for o in sp['ops'] if o['op'] == 'channel'][0]['data']['shape'][0]
        base_w = {k_: v for k_, v in sp['write'].items() if k_ in ('source', 'perm_seed', 'extra', 'struct_variant')}
        ref_sp = copy.deepcopy(sp)
        ref_sp['write'] = {'source': 'inline', 'output_chunk_size': 2 ** 20}
        ref_run = harness.execute(ref_sp, want_taps=False)
        if ref_run.data is None:
            bump('reference-raised:%s' % ref_run.wout[2][:50])
            return {'evals': 1, 'violations': [], 'obs': obs, 'sigs': [], 'sample': None}
        ref = ref_run.data
        b = S.build(sp)
        data_obj = S.make_write_data(sp, b, harness.scratch_dir())
        bump('one-data-object-many-configurations')
        cfgs = [(r.choice(gen.chunk_choices(rows)), r.choice([mx, mx + 2, 2 * mx, 3 * mx + 7, max(mx, len(ref)), 2 ** 20])) for _ in range(r.choice([3, 4, 5]))]
        for j, (ics, ocs) in enumerate(cfgs):
            path = harness.fresh_path()
            spw = copy.deepcopy(sp)
            spw['write'] = dict(base_w, input_chunk_size=ics, output_chunk_size=ocs)
            w2 = S.do_write(spw, b, path, harness.scratch_dir(), data=data_obj)
            d2 = None
            if os.path.exists(path):
                with open(path, 'rb') as f:
                    d2 = f.read()
                os.remove(path)
            evals += 1
            sigs.add(f'shared:{src}:{j}')
            label = f'write #{j + 1} of one DLISFile from one {src} data object, input_chunk_size={ics!r} output_chunk_size={ocs!r}'
            if w2[0] != 'ok':
                vio.append({'prop': PROP, 'kind': 'accepted-config-raises', 'mech': 'config-raises:shared-data-object',
                            'detail': f'{label}: {w2[1]}: {w2[2]}'})
            elif d2 != ref:
                d = next((i for i in range(min(len(ref), len(d2))) if ref[i] != d2[i]), min(len(ref), len(d2)))
                vio.append({'prop': PROP, 'kind': 'bytes-differ', 'mech': 'bytes-differ:shared-data-object',
                            'detail': f'{label}: differs from the reference at offset {d} (sizes {len(d2)} vs {len(ref)})'})
        sample = {'rows': rows, 'max_record_length': mx, 'source': src, 'configs': [(str(a), str(b_)) for a, b_ in cfgs]}
    elif case['kind'] == 'crash':
        sp, mx = make_spec(r)
        wout, ref, snaps, reported = write(sp, None, 2 ** 20)
        if ref is None:
            return {'evals': 1, 'violations': [], 'obs': obs, 'sigs': [], 'sample': None}
        ocs = r.choice([mx, mx + 2, 2 * mx, 3 * mx + 7])
        w0, d0, s0, _ = write(sp, r.choice([None, 1, 2]), ocs)
        nfl = len(s0)
        ks = list(range(1, nfl + 1))
        if nfl > 14:
            ks = sorted(set(ks[:5] + ks[-5:] + [r.randrange(1, nfl + 1) for _ in range(4)]))
        for k in ks:
            w2, d2, s2, _ = write(sp, None, ocs, prior=r.choice([None, b'\xEE' * (len(ref) + 50)]), crash_at=k)
            evals += 1
            bump('crash-first' if k == 1 else 'crash-last' if k == nfl else 'crash-middle')
            sigs.add(f'crash:{"first" if k == 1 else "last" if k == nfl else "mid"}:{min(nfl, 6)}')
            label = f'crash after flush {k}/{nfl} (output_chunk_size={ocs})'
            if w2[0] == 'ok':
                vio.append({'prop': PROP, 'kind': 'injected-fault-swallowed', 'mech': 'fault-swallowed', 'detail': label})
            if d2 is None:
                continue
            bounds = vr_boundaries(ref)
            if ref[:len(d2)] != d2:
                vio.append({'prop': PROP, 'kind': 'crash-not-prefix', 'mech': 'crash-not-prefix',
                            'detail': f'{label}: surviving file ({len(d2)} bytes) is not a prefix of the complete file'})
            elif len(d2) not in bounds:
                vio.append({'prop': PROP, 'kind': 'crash-mid-record', 'mech': 'crash-mid-record',
                            'detail': f'{label}: surviving file ends at {len(d2)}, not a visible-record boundary'})
        sample = {'kind': 'crash', 'flushes': nfl, 'output_chunk_size': ocs, 'file_size': len(ref)}
    else:   # invalid configurations: must raise; whatever is accepted must give the reference bytes
        sp, mx = make_spec(r)
        rows = [o for o in sp['ops'] if o['op'] == 'channel'][0]['data']['shape'][0]
        wout, ref, snaps, reported = write(sp, None, 2 ** 20)
        bad = [(None, mx - 1), (None, mx - 2), (None, -1), (None, mx + 0.5), (None, 'big'), (None, [mx]),
               (0, 2 ** 16), (-1, 2 ** 16), (-rows, 2 ** 16), (1.5, 2 ** 16), ('2', 2 ** 16), (2.0, 2 ** 16)]
        for ics, ocs in bad:
            w2, d2, s2, _ = write(sp, ics, ocs)
            evals += 1
            bump('invalid-config-tried')
            label = f'input_chunk_size={ics!r} output_chunk_size={ocs!r}'
            if w2[0] == 'ok':
                bump('invalid-config-accepted')
                if d2 != ref:
                    vio.append({'prop': PROP, 'kind': 'accepted-config-changes-bytes',
                                'mech': 'accepted-invalid:' + ('negative-input-chunk' if isinstance(ics, int) and ics < 0 else 'other'),
                                'detail': f'{label} was accepted and wrote {len(d2) if d2 else 0} bytes; reference {len(ref) if ref else None}'})
            else:
                bump('invalid-config-rejected')
            sigs.add(f'invalid:{ics!r}:{ocs!r}')
        sample = {'kind': 'invalid', 'tried': [(str(a), str(b_)) for a, b_ in bad]}
    for v in contracts.drain():
        if v['prop'] == PROP:
            vio.append(v)
    bump('contract-evals-write_bytes', contracts.EVALS['write_bytes'])
    bump('contract-evals-buffer-invariant', contracts.EVALS['BufferedOutput.invariant'])
    contracts.EVALS.clear()
    return {'evals': evals, 'violations': vio, 'obs': obs, 'sigs': sorted(sigs), 'sample': sample}
